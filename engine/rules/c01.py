"""C01 — multipass assembly ends at a fixpoint (structural clauses).

R1 the repass flag is monotone within a pass and controls the pass loop
R2 a value fabricated for an unknown symbol always forces a repass; once
   symbols must be defined the same situation raises an error
R3 symbol values carried between passes are written only through the change
   detector (SymbolAdder) -- the padding fix-up bypass is a known finding
R4 every core variable that the body of a pass writes is re-initialised per
   pass, or classified (shared engine with C18)
R5 registered per-target state is re-initialised per pass
"""
from core import *
from .common import *
from . import reset

LOOKUP_ONLY = {
    'asmpars.c:FindNode': 'FORWARD-declared names are only looked up differently while symbols may still be undefined; '
                          'no value is fabricated',
    'asmallg.c:CodeGlobalPseudo': 'FORWARD only records names during the early passes',
}


R2_EXC = {
    'asmallg.c:CodeREGCore:late-unknown=>error':
        'falls through to the generic "if (EvalResult.OK) enter else WrStrErrorPos(ErrorNum)"; the evaluator returns '
        'ErrNum_SymbolUndef only together with OK == False (flag correlation the CFG cannot see)',
}


def is_repass_true(ex):
    for m in walk_own(ex):
        if is_assign(m) and m[1] == '=' and strip(m[2]) == ('g', 'Repass') and const_val(m[3]) == 1:
            return True
    return False


def is_error_call(ex):
    for m in walk_own(ex):
        if m[0] == 'call' and (callee_name(m) or '').startswith(('WrError', 'WrXError', 'WrStrError', 'WrXErrorPos')):
            return True
    return False


def rule_r1(chk, facts, P):
    chk.rule('C01-R1', 'Repass is cleared only by the pass initialisation, every other writer sets it to True, and the '
             'pass loop of AssembleFile() runs again exactly while ErrorCount == 0 && Repass', min_instances=5)
    ph = asl_phases(facts, P)
    for (f, how, ln, node, b, i) in P.write_index().get('Repass', []):
        key = '%s:%s:Repass' % (f.unit.name, f.name)
        v = const_val(node[3]) if is_assign(node) and node[1] == '=' else None
        if v == 0:
            ok = f in ph['PASS_INIT'] and f not in ph['BODY']
            chk.ob('C01-R1', key + '=False', ok, f.loc(ln), 'cleared at pass start' if ok else
                   'Repass is cleared in %s while a pass is running: a pending repass request is lost and the code file '
                   'keeps placeholder values' % f.name)
        elif v == 1:
            chk.ob('C01-R1', key + '=True', True, f.loc(ln), 'request')
        else:
            chk.ob('C01-R1', key, False, f.loc(ln), 'Repass written by %s' % show(node))
    af = ph['AssembleFile']
    h, s0, body = ph['loop']
    hb = af.blocks[h]
    c = nocast(hb.get('cond'))
    want1 = ('b', '==', ('g', 'ErrorCount'), ('c', 0))
    want2 = ('g', 'Repass')
    ok = c[0] == 'b' and c[1] == '&&' and {c[2], c[3]} == {want1, want2}
    chk.ob('C01-R1', 'as.c:AssembleFile:pass-loop-condition', ok, af.loc(hb['term'][1]),
           'do ... while (ErrorCount == 0 && Repass)' if ok else
           'the pass loop is controlled by %s instead of ErrorCount == 0 && Repass' % show(c))


def rule_r2(chk, facts, P):
    chk.rule('C01-R2', 'on every edge PassNo <= MaxSymPass taken where a result is fabricated for an unknown symbol, '
             'Repass = True lies on all paths to the function\'s return; on the complementary edge an error is raised '
             'on all paths (lookup-only uses of the test are listed)', min_instances=3)
    n = 0
    for f in P.all_funcs():
        if reset.is_gen(f.unit.name):
            continue
        for s, d, l in f.edges():
            if l is None or l[0] not in ('T', 'F'):
                continue
            c = nocast(l[1])
            if not (c[0] == 'b' and c[1] == '<=' and c[2] == ('g', 'PassNo') and c[3] == ('g', 'MaxSymPass')):
                continue
            if f.qname in LOOKUP_ONLY:
                if l[0] == 'T':
                    chk.exception('C01-R2', f.qname, LOOKUP_ONLY[f.qname])
                    # supporting check: the early-pass FORWARD lookup must find the declared names, i.e. it
                    # searches with the same (case-folded) spelling under which CodePPSyms stored them
                    from . import c13
                    for b2, i2, l2, n2 in f.calls('FindNode_FSpec'):
                        okf, wf = c13.folded(P, f, b2, i2, nocast(n2[2][0]))
                        chk.ob('C01-R2', '%s:forward-list-lookup' % f.qname, okf, f.loc(l2),
                               'FORWARD list searched with the folded name' if okf else
                               'the FORWARD list is searched before the name is upper-cased: a forward-declared local '
                               'symbol written in lower case is not recognised in the first pass, binds to an outer '
                               'symbol of the same name and no further pass is requested')
                continue
            n += 1
            ln = f.blocks[s]['term'][1]
            if l[0] == 'T':
                ok = any(is_repass_true(ex) for l2, ex in f.blocks[d]['elems'])
                w = []
                if not ok:
                    ok, w = f.must_pass(d, -1, is_repass_true)
                chk.ob('C01-R2', '%s:placeholder=>repass' % f.qname, ok, f.loc(ln),
                       'Repass = True on every path' if ok else
                       'a placeholder is used for an unknown symbol without requesting another pass: the emitted code keeps '
                       'the placeholder; path ' + ' '.join(w[-5:]))
            else:
                ok = any(is_error_call(ex) for l2, ex in f.blocks[d]['elems'])
                w = []
                if not ok:
                    ok, w = f.must_pass(d, -1, is_error_call)
                key2 = '%s:late-unknown=>error' % f.qname
                if not ok and key2 in R2_EXC:
                    # supporting check: an error call is at least reachable on the edge
                    seen = f.reach_forward([d])
                    if any(is_error_call(ex) for bb in seen for l2, ex in f.blocks[bb]['elems']):
                        chk.exception('C01-R2', key2, R2_EXC[key2])
                        ok = True
                chk.ob('C01-R2', '%s:late-unknown=>error' % f.qname, ok, f.loc(ln),
                       'error on every path' if ok else
                       'after the last symbol pass an unknown symbol is accepted without an error: path ' + ' '.join(w[-5:]))
    if n < 4:
        raise AnalysisBroken('only %d PassNo <= MaxSymPass edges found' % n)


ALLOWED_VALUE_WRITERS = {
    'SymbolAdder': 'the change detector itself',
    'EnterSymbol': 'fills a private copy that is then entered through the change detector',
    'PopSymbol': 'POPV restores a saved value (documented LIFO semantics)',
    'SetSymbolOrStructElemSize': 'sets the size attribute only, not the value',
    'FreeSymbolEntry': 'destruction',
}


def rule_r3(chk, facts, P):
    chk.rule('C01-R3', 'the value of a symbol-table entry that was not created in the same function is written only by '
             'the change detector SymbolAdder() (and the listed attribute/POPV/destructor functions); every other '
             'writer bypasses the comparison that decides whether another pass is needed', min_instances=4)
    u = facts.unit('asmpars.c')
    setters = {'as_tempres_set_int', 'as_tempres_set_float', 'as_tempres_set_reg', 'as_tempres_set_c_str',
               'as_tempres_copy', 'as_tempres_set_none'}
    found = {}
    for f in P.all_funcs():
        creates = any(callee_name(n) == 'CreateSymbolEntry' for b, i, ln, n in f.calls())
        for b, i, ln, n in f.nodes():
            hit = False
            if is_assign(n) and any(m[0] == 'm' and m[2] == 'sSymbolEntry.SymWert' for m in walk(n[2])):
                hit = True
            if n[0] == 'call' and callee_name(n) in setters and n[2]:
                a = strip(n[2][0])
                if a[0] == 'u' and a[1] == '&' and any(m[0] == 'm' and m[2] == 'sSymbolEntry.SymWert' for m in walk(a)):
                    hit = True
            if hit and not creates:
                found.setdefault(f, ln)
    if not found:
        raise AnalysisBroken('no symbol value writers found')
    for f, ln in sorted(found.items(), key=lambda x: x[0].qname):
        key = '%s:%s' % (f.unit.name, f.name)
        if f.name in ALLOWED_VALUE_WRITERS:
            chk.ob('C01-R3', key, True, f.loc(ln), ALLOWED_VALUE_WRITERS[f.name])
            continue
        callers = sorted({g.qname for (g, b2, i2, l2, n2, d2) in call_sites(P, f)})
        chk.ob('C01-R3', key, False, f.loc(ln),
               '%s overwrites the value of an existing symbol entry without comparing it with the value carried from the '
               'previous pass (called from %s): a label that is moved by automatic padding is first entered with the '
               'unpadded address, which differs from the carried padded one and sets Repass in every pass' %
               (f.name, ', '.join(callers)))


def run(chk, facts, info):
    P = facts.program('asl')
    rule_r1(chk, facts, P)
    rule_r2(chk, facts, P)
    rule_r3(chk, facts, P)
    chk.rule('C01-R4', 'every static-storage variable of the core modules that may be written while a pass runs is '
             'assigned on every path of the per-pass initialisation, or belongs to a listed class (line scratch, cache, '
             'handle, emptied list, balanced pair, carried by design) whose supporting check holds', min_instances=180)
    reset.core_reset(chk, facts, 'C01-R4', 'pass')
    chk.rule('C01-R5', 'every ASSUME destination, ON/OFF flag and CPU argument is re-initialised at pass start or by '
             'the SwitchTo_* that registers it', min_instances=40)
    reset.registered_reset(chk, facts, 'C01-R5')
    chk.rule('C01-R6', 'state that damps size oscillation between passes (the address behind the last BSR, compared with '
             'label values) is kept in one address space: logical (EProgCounter()) and physical (ProgCounter()) '
             'addresses are never compared or subtracted across', min_instances=2)
    logical_physical_rule(chk, P, 'C01-R6')
    chk.rule('C01-R7', 'in the core modules a value that is implicitly narrowed into a Boolean variable (8 bits) is already '
             'a truth value: the decision "symbol changed since the last pass" and every other flag cannot lose a '
             'difference that is a multiple of 256', min_instances=60)
    n7 = boolean_store_rule(chk, P, 'C01-R7', lambda u: not is_generator_unit(u))
    if n7 < 60:
        raise AnalysisBroken('only %d narrowing stores into Boolean variables found' % n7)
    chk.note('Decided: repass flag discipline, placeholder => repass, single writer of carried symbol values, per-pass '
             'reset completeness of core and registered target state. Not decided: termination of the pass loop and that '
             'encoded operands equal final symbol values.')
