"""C10 — address bookkeeping (structural clauses).

R1 load counters, phase offsets, phase stacks and the active segment are
   written only by the core bookkeeping modules, never by a code generator or
   a pseudo-op library
R2 PHASE saves the offset it replaces on the stack of the same segment;
   DEPHASE restores from that stack and pops it
R3 the state SAVE stores (CPU, segment, listing, macro expansion, character
   table) is what RESTORE reads back
R4 labels are defined from the phased counter; EProgCounter/ProgCounter use
   one segment index
R5 ALIGN divisor guarded (C03-R1)
R6 counters and stacks are reset per pass (C01-R4)
R7 WriteCode checks the segment limit before it advances the counter, and
   the counter is advanced on every path that emits or reserves
"""
from core import *
from .common import *
from . import reset, prove

BOOK = {'PCs', 'Phases', 'ActPC', 'pPhaseStacks', 'PCsUsed'}
CORE_UNITS = {'as.c', 'asmallg.c', 'asmcode.c', 'asmdef.c'}


def rule_struct_segment(chk, facts):
    chk.rule('C10-R9', 'CodeSTRUCT(): opening a STRUCT/UNION initialises only the struct pseudo segment - every store to '
             'PCs[], Phases[], Grans[], ListGrans[] is indexed with StructSeg (the enumerator itself, or ActPC on paths '
             'that have already assigned ActPC = StructSeg): the counter and the PHASE offset of the segment the '
             'definition stands in are not touched', min_instances=3)
    f = facts.func('asmallg.c', 'CodeSTRUCT')
    sseg = f.unit.enums.get('StructSeg')
    if sseg is None:
        raise AnalysisBroken('enumerator StructSeg not found')

    def sets_actpc(ex):
        return any(is_assign(m) and m[1] == '=' and strip(m[2]) == ('g', 'ActPC') and const_val(m[3]) == int(sseg)
                   for m in walk_own(ex))
    n = 0
    for b, i, ln, m in f.nodes():
        if not (is_assign(m) or is_incdec(m)):
            continue
        t = strip(m[2])
        if t[0] == 'i' and strip(t[1])[0] == 'g' and strip(t[1])[1] in ('PCs', 'Phases', 'Grans', 'ListGrans'):
            n += 1
            idx = nocast(t[2])
            if const_val(idx) is not None:
                ok = const_val(idx) == int(sseg)
            elif idx == ('g', 'ActPC'):
                ok = f.guarded(b, i, lambda l: False, sets_actpc)[0]
            else:
                ok = False
            chk.ob('C10-R9', 'asmallg.c:CodeSTRUCT:%s[%s]' % (strip(t[1])[1], show(idx)), ok, f.loc(ln),
                   'indexes the struct segment' if ok else
                   '%s[%s] is written while %s does not yet denote the struct segment: the enclosing segment\'s %s is '
                   'overwritten (labels after ENDSTRUCT lose the PHASE offset / the counter)' %
                   (strip(t[1])[1], show(idx), show(idx), strip(t[1])[1]))
    if n < 3:
        raise AnalysisBroken('CodeSTRUCT: bookkeeping stores not found')


def rule_address_modulo(chk, facts, P):
    chk.rule('C10-R10', 'rounding of the program counter to a multiple (ALIGN, DS.x 0, padding) is computed in the address '
             'type: no modulo has a dividend that holds a program-counter value narrowed to a signed type (a negative '
             'dividend makes % round towards zero, i.e. past the next multiple for addresses from $80000000 on)',
             min_instances=2)

    def pc_call(e):
        return mentions(e, lambda x: isinstance(x, (list, tuple)) and len(x) > 1 and x[0] == 'call' and
                        callee_name(x) in ('EProgCounter', 'ProgCounter'))
    n = 0
    # parameters of same-unit helpers that receive a program-counter value (rounding moved into a helper)
    pcparams = {}
    for f in P.all_funcs():
        if is_generator_unit(f.unit.name) or f.entry is None:
            continue
        for b, i, ln, c in f.calls():
            g = f.unit.funcs.get(callee_name(c) or '')
            if g is None or g is f or g.entry is None:
                continue
            for ai, a in enumerate(c[2]):
                if ai < len(g.params) and pc_call(a):
                    pcparams.setdefault(g.qname, set()).add(ai)
    for f in P.all_funcs():
        if is_generator_unit(f.unit.name):
            continue
        pcvars, narrowed = set(), {}
        for ai in pcparams.get(f.qname, ()):
            pv = ('p', f.params[ai]['name'])
            pcvars.add(pv)
            bits = f.params[ai]['type'].get('bits')
            if isinstance(bits, int) and bits < 0 and abs(bits) < 64:
                narrowed[pv] = (f.line, bits, 64)
        for b, i, ln, m in f.nodes():
            if m[0] == 'decl' and m[2] is not None and pc_call(m[2]):
                m = ('b', '=', ('l', m[1]), m[2])
            if is_assign(m) and m[1] == '=' and strip(m[2])[0] == 'l' and pc_call(m[3]):
                r = m[3]
                while isinstance(r, (list, tuple)) and r and r[0] in ('ref', 'cf'):
                    r = r[1]
                pcvars.add(strip(m[2]))
                if r[0] == 'cast' and isinstance(r[2], int) and r[2] < 0 and isinstance(r[3], int) and abs(r[3]) > abs(r[2]) and \
                        not mentions(r[4], lambda x: isinstance(x, (list, tuple)) and len(x) > 2 and x[0] == 'b' and x[1] == '-' and
                                     pc_call(x[3])):
                    narrowed[strip(m[2])] = (ln, r[2], r[3])
        # a local computed from a program-counter local holds a program-counter value, too
        grew = True
        while grew:
            grew = False
            for b, i, ln, m in f.nodes():
                if is_assign(m) and m[1] == '=' and strip(m[2])[0] == 'l' and strip(m[2]) not in pcvars and \
                        mentions(m[3], lambda x: isinstance(x, (list, tuple)) and len(x) == 2 and x[0] in ('l', 'p') and tuple(x) in pcvars):
                    pcvars.add(strip(m[2]))
                    grew = True
        for b, i, ln, m in f.nodes():
            if m[0] == 'b' and m[1] in ('%', '%='):
                d = strip(m[2])
                if not (pc_call(m[2]) or d in pcvars or mentions(m[2], lambda x: isinstance(x, (list, tuple)) and len(x) == 2 and x[0] in ('l', 'p') and tuple(x) in pcvars)):
                    continue
                n += 1
                ok = d not in narrowed
                chk.ob('C10-R10', '%s:%s:%s' % (f.unit.name, f.name, show(m)[:50]), ok, f.loc(ln),
                       'dividend in the address type' if ok else
                       '%s holds the program counter narrowed from %d to signed %d bits (line %d): from $80000000 on it is '
                       'negative and the rounding overshoots by one multiple' % (show(d), narrowed[d][2], -narrowed[d][1], narrowed[d][0]))
    if n < 2:
        raise AnalysisBroken('only %d address modulo operations found' % n)


def rule_address_operands(chk, facts, P):
    chk.rule('C10-R11', 'ORG and PHASE agree on how an absolute address operand reaches the bookkeeping: a value that is '
             'assigned (=) to PCs[] or Phases[] and comes from an expression evaluation is held in an unsigned variable of '
             'the address width, not in a narrower signed one (sign extension into the 64-bit counters)', min_instances=2)
    n = 0
    for f in P.all_funcs():
        if f.unit.name not in CORE_UNITS:
            continue
        evald = {}
        for b, i, ln, m in f.nodes():
            if is_assign(m) and m[1] == '=' and strip(m[2])[0] == 'l' and (callee_name(nocast(m[3])) or '').startswith('EvalStrIntExpression'):
                evald[strip(m[2])] = ln
        if not evald:
            continue
        for b, i, ln, m in f.nodes():
            if not (is_assign(m) and m[1] == '='):
                continue
            t = strip(m[2])
            if not (t[0] == 'i' and strip(t[1])[0] == 'g' and strip(t[1])[1] in ('PCs', 'Phases')):
                continue
            for x in walk(m[3]):
                if isinstance(x, (list, tuple)) and x and x[0] == 'l' and strip(x) in evald:
                    ty = f.locals.get(x[1], {})
                    n += 1
                    ok = ty.get('bits', 0) >= 64 or (ty.get('bits', 0) > 0 and ty.get('size', 0) >= 8)
                    chk.ob('C10-R11', '%s:%s:%s<-%s' % (f.unit.name, f.name, strip(t[1])[1], x[1]), ok, f.loc(ln),
                           'operand held in %s' % ty.get('t') if ok else
                           'the address operand is held in %s (%d bits, %s) before it is stored into %s[]: an address with the '
                           'top bit of that width set is sign-extended into the 64-bit bookkeeping' %
                           (ty.get('t'), abs(ty.get('bits', 0)), 'signed' if ty.get('bits', 0) < 0 else 'unsigned', strip(t[1])[1]))
    if n < 2:
        raise AnalysisBroken('ORG/PHASE operand stores not found')


def rule_label_fixup(chk, facts, P):
    chk.rule('C10-R12', 'asmlabel.c: everything LabelHandle() derives from the label\'s value can be corrected by '
             'LabelModify() when alignment padding moves the labelled statement: each place the value goes to (structure '
             'element offset, symbol entry, LabelValue) is either a variable LabelModify() assigns from the new value or '
             'a symbol entry that is kept in pLabelEntry for ChangeSymbol()', min_instances=4)
    lh = facts.func('asmlabel.c', 'LabelHandle')
    lm = facts.func('asmlabel.c', 'LabelModify')
    newv = ('p', lm.params[1]['name'])
    mod_targets = {strip(m[2]) for b, i, ln, m in lm.nodes() if is_assign(m) and m[1] == '=' and nocast(m[3]) == newv}
    changes = {strip(nocast(c[2][0])) for b, i, ln, c in lm.calls('ChangeSymbol') if c[2]}
    count = [0]

    def sinks(fn, val, depth):
        for b, i, ln, m in fn.nodes():
            if is_assign(m) and m[1] == '=' and nocast(m[3]) == val and strip(m[2])[0] != 'l':
                count[0] += 1
                t = strip(m[2])
                ok = t in mod_targets
                chk.ob('C10-R12', 'asmlabel.c:LabelHandle:%s' % show(t), ok, fn.loc(ln), 'corrected by LabelModify()' if ok else
                       '%s receives the label value but LabelModify() does not update it' % show(t))
            if m[0] == 'call' and callee_name(m) and any(nocast(a) == val for a in m[2]):
                cn = callee_name(m)
                g = P.resolve(fn.unit, cn)
                if g is None:
                    continue
                if g.unit is not fn.unit and (cn.startswith('Enter') or 'Symbol' in cn):
                    count[0] += 1
                    kept = any(is_assign(x) and strip(x[2]) in changes and nocast(x[3])[0] == 'call' and
                               callee_name(nocast(x[3])) == cn for b2, i2, l2, x in fn.nodes())
                    chk.ob('C10-R12', 'asmlabel.c:LabelHandle:%s()' % cn, kept, fn.loc(ln),
                           'entry kept for ChangeSymbol()' if kept else
                           '%s() defines a symbol from the label value, but the entry is not kept: when padding moves the statement '
                           '(68000: "f1 ds.b 1 / f2 ds.w 1" in a STRUCT) the structure element is corrected and the symbol is not '
                           '(S_F2 = 1 while the element lies at offset 2)' % cn)
                elif g.unit is fn.unit and depth < 2:
                    j = [k for k, a in enumerate(m[2]) if nocast(a) == val][0]
                    if j < len(g.params):
                        sinks(g, ('p', g.params[j]['name']), depth + 1)
    sinks(lh, ('p', lh.params[1]['name']), 0)
    if count[0] < 4:
        raise AnalysisBroken('LabelHandle: value sinks not found')


def run(chk, facts, info):
    P = facts.program('asl')
    rule_struct_segment(chk, facts)
    rule_label_fixup(chk, facts, P)
    rule_address_operands(chk, facts, P)
    rule_address_modulo(chk, facts, P)
    from . import round8_small
    round8_small.c10_r15(chk, facts, P)
    from . import pc_snapshot
    pc_snapshot.run(chk, facts, 'C10-R13', min_instances=100)
    carry_pair_rule(chk, facts, 'C10-R14')
    chk.rule('C10-R8', 'logical (PHASE-adjusted, EProgCounter()) and physical (ProgCounter()) addresses are never compared, '
             'subtracted or assigned across: a global assigned only from one kind is compared only with that kind',
             min_instances=2)
    logical_physical_rule(chk, P, 'C10-R8')
    chk.rule('C10-R1', 'PCs[], Phases[], pPhaseStacks[], PCsUsed[] and ActPC are written only in as.c, asmallg.c, '
             'asmcode.c (and zeroed in asmdef.c at start-up): no code generator and no pseudo-instruction library '
             'moves a counter behind the bookkeeping\'s back', min_instances=20)
    W = P.write_index()
    n = 0
    for v in sorted(BOOK):
        for (f, how, ln, node, b, i) in W.get(v, []):
            n += 1
            ok = f.unit.name in CORE_UNITS
            chk.ob('C10-R1', '%s:%s:%s' % (f.unit.name, f.name, v), ok, f.loc(ln),
                   'core bookkeeping' if ok else
                   '%s is written in %s (%s): the load address no longer follows from ORG/ALIGN/reservations and the '
                   'emitted code alone' % (v, f.qname, show(node)[:80]))
    if n < 20:
        raise AnalysisBroken('only %d writers of the address bookkeeping found' % n)

    # R2 PHASE / DEPHASE
    chk.rule('C10-R2', 'CodePHASE stores the current Phases[ActPC] in a new stack element, links it onto '
             'pPhaseStacks[ActPC] and only then assigns the new offset; CodeDEPHASE takes the element from '
             'pPhaseStacks[ActPC], assigns its saved value to Phases[ActPC] and unlinks it; all four accesses use the '
             'index ActPC', min_instances=6)
    ph = facts.func('asmallg.c', 'CodePHASE')
    de = facts.func('asmallg.c', 'CodeDEPHASE')
    IDX = ('g', 'ActPC')

    def arr(name):
        return ('i', ('g', name), IDX)
    save = link = assign = None
    for b, i, ln, n_ in ph.nodes():
        if is_assign(n_) and n_[1] == '=':
            t, r = strip(n_[2]), nocast(n_[3])
            if t[0] == 'm' and t[2].endswith('.SaveValue') and r == arr('Phases'):
                save = (b, i, ln, nocast(t[1]))
            if t == arr('pPhaseStacks'):
                link = (b, i, ln, r)
            if t == arr('Phases'):
                assign = (b, i, ln)
    chk.ob('C10-R2', 'asmallg.c:CodePHASE:saves-current-offset', save is not None, ph.loc(save[2] if save else None),
           'element.SaveValue = Phases[ActPC]' if save else 'PHASE does not save Phases[ActPC] of the active segment')
    chk.ob('C10-R2', 'asmallg.c:CodePHASE:pushes-on-same-segment', bool(link and save and link[3] == save[3]),
           ph.loc(link[2] if link else None), 'pPhaseStacks[ActPC] = element' if link else
           'the saved element is not linked onto pPhaseStacks[ActPC]')
    if assign and save and link:
        def is_elem(t):
            return lambda ex: any(m is t for m in walk_own(ex))
        ok1, _ = ph.guarded(assign[0], assign[1], lambda l: False,
                            lambda ex: any(is_assign(m) and strip(m[2])[0] == 'm' and strip(m[2])[2].endswith('.SaveValue') for m in walk_own(ex)))
        ok2, _ = ph.guarded(assign[0], assign[1], lambda l: False,
                            lambda ex: any(is_assign(m) and strip(m[2]) == arr('pPhaseStacks') for m in walk_own(ex)))
        chk.ob('C10-R2', 'asmallg.c:CodePHASE:save-before-assign', ok1 and ok2, ph.loc(assign[2]),
               'offset replaced only after it was saved and pushed' if ok1 and ok2 else
               'Phases[ActPC] is overwritten on a path on which the old offset was not saved')
    else:
        chk.ob('C10-R2', 'asmallg.c:CodePHASE:save-before-assign', False, ph.loc(), 'Phases[ActPC] is not assigned in PHASE')
    take = restore = pop = None
    for b, i, ln, n_ in de.nodes():
        if is_assign(n_) and n_[1] == '=':
            t, r = strip(n_[2]), nocast(n_[3])
            if t[0] == 'l' and r == arr('pPhaseStacks'):
                take = (b, i, ln, t)
            if t == arr('Phases') and r[0] == 'm' and r[2].endswith('.SaveValue'):
                restore = (b, i, ln, nocast(r[1]))
            if t == arr('pPhaseStacks') and r[0] == 'm' and r[2].endswith('.pNext'):
                pop = (b, i, ln, nocast(r[1]))
    ok = bool(take and restore and restore[3] == take[3])
    chk.ob('C10-R2', 'asmallg.c:CodeDEPHASE:restores-saved-offset', ok, de.loc(restore[2] if restore else None),
           'Phases[ActPC] = top->SaveValue' if ok else
           'DEPHASE does not restore the offset saved on pPhaseStacks[ActPC]')
    ok = bool(take and pop and pop[3] == take[3])
    chk.ob('C10-R2', 'asmallg.c:CodeDEPHASE:pops-same-segment', ok, de.loc(pop[2] if pop else None),
           'pPhaseStacks[ActPC] = top->pNext' if ok else 'DEPHASE does not unlink the element it restored from')
    # every Phases[...] / pPhaseStacks[...] subscript in both functions is ActPC
    for f in (ph, de):
        bad = []
        for b, i, ln, n_ in f.nodes():
            if n_[0] == 'i' and nocast(n_[1]) in (('g', 'Phases'), ('g', 'pPhaseStacks')) and nocast(n_[2]) != IDX:
                bad.append('%s at line %d' % (show(n_), ln))
        chk.ob('C10-R2', 'asmallg.c:%s:segment-index' % f.name, not bad, f.loc(),
               'all accesses indexed by ActPC' if not bad else 'phase state of another segment is used: ' + ', '.join(bad))

    # R3 SAVE / RESTORE
    chk.rule('C10-R3', 'every TSaveState field that SAVE fills for CPU, segment, listing state, macro-expansion state '
             'and character table is read back by RESTORE, and RESTORE pops the frame it read', min_instances=6)
    sv = facts.func('asmallg.c', 'CodeSAVE')
    rs = facts.func('asmallg.c', 'CodeRESTORE')
    saved = {}
    for b, i, ln, n_ in sv.nodes():
        if is_assign(n_) and n_[1] == '=':
            t = strip(n_[2])
            if t[0] == 'm' and t[2].startswith(('TSaveState.', 'tag_TSaveState.', 'sSaveState.')):
                saved[t[2].split('.')[-1]] = (ln, nocast(n_[3]))
    if not saved:
        # record name differs: take any field store through the new element
        for b, i, ln, n_ in sv.nodes():
            if is_assign(n_) and n_[1] == '=' and strip(n_[2])[0] == 'm' and strip(n_[2])[3] == 1:
                saved[strip(n_[2])[2].split('.')[-1]] = (ln, nocast(n_[3]))
    read = set()
    for b, i, ln, n_ in rs.nodes():
        if n_[0] == 'm' and n_[3] == 1:
            read.add(n_[2].split('.')[-1])
    NEED = ['SaveCPU', 'SavePC', 'SaveListOn', 'SaveLstMacroExp', 'SaveLstMacroExpModDefault',
            'SaveLstMacroExpModOverride', 'SaveTransTable', 'pSaveCPUArgs']
    for fld in NEED:
        ok = fld in saved and fld in read
        chk.ob('C10-R3', 'asmallg.c:SAVE/RESTORE:%s' % fld, ok, sv.loc(saved[fld][0]) if fld in saved else sv.loc(),
               'saved and restored' if ok else
               ('%s is saved but never read back by RESTORE' % fld if fld in saved else '%s is not saved by SAVE' % fld))
    srcs = {'SaveCPU': ('g', 'MomCPU'), 'SavePC': ('g', 'ActPC'), 'SaveListOn': ('g', 'ListOn')}
    for fld, src in srcs.items():
        if fld in saved:
            ok = saved[fld][1] == src
            chk.ob('C10-R3', 'asmallg.c:SAVE:%s-source' % fld, ok, sv.loc(saved[fld][0]),
                   'saves %s' % src[1] if ok else '%s is filled from %s instead of %s' % (fld, show(saved[fld][1]), src[1]))
    # each restore action depends only on the frame test and on its own field
    for b, i, ln, n_ in rs.nodes():
        is_action = (is_assign(n_) and strip(n_[2])[0] in ('g', 'gs')) or (n_[0] == 'call' and callee_name(n_) in (
            'SetCPUByType', 'SetLstMacroExp', 'EnterIntSymbol'))
        if not is_action:
            continue
        own = {m[2].split('.')[-1] for m in walk(n_) if m[0] == 'm' and m[3] == 1 and m[2].split('.')[-1].startswith(('Save', 'pSave'))}
        if not own:
            continue
        foreign = set()
        fblocks = {}
        for cb in rs.blocks.values():
            if 'cond' not in cb or len(cb['succ']) != 2:
                continue
            flds = {m[2].split('.')[-1] for m in walk(cb['cond']) if m[0] == 'm' and m[2].split('.')[-1].startswith(('Save', 'pSave'))}
            if flds and not (flds & own):
                fblocks[cb['id']] = flds
        for pol in (0, 1):
            # all comparisons of foreign saved fields come out the same way
            def eok(s_, d_, l, pol=pol):
                if s_ in fblocks and l is not None and l[0] in ('T', 'F'):
                    return (l[0] == 'T') == (pol == 0)
                return True
            seen = rs.reach_forward([rs.entry], eok)
            if b not in seen:
                for v in fblocks.values():
                    foreign |= v
        key = 'asmallg.c:CodeRESTORE:independent:%s' % '+'.join(sorted(own))
        chk.ob('C10-R3', key, not foreign, rs.loc(ln),
               'restored whenever a frame exists (and its own value differs)' if not foreign else
               'restoring %s is skipped or forced depending on a comparison of %s: when both differ from the saved frame '
               'only one of them is reinstated' % ('/'.join(sorted(own)), '/'.join(sorted(foreign))))
    extra = sorted(k for k in saved if k not in read and k != 'Next')
    chk.extra['save_fields_not_restored'] = extra

    # R4 labels and counters
    chk.rule('C10-R4', 'labels are defined from EProgCounter() (load counter plus phase offset) or from a structure '
             'offset; EProgCounter() returns PCs[ActPC] + Phases[ActPC] and ProgCounter() returns PCs[ActPC]',
             min_instances=4)
    for f in P.all_funcs():
        for b, i, ln, n_ in f.calls('LabelHandle'):
            v = nocast(n_[2][1])
            ok = mentions(v, lambda m: m[0] == 'call' and callee_name(m) == 'EProgCounter') or \
                mentions(v, lambda m: m[0] == 'm' and m[2].endswith('.Offset'))
            chk.ob('C10-R4', '%s:%s:LabelHandle' % (f.unit.name, f.name), ok, f.loc(ln),
                   'value %s' % show(v) if ok else
                   'a label is defined as %s, not from the phased program counter: labels ignore PHASE' % show(v))
    ep = facts.func('asmsub.c', 'EProgCounter')
    rets = [nocast(n_[1]) for b, i, ln, n_ in ep.nodes() if n_[0] == 'ret']
    want = ('b', '+', ('i', ('g', 'PCs'), ('g', 'ActPC')), ('i', ('g', 'Phases'), ('g', 'ActPC')))
    ok = len(rets) == 1 and (rets[0] == want or rets[0] == ('b', '+', want[3], want[2]))
    chk.ob('C10-R4', 'asmsub.c:EProgCounter', ok, ep.loc(), 'PCs[ActPC] + Phases[ActPC]' if ok else
           'EProgCounter() returns %s' % (show(rets[0]) if rets else '?'))
    pc = facts.func('asmsub.c', 'ProgCounter')
    rets = [nocast(n_[1]) for b, i, ln, n_ in pc.nodes() if n_[0] == 'ret']
    ok = len(rets) == 1 and rets[0] == want[2]
    chk.ob('C10-R4', 'asmsub.c:ProgCounter', ok, pc.loc(), 'PCs[ActPC]' if ok else 'ProgCounter() returns %s' % (show(rets[0]) if rets else '?'))

    # R5
    chk.rule('C10-R5', 'the divisor of ALIGN is provably non-zero', min_instances=1)
    al = facts.func('asmallg.c', 'CodeALIGN')
    k = 0
    # the rounding may live in a helper of the unit that CodeALIGN() calls
    cands = [al] + [g for g in {al.unit.funcs.get(callee_name(c) or '') for b, i, ln, c in al.calls()} if g is not None and g is not al and g.entry is not None and g.static]
    for fn in cands:
        for b, i, ln, n_ in fn.nodes():
            if n_[0] == 'b' and n_[1] in ('%', '/', '%=', '/=') and const_val(n_[3]) is None:
                k += 1
                ok, why = prove.nonzero(P, fn, b, i, n_[3])
                chk.ob('C10-R5', 'asmallg.c:%s:%s' % (fn.name, show(n_[3])), ok, fn.loc(ln), why[:300])
    if not k:
        raise AnalysisBroken('CodeALIGN: no division found')

    # R6 reset of bookkeeping state
    chk.rule('C10-R6', 'the address bookkeeping state (counters, used flags, phase offsets and stacks, SAVE stack, '
             'structure stack, active segment) is re-initialised at the start of every pass', min_instances=8)
    ph_, KP, KF, KX = reset.phase_kills(facts, P)
    for v in ['PCs', 'Phases', 'ActPC', 'PCsUsed', 'pPhaseStacks', 'FirstSaveState', 'StructStack',
              'pInnermostNamedStruct', 'SectionStack']:
        ok = v in KP or v in reset.CLASS
        chk.ob('C10-R6', 'reset:%s' % v, ok, 'as.c', 'assigned by the pass initialisation' if v in KP else
               ('listed: %s' % reset.CLASS[v][1] if v in reset.CLASS else
                '%s keeps the value of the previous pass' % v))

    # R7 WriteCode
    chk.rule('C10-R7', 'WriteCode(): the segment-limit check precedes the counter advance on all paths outside '
             'structure definitions, a failed check raises an error and does not advance, and every path that emits '
             'or reserves advances PCs[ActPC]', min_instances=3)
    wc = facts.func('as.c', 'WriteCode')
    adv = [(b, i, ln) for b, i, ln, n_ in wc.nodes() if is_assign(n_) and strip(n_[2]) == ('i', ('g', 'PCs'), IDX)]
    if not adv:
        chk.ob('C10-R7', 'as.c:WriteCode:advance', False, wc.loc(), 'PCs[ActPC] is never advanced')
    for (b, i, ln) in adv:
        def chk_atom(a):
            if a[0] == 'nz' and isinstance(a[1], tuple) and a[1][0] == 'call' and nocast(a[1][1]) == ('g', 'ChkPC'):
                return True
            if a[0] == 'cmp' and a[1] == '==' and a[2] == IDX and a[3][:2] == ('e', 'StructSeg'):
                return True
            if a[0] == 'cmp' and a[1] == '==' and a[2] == ('g', 'CodeLen') and const_val(a[3]) == 0:
                return True
            return False
        ok, w = wc.guarded(b, i, lambda l: edge_has_atom(l, chk_atom))
        chk.ob('C10-R7', 'as.c:WriteCode:limit-check-before-advance', ok, wc.loc(ln),
               'ChkPC() passed (or structure segment / empty line)' if ok else
               'the counter is advanced on a path that skipped the segment-limit check: ' + ' '.join(w[-5:]))
    for b, i, ln, n_ in wc.calls({'WriteBytes', 'NewRecord'}):
        ok, w = wc.must_pass(b, i, lambda ex: any(is_assign(m) and strip(m[2]) == ('i', ('g', 'PCs'), IDX) for m in walk_own(ex)))
        chk.ob('C10-R7', 'as.c:WriteCode:%s=>advance' % callee_name(n_), ok, wc.loc(ln),
               'counter advanced after emitting/reserving' if ok else
               'a path emits or reserves without advancing the counter: the next line overwrites the same address')
    chk.note('Decided: writers of the bookkeeping state, PHASE/DEPHASE stack discipline, SAVE/RESTORE field pairing, '
             'label value source, ALIGN divisor, per-pass reset, limit check and advance in WriteCode. Not decided: '
             'counter arithmetic for every statement sequence.')
