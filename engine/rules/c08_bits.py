"""C08-R13: flag bits that are produced together are consumed independently.

TryConvert() encodes the conversions an operand needs as a small bit set
(2 = string to integer, 1 = integer to float, 3 = both, in that order).
Where a function tests single bits of one variable, the test of each bit must
be reachable after the action of a bit tested earlier was carried out - an
"else if" between them makes the combined code behave like the first bit
alone."""
from core import *
from .common import *


def _bit_test(c):
    """(var, bit) if cond is (var & 2^k) [!= 0]"""
    c = nocast(c)
    if c[0] == 'b' and c[1] == '!=' and const_val(c[3]) == 0:
        c = nocast(c[2])
    if c[0] == 'b' and c[1] == '&':
        for x, y in ((c[2], c[3]), (c[3], c[2])):
            k = const_val(y)
            if k is not None and k > 0 and (k & (k - 1)) == 0 and nocast(x)[0] in ('l', 'p'):
                return nocast(x), k
    return None


def run(chk, facts, rule='C08-R13'):
    chk.rule(rule, 'asmpars.c: where single bits of one conversion code are tested one after the other (string to integer, '
             'integer to float), the later test is reachable after the earlier bit\'s action was carried out; the codes '
             'are produced combined (1 | 2) by TryConvert()', min_instances=1)
    u = facts.unit('asmpars.c')
    # the producer really combines bits
    prod = facts.func('asmpars.c', 'TryConvert')
    combined = any(m[0] == 'b' and m[1] == '<<' and const_val(m[2]) is not None and 0 < const_val(m[2]) < 16 and
                   bin(const_val(m[2])).count('1') >= 2 for b, i, ln, m in prod.nodes())
    if not combined:
        raise AnalysisBroken('TryConvert() no longer produces combined conversion codes')
    n = 0
    for f in u.funcs.values():
        if f.file != 'asmpars.c' or f.entry is None:
            continue
        tests = {}
        for b, blk in f.blocks.items():
            c = blk.get('cond')
            if c is None or len(blk['succ']) != 2:
                continue
            bt = _bit_test(c)
            if bt:
                tests.setdefault(bt[0], []).append((b, bt[1]))
        loops = [(h, f.loop_body(h, s0)) for h, s0 in f.loops()]
        for v, ts in tests.items():
            if len({k for b, k in ts}) < 2:
                continue
            for (ba, ka) in ts:
                for (bb, kb) in ts:
                    if ba == bb or ka == kb:
                        continue
                    # stay inside one iteration of the innermost loop around both tests
                    inner = [body for h, body in loops if ba in body and bb in body]
                    heads = {h for h, body in loops if ba in body and bb in body}
                    stop = (lambda x, heads=heads: x in heads)
                    ta, fa = f.blocks[ba]['succ']
                    after_true = f.reach_forward([ta], block_stop=stop) if ta is not None and ta >= 0 else set()
                    after_any = f.reach_forward([ba], block_stop=stop)
                    if bb not in after_any:
                        continue              # bb does not follow ba
                    n += 1
                    ok = bb in after_true
                    chk.ob(rule, 'asmpars.c:%s:%s&%d-then-&%d' % (f.name, show(v), ka, kb), ok, f.loc(f.blocks[bb]['term'][1] if f.blocks[bb].get('term') else None),
                           'independent' if ok else
                           'the test of bit %d of %s is only reached when bit %d was clear: the combined code %d (string to '
                           'integer, then integer to float) loses its second step and the operator reads the wrong member of '
                           'the value' % (kb, show(v), ka, ka | kb))
    if not n:
        raise AnalysisBroken('no consumer of the conversion code bits found')
    return n
