"""C15 — disassembling and re-assembling reproduces the original bytes
(structural clauses for 6800/6802 and 4004/4040; the 87C800 disassembler is
code-driven and not decided).

R1 6800: the disassembler's 256-entry table and the assembler's registration
   tables agree opcode by opcode (mnemonic, addressing class), using the
   regular 6800 encoding of the operand modes
R2 4004/4040: same for the fixed, register, register-pair and immediate classes
R3 every sign-extension / modular fold (x -= 2^n under a test on x) uses the
   matching threshold 2^(n-1) (sign) or 2^n (wrap)
R4 relative branch targets are computed from the address after the
   instruction
"""
from core import *
from .common import *


def reg_calls(f, name):
    """constant-argument registration calls inside a function"""
    for b, i, ln, n in f.calls(name):
        yield ln, [nocast(a) for a in n[2]]


def sv(a):
    return a[1] if isinstance(a, tuple) and a and a[0] == 's' else None


def deco_table(u, name='OpcodeList'):
    g = u.globals.get(name)
    if not g or g.get('init') is None:
        raise AnalysisBroken('%s: %s not found' % (u.name, name))
    rows = []
    for r in strip(g['init'])[1]:
        if r[0] != 'il':
            rows.append(None)
            continue
        c = r[1]
        typ = c[0][1] if c[0][0] == 'e' else None
        memo = sv(c[3])
        rows.append((typ, const_val(c[1]), const_val(c[2]), memo))
    if len(rows) != 256:
        raise AnalysisBroken('%s: %s has %d rows' % (u.name, name, len(rows)))
    return rows


def rule_6800(chk, facts):
    chk.rule('C15-R1', '6800/6802: for every opcode the assembler can emit for the base CPU, deco68.c OpcodeList[] '
             'names one of the assembler\'s mnemonics for that opcode with the matching operand class, and every '
             'decodable opcode is one the assembler can emit (mode offsets of the regular 6800 encoding: +$10 direct, '
             '+$20 indexed, +$30 extended, +$40 accumulator B)', min_instances=150)
    ua, ud = facts.unit('code68.c'), facts.unit('deco68.c')
    tab = deco_table(ud)
    init = ua.funcs.get('InitFields')
    if init is None:
        raise AnalysisBroken('code68.c InitFields not found')
    asm = {}     # opcode -> set((class, NAME))

    def add(op, cls, name):
        asm.setdefault(op, set()).add((cls, name))

    def base_cpu(a):
        return a[0] in ('g', 'gs') and a[1] in ('CPU6800',)
    for ln, a in reg_calls(init, 'AddFixed'):
        if base_cpu(a[1]) and const_val(a[3]) is not None and const_val(a[3]) <= 0xff:
            add(const_val(a[3]), 'eImplicit', sv(a[0]))
    for ln, a in reg_calls(init, 'AddRel'):
        if base_cpu(a[1]):
            add(const_val(a[2]), 'eRelative', sv(a[0]))
    for ln, a in reg_calls(init, 'AddALU8'):
        base = const_val(a[5])
        may_imm = const_val(a[4])
        names_a = [sv(a[1])]
        names_b = [sv(a[2])] + ([sv(a[3])] if sv(a[3]) else [])
        for accofs, names in ((0, names_a), (0x40, names_b)):
            for nm in names:
                if may_imm:
                    add(base + accofs, 'eImmediate', nm)
                add(base + accofs + 0x10, 'eDirect', nm)
                add(base + accofs + 0x20, 'eIndexed', nm)
                add(base + accofs + 0x30, 'eExtended', nm)
    for ln, a in reg_calls(init, 'AddALU16'):
        if not base_cpu(a[2]):
            continue
        base = const_val(a[4])
        if const_val(a[1]):
            add(base, 'eImmediate', sv(a[0]))
        add(base + 0x10, 'eDirect', sv(a[0]))
        add(base + 0x20, 'eIndexed', sv(a[0]))
        add(base + 0x30, 'eExtended', sv(a[0]))
    for ln, a in reg_calls(init, 'AddSing8'):
        base = const_val(a[3])
        add(base, 'eImplicit', sv(a[1]))
        add(base + 0x10, 'eImplicit', sv(a[2]))
        add(base + 0x20, 'eIndexed', sv(a[0]))
        add(base + 0x30, 'eExtended', sv(a[0]))
    # JMP/JSR are decoded by hand in the assembler: the regular encoding
    add(0x6e, 'eIndexed', 'JMP'); add(0x7e, 'eExtended', 'JMP')
    add(0xad, 'eIndexed', 'JSR'); add(0xbd, 'eExtended', 'JSR')
    if len(asm) < 150:
        raise AnalysisBroken('only %d 6800 opcodes reconstructed from code68.c' % len(asm))
    extra = []
    chk.extra['deco68_only'] = extra
    for op in range(256):
        row = tab[op]
        a = asm.get(op)
        key = '6800:$%02x' % op
        if row is None or row[0] in (None, 'eUnknown'):
            if a:
                chk.ob('C15-R1', key, False, 'deco68.c', 'the assembler emits $%02x for %s but the disassembler does not '
                       'decode it' % (op, sorted(x[1] for x in a)))
            continue
        typ, opsize, nxt, memo = row
        if not a:
            # decodable but never emitted by the reconstructed assembler tables (PSH/PUL are decoded by
            # hand in the assembler; undocumented opcodes): outside the round-trip property, evidence only
            extra.append('$%02x %s' % (op, memo))
            continue
        ok = (typ, (memo or '').upper()) in a
        chk.ob('C15-R1', key, ok, 'deco68.c', '%s %s' % (memo, typ) if ok else
               'opcode $%02x: disassembler says %s/%s, assembler emits it for %s: the disassembled line does not '
               'assemble back to this byte' % (op, memo, typ, sorted(a)))


def rule_4004(chk, facts):
    chk.rule('C15-R2', '4004/4040: deco4004.c OpcodeList[] agrees with code4004.c for the fixed instructions, the '
             'register (x0..xF), register-pair and 4-bit immediate classes', min_instances=100)
    ua, ud = facts.unit('code4004.c'), facts.unit('deco4004.c')
    tab = deco_table(ud)
    init = ua.funcs.get('InitFields')
    asm = {}

    def add(op, cls, name):
        asm.setdefault(op, set()).add((cls, name))
    for ln, a in reg_calls(init, 'AddFixed'):
        add(const_val(a[1]), 'eImplicit', sv(a[0]))
    for fn, cls in (('AddOneReg', 'eOneReg'), ('AddAccReg', 'eOneReg'), ('AddImm4', 'eImm4')):
        for ln, a in reg_calls(init, fn):
            for r in range(16):
                add(const_val(a[1]) + r, cls, sv(a[0]))
    for ln, a in reg_calls(init, 'AddOneRReg'):
        for r in range(8):
            add(const_val(a[1]) + (r << 1), 'eOneRReg', sv(a[0]))
    n = 0
    for op, names in sorted(asm.items()):
        row = tab[op]
        n += 1
        key = '4004:$%02x' % op
        if row is None or row[0] in (None, 'eUnknown'):
            chk.ob('C15-R2', key, False, 'deco4004.c', 'assembler emits $%02x for %s, disassembler does not decode it' % (op, sorted(x[1] for x in names)))
            continue
        typ, opsize, nxt, memo = row
        ok = (typ, (memo or '').upper()) in names
        chk.ob('C15-R2', key, ok, 'deco4004.c', '%s %s' % (memo, typ) if ok else
               'opcode $%02x: disassembler says %s/%s, assembler emits it for %s' % (op, memo, typ, sorted(names)))
    if n < 100:
        raise AnalysisBroken('only %d 4004 opcodes reconstructed' % n)


def pow2(k):
    return isinstance(k, int) and k > 0 and (k & (k - 1)) == 0


def fold_sites(f):
    """(line, x, K, threshold form) for x -= K / x - K under a test on x"""
    out = []

    def thr_of(cond, x):
        res = []
        for a in atoms(cond, True):
            if a[0] == 'nz' and a[1][0] == 'b' and a[1][1] == '&' and a[1][2] == x and const_val(a[1][3]) is not None:
                res.append(('&', const_val(a[1][3])))
            if a[0] == 'cmp' and a[2] == x and a[1] in ('>', '>=') and const_val(a[3]) is not None:
                res.append((a[1], const_val(a[3])))
        return res
    for s_, d_, l in f.edges():
        if l is None or l[0] != 'T':
            continue
        for ln, ex in f.blocks[d_]['elems'][:2]:
            for m in walk_own(ex):
                K = x = None
                if is_assign(m) and m[1] == '-=' and pow2(const_val(m[3])):
                    K, x = const_val(m[3]), strip(m[2])
                elif is_assign(m) and m[1] == '=':
                    r = nocast(m[3])
                    if r[0] == 'b' and r[1] == '-' and r[2] == strip(m[2]) and pow2(const_val(r[3])):
                        K, x = const_val(r[3]), strip(m[2])
                if K and K >= 16:
                    for t in thr_of(l[1], x):
                        out.append((ln, x, K, t))
    seen_q = set()
    for b, i, ln, ex in f.elems():
      for m in walk(ex):
        if m[0] == '?' and id(m) not in seen_q:
            seen_q.add(id(m))
            c, t, e = nocast(m[1]), nocast(m[2]), nocast(m[3])
            if t[0] == 'b' and t[1] == '-' and t[2] == e and pow2(const_val(t[3])) and const_val(t[3]) >= 16:
                for th in thr_of(c, e):
                    out.append((ln, e, const_val(t[3]), th))
    return out


def rule_fold(chk, facts, rule='C15-R3', units=None):
    chk.rule(rule, 'wherever a value is reduced by 2^n under a test on the same value (sign extension of an n-bit '
             'field, modular wrap), the test is x & 2^(n-1), x >= 2^(n-1), x > 2^(n-1)-1 (sign) or x >= 2^n, x > 2^n-1 '
             '(wrap); any other threshold mis-handles the boundary value', min_instances=8)
    n = 0
    for un in (units or facts.all_unit_names()):
        u = facts.unit(un)
        for f in u.funcs.values():
            if f.file != un:
                continue
            for (ln, x, K, th) in fold_sites(f):
                n += 1
                op, c = th
                ok = (op == '&' and c == K // 2) or (op == '>=' and c in (K // 2, K)) or (op == '>' and c in (K // 2 - 1, K - 1))
                chk.ob(rule, '%s:%s:fold(%s,%d)' % (un, f.name, show(x), K), ok, f.loc(ln),
                       'threshold matches' if ok else
                       '%s is reduced by %d when "%s %s %d" holds: the boundary value %d is treated wrongly (a '
                       'displacement byte of exactly $%x is taken as positive)' % (show(x), K, show(x), op, c, K // 2, K // 2))
    if n < 8:
        raise AnalysisBroken('only %d fold idioms found' % n)


def rule_r4(chk, facts):
    chk.rule('C15-R4', 'deco68.c: the target of a relative branch is the address of the instruction plus its length '
             '(2) plus the sign-extended displacement, masked to 16 bits', min_instances=1)
    f = facts.func('deco68.c', 'Disassemble_68') if 'Disassemble_68' in facts.unit('deco68.c').funcs else None
    if f is None:
        cands = [g for g in facts.unit('deco68.c').funcs.values() if g.name.startswith('Disassemble')]
        if not cands:
            raise AnalysisBroken('deco68.c: Disassemble function not found')
        f = cands[0]
    ok = False
    for b, i, ln, n in f.nodes():
        if is_assign(n) and n[1] == '=':
            r = nocast(n[3])
            if r[0] == 'b' and r[1] == '&' and const_val(r[3]) == 0xffff:
                s = nocast(r[2])
                terms = []

                def flat(e):
                    if e[0] == 'b' and e[1] == '+':
                        flat(e[2]); flat(e[3])
                    else:
                        terms.append(e)
                flat(s)
                has_addr = any(t[0] == 'p' and t[1] == 'Address' for t in terms)
                has_two = any(const_val(t) == 2 for t in terms) or any(t[0] == 'm' and t[2].endswith('.CodeLen') for t in terms)
                has_dist = any(t[0] == 'l' for t in terms)
                if has_addr and has_dist:
                    ok = has_two
    chk.ob('C15-R4', 'deco68.c:%s:branch-target' % f.name, ok, f.loc(), 'Address + 2 + displacement' if ok else
           'relative branch targets are not computed as address + 2 + displacement')


def rule_r6(chk, facts):
    chk.rule('C15-R6', 'DASL output is written in the syntax the target\'s assembler reads: (a) a %s conversion that receives a '
             'label from MakeSymbolic(.., "prefix", ..) carries no hexadecimal decoration ("$%s", "%sh"); (b) a '
             'disassembler module whose own operand formats use Intel hexadecimal ("%sh") sets IntelHexSyntax in its '
             'switch function, one that uses "$%s" clears it, and das.c prints the ORG address with "$" only under '
             '!IntelHexSyntax and with a trailing "h" only under IntelHexSyntax', min_instances=8)
    import re
    P = facts.program('dasl')
    n = 0
    style = {}
    for un in ('deco68.c', 'deco4004.c', 'deco87c800.c'):
        u = facts.unit(un)
        for f in u.funcs.values():
            if f.file != un:
                continue
            for b, i, ln, c in f.calls({'as_snprintf', 'as_snprcatf'}):
                fmts = [(k, nocast(a)) for k, a in enumerate(c[2]) if nocast(a)[0] == 's']
                if not fmts:
                    continue
                k0, fm = fmts[0]
                convs = [(m_.start(), m_.end(), m_.group(1)) for m_ in re.finditer(r'%[-+0-9.*l]*([a-zA-Z])', fm[1])]
                if re.search(r'%sh\b', fm[1]):
                    style.setdefault(un, set()).add('intel')
                if '$%s' in fm[1]:
                    style.setdefault(un, set()).add('motorola')
                args = c[2][k0 + 1:]
                for j, a in enumerate(args):
                    x = nocast(a)
                    if x[0] == 'call' and callee_name(x) == 'MakeSymbolic' and len(x[2]) > 2 and nocast(x[2][2])[0] == 's' and j < len(convs):
                        st, en, kind = convs[j]
                        if ';' in fm[1][:st]:
                            continue        # inside the comment part of the line
                        n += 1
                        before, after = fm[1][st - 1:st] if st else '', fm[1][en:en + 1]
                        ok = before != '$' and not (after == 'h' and not fm[1][en + 1:en + 2].isalnum())
                        chk.ob('C15-R6', '%s:%s:label-format@%d' % (un, f.name, ln), ok, f.loc(ln),
                               'label printed as a name' if ok else
                               'the label returned by MakeSymbolic() is printed as "%s": the assembler looks for a symbol of '
                               'that decorated name (or takes it for a malformed number)' % fm[1][max(0, st - 1):en + 1])
    das = facts.unit('das.c')
    orgs = []
    for f in das.funcs.values():
        if f.file != 'das.c':
            continue
        for b, i, ln, c in f.calls('fprintf'):
            fm = [nocast(a) for a in c[2] if nocast(a)[0] == 's']
            if fm and fm[0][1].startswith('org'):
                orgs.append((f, b, i, ln, fm[0][1]))
    if not orgs:
        raise AnalysisBroken('das.c: ORG output not found')

    def flag(a, pol):
        return a[0] == pol and a[1] == ('g', 'IntelHexSyntax')
    for (f, b, i, ln, fm) in orgs:
        n += 1
        if '$' in fm:
            ok = f.guarded(b, i, lambda l: edge_has_atom(l, lambda a: flag(a, 'z')))[0]
            why = 'Motorola form only without IntelHexSyntax'
        elif re.search(r'%sh', fm):
            ok = f.guarded(b, i, lambda l: edge_has_atom(l, lambda a: flag(a, 'nz')))[0]
            why = 'Intel form only with IntelHexSyntax'
        else:
            ok, why = True, 'neutral form'
        chk.ob('C15-R6', 'das.c:%s:org-format:%s' % (f.name, fm.strip()), ok, f.loc(ln), why if ok else
               'the ORG line "%s" is printed regardless of the target\'s hexadecimal syntax: the 4004 and 87C00 assemblers '
               'reject "$nnnn" (and the 6800 assembler "nnnnh")' % fm.strip())
    for un, sw in (('deco68.c', 'SwitchTo_68'), ('deco4004.c', 'SwitchTo_4004'), ('deco87c800.c', 'SwitchTo_87C800')):
        f = facts.func(un, sw)
        vals = {const_val(m[3]) for b, i, ln, m in f.nodes() if is_assign(m) and strip(m[2]) == ('g', 'IntelHexSyntax')}
        want = 1 if 'intel' in style.get(un, set()) or un != 'deco68.c' else 0
        if un == 'deco68.c':
            want = 0
        n += 1
        ok = vals == {want}
        chk.ob('C15-R6', '%s:%s:IntelHexSyntax' % (un, sw), ok, f.loc(),
               'sets IntelHexSyntax = %d' % want if ok else
               '%s() does not set IntelHexSyntax to %d although the module prints %s hexadecimal operands: ORG lines come out in '
               'the other syntax' % (sw, want, 'Intel' if want else 'Motorola'))
    if n < 8:
        raise AnalysisBroken('only %d syntax obligations found for DASL' % n)


def rule_r7(chk, facts):
    chk.rule('C15-R7', 'DASL: (a) an address is wrapped into the address space with a mask or a modulus that is a power of two '
             '- never "% (2^n - 1)", which sends the top address to 0; (b) a slot of NextAddresses[] is read only on paths that '
             'have filled it (SimpleNextAddress() fills slot 0, "NextAddresses[NextAddressCount++] = x" the next one)',
             min_instances=10)
    n = 0
    for un in ('deco68.c', 'deco4004.c', 'deco87c800.c', 'das.c'):
        u = facts.unit(un)
        for f in u.funcs.values():
            if f.file != un:
                continue
            for b, i, ln, m in f.nodes():
                if m[0] == 'b' and m[1] in ('%', '%=') and const_val(m[3]) is not None and const_val(m[3]) > 2:
                    c = const_val(m[3])
                    n += 1
                    ok = (c & (c - 1)) == 0 or ((c + 1) & c) != 0
                    chk.ob('C15-R7', '%s:%s:modulus-%#x@%d' % (un, f.name, c, ln), ok, f.loc(ln),
                           'modulus %#x' % c if ok else
                           'the address is reduced modulo %#x (= 2^n - 1): %#x becomes 0 and the tracer continues at the wrong '
                           'address; the byte at the top of the address space is never disassembled' % (c, c))
            # slot reads
            reads = []
            for b, i, ln, m in f.nodes():
                if m[0] == 'i' and strip(m[1])[0] == 'm' and strip(m[1])[2].endswith('.NextAddresses') and const_val(m[2]) is not None:
                    reads.append((b, i, ln, const_val(m[2]), m))
            if not reads:
                continue

            def fills(ex):
                k = 0
                for m in walk_own(ex):
                    if m[0] == 'call' and callee_name(m) == 'SimpleNextAddress':
                        k = max(k, 1)
                    if is_assign(m) and m[1] == '=' and strip(m[2])[0] == 'i' and strip(strip(m[2])[1])[0] == 'm' and \
                            strip(strip(m[2])[1])[2].endswith('.NextAddresses'):
                        k += 1
                return k
            # minimum number of filled slots on any path to each block (reset by NextAddressCount = 0)
            INF = 99
            cnt = {f.entry: 0}
            work = [f.entry]
            succ = f.succs()
            outc = {}
            it = 0
            while work and it < 20000:
                it += 1
                b = work.pop()
                c0 = cnt[b]
                for ln2, ex in f.blocks[b]['elems']:
                    if any(is_assign(m) and strip(m[2])[0] == 'm' and strip(m[2])[2].endswith('.NextAddressCount') and const_val(m[3]) == 0
                           for m in walk_own(ex)):
                        c0 = 0
                    c0 = min(INF, c0 + fills(ex))
                if outc.get(b) is not None and outc[b] <= c0:
                    continue
                outc[b] = c0
                for t, l in succ.get(b, ()):
                    if t is None or t < 0:
                        continue
                    if t not in cnt or cnt[t] > c0:
                        cnt[t] = c0
                        work.append(t)
            for (b, i, ln, idx, m) in reads:
                # a store target is not a read
                if any(is_assign(x) and x[1] == '=' and strip(x[2]) == strip(m) for x in walk_own(f.blocks[b]['elems'][i][1])):
                    continue
                c0 = cnt.get(b, 0)
                for j in range(i):
                    ex = f.blocks[b]['elems'][j][1]
                    c0 = min(INF, c0 + fills(ex))
                n += 1
                ok = c0 > idx
                chk.ob('C15-R7', '%s:%s:NextAddresses[%d]@%d' % (un, f.name, idx, ln), ok, f.loc(ln),
                       'slot filled on every path' if ok else
                       'NextAddresses[%d] is read on a path on which only %d slot(s) were filled (the retrieval of the target '
                       'may have failed): the disassembly names a label at an arbitrary address and differs between runs' % (idx, c0))
    if n < 10:
        raise AnalysisBroken('only %d modulus / slot-read sites found in the disassemblers' % n)


def rule_r8(chk, facts):
    chk.rule('C15-R8', 'das.c, image loaders: a record is appended to the chunk being collected (copied behind the bytes already '
             'there) only where its address was found equal to the chunk\'s end, or the chunk was just started at the '
             'record\'s address; anything else would place bytes of one address range at the addresses of another',
             min_instances=1)
    u = facts.unit('das.c')
    n = 0
    for f in u.funcs.values():
        if f.file != 'das.c' or f.entry is None:
            continue
        for b, i, ln, c in f.calls('memcpy'):
            d = nocast(c[2][0])
            if not any(isinstance(m, (list, tuple)) and m and m[0] == 'm' and m[2].endswith('.pCode') for m in walk(d)):
                continue
            # append = destination is an element behind the start of the buffer
            off = None
            if d[0] == 'u' and d[1] == '&' and nocast(d[2])[0] == 'i':
                off = nocast(nocast(d[2])[2])
            elif d[0] == 'b' and d[1] == '+':
                off = nocast(d[3])
            if off is None or const_val(off) == 0:
                continue
            n += 1

            def is_start(x):
                return isinstance(x, (list, tuple)) and x and x[0] == 'm' and x[2].endswith('.Start')

            def contiguous(l):
                return edge_has_atom(l, lambda a: a[0] == 'cmp' and a[1] == '==' and any(is_start(m) for m in walk(a[2])) and
                                     any(isinstance(m, (list, tuple)) and m and m[0] == 'm' and m[2].endswith('.Length') for m in walk(a[2])))

            def restarted(ex):
                return any(is_assign(m) and m[1] == '=' and is_start(nocast(m[2])) for m in walk_own(ex))
            ok, w = f.guarded(b, i, contiguous, restarted)
            chk.ob('C15-R8', 'das.c:%s:append@%d' % (f.name, n), ok, f.loc(ln),
                   'behind "chunk end == record address" or a restart of the chunk' if ok else
                   'the record is copied behind the collected bytes on a path (%s) on which its address was not found equal to '
                   'the end of the chunk: a record that starts below the chunk end (segments in descending order) lands at '
                   'the wrong addresses' % ' '.join(w[-5:]))
    if not n:
        raise AnalysisBroken('das.c: no appending copy into a code chunk found')


def rule_r9(chk, facts):
    chk.rule('C15-R9', 'disassembler opcode tables (6800, 4004): rows with the same operand class and mnemonic carry the same '
             'control-flow column (does execution continue behind the instruction / at the operand): a return that is '
             'marked as falling through for one operand value lets the tracer decode the data behind it as code',
             min_instances=10)
    n = 0
    for un in ('deco4004.c', 'deco68.c'):
        tab = deco_table(facts.unit(un))
        groups = {}
        for op, row in enumerate(tab):
            if row is None or row[3] is None:
                continue
            groups.setdefault((row[0], row[3]), []).append((op, row[2]))
        for (typ, memo), rows in sorted(groups.items(), key=str):
            if len(rows) < 2:
                continue
            n += 1
            vals = {}
            for op, nx in rows:
                vals.setdefault(nx, []).append(op)
            ok = len(vals) == 1
            if not ok:
                minority = min(vals.items(), key=lambda kv: len(kv[1]))
            chk.ob('C15-R9', '%s:%s:%s' % (un, memo, typ), ok, un, '%d rows agree' % len(rows) if ok else
                   'opcode(s) %s of "%s" have next-address flags %s, the other %d rows of the same instruction %s: the tracer '
                   'treats the same instruction differently depending on its operand value' % (
                       ', '.join('$%02X' % o for o in minority[1]), memo, minority[0], len(rows) - len(minority[1]),
                       sorted(k for k in vals if k != minority[0])))
    return n


def run(chk, facts, info):
    rule_r9(chk, facts)
    rule_r8(chk, facts)
    rule_6800(chk, facts)
    rule_4004(chk, facts)
    rule_fold(chk, facts)
    rule_r4(chk, facts)
    chk.rule('C15-R5', '4004/4040 JCN and ISZ: assembler and disassembler take the target page from the same reference, '
             'the address behind the two-word instruction', min_instances=4)
    from .c14 import page_reference_rule
    page_reference_rule(chk, facts, 'C15-R5')
    rule_r6(chk, facts)
    rule_r7(chk, facts)
    chk.note('Decided: opcode-by-opcode agreement of assembler and disassembler tables for 6800/6802 and 4004/4040, '
             'well-formed sign-extension/wrap thresholds, branch target formula. Not decided: the 87C800 disassembler '
             '(code-driven), control-flow tracing, label synthesis, the round trip itself.')
