"""C03-R9: contradiction rule (Engler et al.): a pointer that the function
itself tests against NULL is believed to be possibly NULL; every dereference
of it (or of a local that was assigned from it) must then be guarded."""
from core import *
from .common import *

EXCEPTIONS = {
    'asmpars.c:EnterSymbol:Lauf': 'SearchErg is set to 2/3 by EnterSymbol_Search only together with a non-NULL *Lauf '
                                  '(flag correlation the CFG cannot see)',
    'das.c:CMD_HexFile:pLineBuffer': 'the buffer is (re)allocated whenever LineBufferLen exceeds its size; with '
                                     'LineBufferLen == 0 the indexing loop does not execute',
    'entryaddress.c:GetEntryAddress:pOld': 'only called while EntryAddressAvail() reports a non-empty list',
}
ALLOC = {'malloc', 'calloc', 'realloc', 'as_strdup', 'strdup', 'GetString', 'fopen'}


def ptr_vars(f):
    vs = set()
    for p in f.params:
        if p['type'].get('ptr'):
            vs.add(('p', p['name']))
    for n, t in f.locals.items():
        if t.get('ptr'):
            vs.add(('l', n))
    return vs


def derefs(f, vs):
    """(bid, idx, line, var, node) for q->f, *q, q[i]."""
    for b, i, ln, n in f.nodes():
        q = None
        if n[0] == 'm' and n[3] == 1:
            q = nocast(n[1])
        elif n[0] == 'u' and n[1] == '*':
            q = nocast(n[2])
        elif n[0] == 'i':
            q = nocast(n[1])
        if isinstance(q, tuple) and q in vs:
            yield b, i, ln, q, n


def run(chk, facts, rule='C03-R9'):
    chk.rule(rule, 'in the core modules and tools, a pointer variable that its own function compares with NULL is never '
             'dereferenced on a path on which neither it nor the pointer it was copied from has been found non-NULL '
             '(contradiction rule: the test shows the author believed it can be NULL)', min_instances=150)
    from .c03_bounds import is_generator
    seen = set()
    n_ = 0
    for exe in ('asl', 'plist', 'pbind', 'p2bin', 'p2hex', 'alink', 'dasl'):
        P = facts.program(exe)
        for f in P.all_funcs():
            if f.qname in seen or is_generator(f.unit.name) or f.entry is None:
                continue
            seen.add(f.qname)
            vs = ptr_vars(f)
            if not vs:
                continue
            # null-tested variables
            tested = set()
            for s_, d_, l in f.edges():
                if l is None or l[0] not in ('T', 'F'):
                    continue
                for a in atoms(l[1], True):
                    if a[0] in ('nz', 'z') and a[1] in vs:
                        tested.add(a[1])
            if not tested:
                continue
            # a test on q right after "q = r" expresses the belief that r may be NULL
            for s_, d_, l in f.edges():
                if l is None or l[0] != 'T':
                    continue
                for a in atoms(l[1], True):
                    if a[0] in ('nz', 'z') and a[1] in vs:
                        blk = f.blocks[s_]
                        for d in f.reaching_defs(s_, len(blk['elems']), a[1]):
                            rhs = nocast(d[2]) if d[0] == 'decl' else (nocast(d[3]) if is_assign(d) and d[1] == '=' else None)
                            if isinstance(rhs, tuple) and rhs in vs:
                                tested.add(rhs)
            agg = {}
            for b, i, ln, q, node in derefs(f, vs):
                ok, why = safe_deref(f, b, i, q, vs, tested, 0)
                key = '%s:%s:%s' % (f.unit.name, f.name, q[1])
                a = agg.setdefault(key, [True, '', f.loc(ln)])
                if not ok and a[0]:
                    agg[key] = [False, '%s is dereferenced at line %d (%s) although the function tests %s against NULL '
                                'elsewhere: %s' % (q[1], ln, show(node)[:50],
                                                   ', '.join(sorted(v[1] for v in tested)), why), f.loc(ln)]
            for key, (ok, why, loc) in agg.items():
                n_ += 1
                if not ok and key in EXCEPTIONS:
                    chk.exception(rule, key, EXCEPTIONS[key])
                    ok, why = True, 'listed: ' + EXCEPTIONS[key]
                chk.ob(rule, key, ok, loc, why or 'every dereference guarded')
    return n_


def safe_deref(f, b, i, q, vs, tested, depth):
    """q is believed possibly NULL only if the function tests it (or the
    pointer it was copied from) against NULL."""
    if q in tested:
        g, w = f.guarded(b, i, nz_guard(q))
        if g:
            return True, ''
    else:
        w = []
    if depth > 2:
        return (q not in tested), 'unguarded path ' + ' '.join(w[-4:])
    ds = f.reaching_defs(b, i, q)
    if not ds:
        if q in tested:
            return False, 'unguarded on path ' + ' '.join(w[-4:])
        return True, ''
    for d in ds:
        if is_incdec(d):
            continue
        if d[0] == 'decl':
            rhs = nocast(d[2])
        else:
            if d[1] != '=':
                continue
            rhs = nocast(d[3])
        if not isinstance(rhs, tuple) or not rhs:
            continue
        if rhs[0] == 'c' and q in tested:
            return False, 'NULL assigned at a reaching definition and no test on path ' + ' '.join(w[-4:])
        if rhs in vs and rhs in tested:
            loc = None
            for bb, ii, ln, n in f.nodes():
                if n is d:
                    loc = (bb, ii)
            if loc is None:
                continue
            ok, why = safe_deref(f, loc[0], loc[1], rhs, vs, tested, depth + 1)
            if not ok:
                return False, 'copied from %s, which is unchecked there (%s)' % (rhs[1], why)
        elif q in tested and rhs[0] in ('l', 'p') and rhs not in tested:
            continue
    if q in tested and not any(True for d in ds if not is_incdec(d)):
        return False, 'unguarded on path ' + ' '.join(w[-4:])
    return True, ''
