"""C13 — symbol scoping, mutability and naming rules (structural clauses).

R1 names are case-folded (unless -U) before every keyed lookup and insert:
   tree searches, tree inserts and the FORWARD/PUBLIC/GLOBAL list searches
R2 macro-local lookup precedes the section/global lookup at every
   resolution site
R3 the redefinition errors in SymbolAdder() are guarded by the documented
   tests and return without replacing the entry
R4 global-scope escapes PushLocHandle(-1) ... PopLocHandle() are balanced on
   all paths
"""
from core import *
from .common import *

UNITS = ('asmpars.c', 'asmmac.c', 'asmstructs.c', 'asmallg.c')


def fold_preds(namevar):
    """(edge predicate, element predicate) establishing that `namevar` is in
    canonical case: -U given (nothing to fold) or NLS_UpString(namevar) ran."""
    def edge(l):
        return edge_has_atom(l, lambda a: a[0] == 'nz' and a[1] == ('g', 'CaseSensitive'))

    def elem(ex):
        for m in walk_own(ex):
            if m[0] == 'call' and callee_name(m) in ('NLS_UpString', 'UpString') and m[2]:
                a = nocast(m[2][0])
                if a == namevar:
                    return True
                # Neu->Tree.Name / pElem->pElemName style: same field path
                if a[0] == 'm' and namevar[0] == 'm' and a[2] == namevar[2] and nocast(a[1]) == nocast(namevar[1]):
                    return True
        return False
    return edge, elem


def folded(P, f, b, i, namevar, depth=3, seen=None):
    edge, elem = fold_preds(namevar)
    ok, w = f.guarded(b, i, edge, elem)
    if ok:
        return True, []
    seen = seen or set()
    # a local copy of another name: strmaxcpy(Name, Name_O, ..) keeps the case; follow the source
    if namevar[0] == 'l':
        for b2, i2, ln, n in f.calls({'strmaxcpy', 'strcpy', 'as_snprintf', 'ExpandStrSymbol'}):
            if n[2] and nocast(n[2][0]) == namevar:
                src = None
                if callee_name(n) in ('strmaxcpy', 'strcpy'):
                    src = nocast(n[2][1])
                if src is not None and src[0] in ('p', 'l') and src != namevar:
                    ok2, w2 = folded(P, f, b2, i2, src, depth, seen)
                    if ok2:
                        # copy of an already folded name, made before the site on every path?
                        dom, _ = f.guarded(b, i, lambda l: False, lambda ex, n=n: any(m is n for m in walk_own(ex)))
                        if dom:
                            return True, []
    if namevar[0] == 'p' and depth > 0 and f not in seen:
        names = [p['name'] for p in f.params]
        if namevar[1] in names:
            pi = names.index(namevar[1])
            sites = call_sites(P, f)
            if sites:
                for (g, b2, i2, ln, n, direct) in sites:
                    if pi >= len(n[2]):
                        return False, w
                    a = nocast(n[2][pi])
                    if a[0] == 's':
                        if a[1] == a[1].upper():
                            continue
                        return False, ['literal %r passed at %s' % (a[1], g.loc(ln))]
                    while a[0] == 'm' and a[2].endswith(('.p_str', '.str')):
                        a = nocast(a[1])
                    ok2, w2 = folded(P, g, b2, i2, nocast(n[2][pi]), depth - 1, seen | {f})
                    if not ok2:
                        return False, w + ['<-called from %s:%d' % (g.qname, ln)] + w2
                return True, []
    return False, w


def stack_key_folded(P, f, b, i, namevar, depth=3):
    """Key of the named-stack list: folded in the function itself, or every source the key is filled from is in
    canonical case (an upper-case literal; a parameter every caller has passed through NLS_UpString).  A key that
    is itself a parameter (the search moved into a helper) is followed to every call site."""
    edge, elem = fold_preds(namevar)
    ok, w = f.guarded(b, i, edge, elem)
    if ok:
        return True, []
    if namevar[0] == 's':
        return (namevar[1] == namevar[1].upper()), ['literal %r' % namevar[1]]
    if namevar[0] == 'p':
        pn = [p['name'] for p in f.params]
        sites = call_sites(P, f)
        if depth <= 0 or namevar[1] not in pn or not sites:
            return False, w
        pi = pn.index(namevar[1])
        for (g, b3, i3, l3, n3, d3) in sites:
            if pi >= len(n3[2]):
                return False, w
            ok3, w3 = stack_key_folded(P, g, b3, i3, nocast(n3[2][pi]), depth - 1)
            if not ok3:
                return False, w + ['<-called from %s:%d' % (g.qname, l3)] + w3
        return True, []
    srcs = [(b2, i2, ln, n) for b2, i2, ln, n in f.calls({'strmaxcpy', 'strcpy', 'ExpandStrSymbol'}) if n[2] and nocast(n[2][0]) == namevar]
    if not srcs:
        return False, w
    names = [p['name'] for p in f.params]
    for b2, i2, ln, n in srcs:
        src = nocast(n[2][-1]) if callee_name(n) == 'ExpandStrSymbol' else nocast(n[2][1])
        if src[0] == 's':
            if src[1] != src[1].upper():
                return False, ['literal %r copied at %s' % (src[1], f.loc(ln))]
            continue
        if src[0] != 'p' or src[1] not in names:
            return False, w + ['source %s at %s' % (show(src), f.loc(ln))]
        pi = names.index(src[1])
        sites = call_sites(P, f)
        if not sites:
            return False, w
        for (g, b3, i3, l3, n3, d3) in sites:
            def base_of(e):
                e = nocast(e)
                if e[0] == 'u' and e[1] == '&':
                    e = nocast(e[2])
                while e[0] == 'm':
                    e = nocast(e[1])
                return repr(e)
            a3 = base_of(n3[2][pi]) if pi < len(n3[2]) else None

            def elem3(ex, a3=a3):
                for m in walk_own(ex):
                    if m[0] == 'call' and callee_name(m) in ('NLS_UpString', 'UpString') and m[2]:
                        if a3 is not None and base_of(m[2][0]) == a3:
                            return True
                return False
            ok3, w3 = g.guarded(b3, i3, edge, elem3)
            if not ok3:
                return False, w + ['<-called from %s:%d' % (g.qname, l3)] + w3
    return True, []


def rule_r1(chk, facts, P):
    chk.rule('C13-R1', 'before every keyed search or insert in the symbol, macro and structure trees and in the '
             'FORWARD/PUBLIC/GLOBAL lists, the name has passed NLS_UpString() on every path on which CaseSensitive is '
             'false (in the function itself or in all its callers)', min_instances=10)
    n_ = 0
    for f in P.all_funcs():
        if f.unit.name not in UNITS:
            continue
        for b, i, ln, n in f.calls():
            cn = callee_name(n)
            namevar = None
            what = None
            if cn == 'SearchTree' and len(n[2]) >= 2:
                namevar, what = nocast(n[2][1]), 'tree search'
            elif cn == 'FindNode_FSpec' and n[2]:
                namevar, what = nocast(n[2][0]), 'FORWARD/PUBLIC list search'
            elif cn == 'strcmp' and len(n[2]) == 2 and nocast(n[2][0])[0] == 'm' and nocast(n[2][0])[2].endswith('sSymbolStack.Name'):
                # the sorted list of named PUSHV/POPV stacks: strcmp(LStack->Name, key)
                namevar, what = nocast(n[2][1]), 'named-stack search'
            elif cn == 'EnterTree' and len(n[2]) >= 2:
                # &Neu->Tree  ->  the key is Neu->Tree.Name
                a = strip(n[2][1])
                if a[0] == 'u' and a[1] == '&':
                    base = a[2]
                    namevar, what = ('m', base, 'sTree.Name', 0), 'tree insert'
            if namevar is None:
                continue
            n_ += 1
            if what == 'tree insert':
                # accept any NLS_UpString on a ....Name field of the same node or -U
                node_root = lv_root(namevar[1])

                def elem(ex, node_root=node_root):
                    for m in walk_own(ex):
                        if m[0] == 'call' and callee_name(m) == 'NLS_UpString' and m[2]:
                            r = lv_root(m[2][0])
                            if r and node_root and r[:2] == node_root[:2] and any('Name' in p for p in r[2]):
                                return True
                    return False
                ok, w = f.guarded(b, i, fold_preds(namevar)[0], elem)
                if not ok:
                    # node->Tree.Name = as_strdup(src) / src: follow the source string
                    for b2, i2, l2, m in f.nodes():
                        if is_assign(m) and m[1] == '=' and strip(m[2])[0] == 'm' and strip(m[2])[2].endswith('Tree.Name'):
                            r0 = lv_root(m[2])
                            if not (r0 and node_root and r0[:2] == node_root[:2]):
                                continue
                            src = nocast(m[3])
                            if src[0] == 'call' and callee_name(src) in ('as_strdup', 'strdup') and src[2]:
                                src = nocast(src[2][0])
                            srcs = [src]
                            if src[0] == 'l':
                                for b3, i3, l3, c in f.calls({'strmaxcpy', 'strcpy'}):
                                    if c[2] and nocast(c[2][0]) == src:
                                        srcs.append(nocast(c[2][1]))
                            for sx in srcs:
                                rs = lv_root(sx)

                                def elem3(ex, rs=rs):
                                    for mm in walk_own(ex):
                                        if mm[0] == 'call' and callee_name(mm) == 'NLS_UpString' and mm[2]:
                                            r = lv_root(mm[2][0])
                                            if r and rs and r[:2] == rs[:2]:
                                                return True
                                    return False
                                ok3, w3 = f.guarded(b2, i2, fold_preds(namevar)[0], elem3)
                                if ok3:
                                    ok = True
                if not ok and node_root and node_root[0] == 'p':
                    # node built by the caller: every caller must have folded its name
                    ok = True
                    names = [p['name'] for p in f.params]
                    pi = names.index(node_root[1])
                    for (g, b2, i2, l2, n2, d2) in call_sites(P, f):
                        a2 = lv_root(n2[2][pi]) if pi < len(n2[2]) else None

                        def elem2(ex, a2=a2):
                            for m in walk_own(ex):
                                if m[0] == 'call' and callee_name(m) == 'NLS_UpString' and m[2]:
                                    r = lv_root(m[2][0])
                                    if r and a2 and r[:2] == a2[:2]:
                                        return True
                            return False
                        ok2, w2 = g.guarded(b2, i2, fold_preds(namevar)[0], elem2)
                        if not ok2:
                            ok, w = False, ['<-called from %s:%d' % (g.qname, l2)] + w2
            elif what == 'named-stack search':
                ok, w = stack_key_folded(P, f, b, i, namevar)
            else:
                ok, w = folded(P, f, b, i, namevar)
            chk.ob('C13-R1', '%s:%s:%s(%s)' % (f.unit.name, f.name, cn, show(namevar)[:30]), ok, f.loc(ln),
                   'name folded before the %s' % what if ok else
                   'the %s uses %s on a path on which it has not been upper-cased although CaseSensitive is false: a '
                   'lower-case spelling does not find the entry stored in upper case; path %s' % (what, show(namevar)[:30], ' '.join(str(x) for x in w[-6:])))
    if n_ < 8:
        raise AnalysisBroken('only %d keyed lookups found' % n_)


def rule_r2(chk, facts, P):
    chk.rule('C13-R2', 'every call of FindNode() (section/global lookup) for a name is made only after FindLocNode() '
             '(macro-local lookup) for the same name returned NULL; PUSHV/POPV, which act on globals by definition, '
             'are listed', min_instances=8)
    LISTED = {'PushSymbol': 'PUSHV saves a global symbol', 'PopSymbol': 'POPV restores a global symbol'}
    u = facts.unit('asmpars.c')
    n_ = 0
    for f in u.funcs.values():
        for b, i, ln, n in f.calls('FindNode'):
            n_ += 1
            key = 'asmpars.c:%s:FindNode' % f.name
            if f.name in LISTED:
                chk.exception('C13-R2', key, LISTED[f.name])
                chk.ob('C13-R2', key, True, f.loc(ln), 'listed: ' + LISTED[f.name])
                continue
            name = nocast(n[2][0])
            # the variable receiving the FindLocNode result for the same name
            recv = None
            for b2, i2, l2, m in f.nodes():
                if is_assign(m) and m[1] == '=' and callee_name(nocast(m[3])) == 'FindLocNode' and nocast(nocast(m[3])[2][0]) == name:
                    recv = strip(m[2])
            if recv is None:
                chk.ob('C13-R2', key, False, f.loc(ln), 'FindNode(%s) without a preceding FindLocNode(%s): a macro-local '
                       'symbol of that name is bypassed' % (show(name), show(name)))
                continue
            ok, w = f.guarded(b, i, lambda l: edge_has_atom(l, lambda a: a[0] == 'z' and a[1] == recv))
            chk.ob('C13-R2', key, ok, f.loc(ln), 'on the NULL edge of the local lookup' if ok else
                   'FindNode(%s) is reachable although the macro-local lookup succeeded (or was not made): %s' % (show(name), ' '.join(w[-5:])))
    if n_ < 8:
        raise AnalysisBroken('only %d FindNode calls found' % n_)


def rule_r3(chk, facts, P):
    chk.rule('C13-R3', 'SymbolAdder(): the double-definition error is raised exactly under Defined && !Changeable && '
             '!MayChange, the EQU/SET mixing error under Defined && MayChange != Changeable, and both return without '
             'touching the existing entry', min_instances=4)
    f = facts.func('asmpars.c', 'SymbolAdder')
    errs = {}
    for b, i, ln, n in f.calls({'WrXError', 'WrError'}):
        a = nocast(n[2][0])
        names = [x[1] for x in walk(a) if x[0] == 'e']
        for nm in names:
            errs.setdefault(nm, (b, i, ln))

    def fld(a, name):
        return isinstance(a, tuple) and a and a[0] == 'm' and a[2].endswith('.' + name)
    spec = {
        'ErrNum_DoubleDef': [lambda a: a[0] == 'nz' and fld(a[1], 'Defined'),
                             lambda a: a[0] == 'z' and fld(a[1], 'Changeable'),
                             lambda a: a[0] == 'z' and fld(a[1], 'MayChange')],
        'ErrNum_VariableRedefinedAsConstant': [lambda a: a[0] == 'nz' and fld(a[1], 'Defined'),
                                               lambda a: a[0] == 'cmp' and a[1] == '!=' and
                                               {a[2][2].split('.')[-1] if a[2][0] == 'm' else '', a[3][2].split('.')[-1] if a[3][0] == 'm' else ''} == {'MayChange', 'Changeable'}],
    }
    for en, conds in spec.items():
        if en not in errs:
            chk.ob('C13-R3', 'asmpars.c:SymbolAdder:%s' % en, False, f.loc(), 'error %s is no longer raised' % en)
            continue
        b, i, ln = errs[en]
        miss = []
        for k, c in enumerate(conds):
            ok, w = f.guarded(b, i, lambda l, c=c: edge_has_atom(l, c))
            if not ok:
                miss.append(k)
        chk.ob('C13-R3', 'asmpars.c:SymbolAdder:%s:guards' % en, not miss, f.loc(ln),
               'raised under the documented condition' if not miss else
               '%s is raised on a path on which %d of its documented conditions are not tested' % (en, len(miss)))
        # returns False without replacing: every path from the error to exit passes `return 0` and no store to *PDest

        def ret_false(ex):
            e = strip(ex)
            return e[0] == 'ret' and const_val(e[1]) == 0
        ok, w = f.must_pass(b, i, ret_false)

        def replaces(ex):
            return any(is_assign(m) and strip(m[2])[0] == 'u' and strip(m[2])[1] == '*' for m in walk_own(ex))
        seen = f.reach_forward([b])
        touched = False
        # only the straight path to the return counts
        cur = b
        chk.ob('C13-R3', 'asmpars.c:SymbolAdder:%s:returns-unchanged' % en, ok, f.loc(ln),
               'returns False after the error' if ok else 'the rejected definition is entered anyway')


def rule_r4(chk, facts, P):
    chk.rule('C13-R4', 'every PushLocHandle(-1) (escape to the global symbol space) is followed on every path to the '
             'function\'s exit by exactly one PopLocHandle()', min_instances=30)
    n_ = 0
    for f in P.all_funcs():
        pushes = [(b, i, ln) for b, i, ln, n in f.calls('PushLocHandle') if const_val(n[2][0]) == -1]
        if not pushes:
            continue

        def is_pop(ex):
            return any(m[0] == 'call' and callee_name(m) == 'PopLocHandle' for m in walk_own(ex))
        for (b, i, ln) in pushes:
            n_ += 1
            # flags under which the push is made (unmodified locals/parameters): the
            # complementary edges are infeasible on the way to the pop
            flags = []
            for s_, d_, l in f.edges():
                if l is not None and l[0] in ('T', 'F'):
                    for a in atoms(l[1], l[0] == 'T'):
                        if a[0] == 'nz' and a[1][0] in ('l', 'p') and f.guarded(b, i, nz_guard(a[1]))[0] and \
                                not any((is_assign(m) or is_incdec(m)) and strip(m[2]) == a[1] for bb, ii, ll, m in f.nodes()):
                            flags.append(a[1])

            def eok(s_, d_, l, flags=flags):
                if l is not None and l[0] in ('T', 'F'):
                    for a in atoms(l[1], l[0] == 'T'):
                        if a[0] == 'z' and a[1] in flags:
                            return False
                return True
            ok, w = f.must_pass(b, i, is_pop, edge_ok=eok)
            chk.ob('C13-R4', '%s:%s:PushLocHandle(-1)@%d' % (f.unit.name, f.name, len([1 for x in pushes if x[2] <= ln])),
                   ok, f.loc(ln), 'closed on every path' if ok else
                   'a path leaves %s with the global-scope escape still open: later labels of the macro body become '
                   'global; path %s' % (f.name, ' '.join(w[-5:])))
    if n_ < 30:
        raise AnalysisBroken('only %d PushLocHandle(-1) sites found' % n_)


def rule_r6(chk, facts, P):
    chk.rule('C13-R6', 'between PushLocHandle(-1) and the PopLocHandle() that closes it only definitions are made: no '
             'function called there reaches the local-symbol lookup FindLocNode() (other than through ExpandStrSymbol(), '
             'the expansion of {..} inside the name being defined) - an expression evaluated inside the escape cannot '
             'see the labels local to the macro expansion it stands in', min_instances=30)
    tgt = [f for f in P.all_funcs() if f.name == 'FindLocNode' and f.unit.name == 'asmpars.c']
    if len(tgt) != 1:
        raise AnalysisBroken('FindLocNode not found')
    tgt = tgt[0]
    memo = {}

    def reaches(g):
        if g not in memo:
            memo[g] = tgt in P.closure([g], stop=lambda x: x.name == 'ExpandStrSymbol')
        return memo[g]
    n_ = 0
    for f in P.all_funcs():
        pushes = [(b, i, ln) for b, i, ln, n in f.calls('PushLocHandle') if const_val(n[2][0]) == -1]
        for k, (b, i, ln) in enumerate(sorted(pushes, key=lambda t: t[2])):
            n_ += 1
            seen = set()
            work = [(b, i + 1)]
            bad = []
            defined = []
            while work:
                bb, ii = work.pop()
                els = f.blocks[bb]['elems']
                stop = False
                for j in range(ii, len(els)):
                    ex = els[j][1]
                    if any(m[0] == 'call' and callee_name(m) == 'PopLocHandle' for m in walk_own(ex)):
                        stop = True
                        break
                    for m in walk_own(ex):
                        if m[0] == 'call':
                            for g in P.call_targets(f, m) if hasattr(P, 'call_targets') else [P.resolve(f.unit, callee_name(m))] if callee_name(m) else []:
                                if g is not None and (callee_name(m) or '').startswith('Enter') and m[2]:
                                    defined.append(nocast(m[2][0]))
                                elif g is not None and reaches(g):
                                    bad.append((els[j][0], g.name, nocast(m[2][0]) if m[2] else None))
                if stop:
                    continue
                for t, l in f.succs().get(bb, ()):
                    if t not in seen:
                        seen.add(t)
                        work.append((t, 0))
            # a lookup of the very name that is being defined inside the escape finds the new global: fine
            bad = [x for x in bad if x[2] is None or x[2] not in defined]
            ok = not bad
            chk.ob('C13-R6', '%s:%s:escape@%d' % (f.unit.name, f.name, k + 1), ok, f.loc(bad[0][0] if bad else ln),
                   'only definitions inside the escape' if ok else
                   '%s() is called while the local symbol space is switched off and looks symbols up: a macro-local label '
                   'named in that expression is not found (or a global of the same name is taken instead)' % bad[0][1])
    if n_ < 30:
        raise AnalysisBroken('only %d PushLocHandle(-1) sites found' % n_)


USER_NAME_FIELDS = {'sCToken.Name', 'sStructElem.pElemName', 'sStructElem.pRefElemName', 'sStructStack.Name', 'sSymbolStack.Name',
                    'tag_TForwardSymbol.Name', 'tag_TFunction.Name', 'tag_TTransTable.Name', 'tag_TTree.Name',
                    'tag_TExportEntry.Name'}


def rule_r7(chk, facts, P):
    chk.rule('C13-R7', 'a stored user-defined name (section name via GetSectionName(), symbol/function/structure/stack names) '
             'is compared case-insensitively only on paths where CaseSensitive is known to be off: letter case is folded '
             'by the CaseSensitive-guarded up-casing of the looked-up name, never by the comparison itself (with -U '
             '"Mod" and "MOD" are different sections)', min_instances=10)
    n_ = 0
    for f in P.all_funcs():
        if is_generator_unit(f.unit.name):
            continue
        for b, i, ln, c in f.calls({'as_strcasecmp', 'as_strncasecmp', 'strcasecmp', 'strncasecmp', 'strcmp', 'strncmp'}):
            stored = None
            for a in c[2]:
                x = nocast(a)
                if x[0] == 'call' and callee_name(x) == 'GetSectionName':
                    stored = 'GetSectionName()'
                for m in walk(a):
                    if isinstance(m, (list, tuple)) and len(m) > 2 and m[0] == 'm' and m[2] in USER_NAME_FIELDS:
                        stored = m[2]
            if stored is None:
                continue
            n_ += 1
            ci = 'case' in callee_name(c)
            ok = (not ci) or f.guarded(b, i, lambda l: edge_has_atom(l, lambda a: a[0] == 'z' and a[1] == ('g', 'CaseSensitive')))[0]
            chk.ob('C13-R7', '%s:%s:%s(%s)' % (f.unit.name, f.name, callee_name(c), stored), ok, f.loc(ln),
                   'exact comparison' if not ci else 'case-insensitive only with CaseSensitive off' if ok else
                   '%s() compares against the stored user-defined name %s although CaseSensitive may be on: with -U two '
                   'names that differ only in letter case are taken for the same' % (callee_name(c), stored))
    if n_ < 12:
        raise AnalysisBroken('only %d comparisons against stored user-defined names found' % n_)


def rule_r8(chk, facts, P):
    chk.rule('C13-R8', 'asmpars.c PUSHV/POPV: the list of named symbol stacks is searched by PopSymbol() with an ordering '
             'comparison (the walk stops at the first name that is not smaller); PushSymbol() therefore inserts a new stack '
             'at the position the same ordering walk leaves it at - both functions walk FirstStack with the same '
             'relational strcmp() test, and the new element is linked behind the walk\'s predecessor', min_instances=3)

    def ordering_loops(f, depth=0):
        out = []
        if depth == 0:
            # the walk may live in a helper both functions share
            for b, i, ln, c in f.calls():
                g = P.resolve(f.unit, callee_name(c)) if callee_name(c) else None
                if g is not None and g.unit is f.unit and g is not f and g.static:
                    out += ordering_loops(g, 1)
        for (h, s0) in f.loops():
            body = f.loop_body(h, s0)
            for bb in body | {h}:
                c = f.blocks[bb].get('cond')
                if c is None:
                    continue
                for m in walk(c):
                    if isinstance(m, (list, tuple)) and len(m) > 3 and m[0] == 'b' and m[1] in ('<', '>', '<=', '>=') and \
                            nocast(m[2])[0] == 'call' and callee_name(nocast(m[2])) == 'strcmp' and const_val(m[3]) == 0 and \
                            mentions(m[2], lambda x: isinstance(x, (list, tuple)) and len(x) > 2 and x[0] == 'm' and x[2] == 'sSymbolStack.Name'):
                        out.append((m[1], h))
        return out
    pop = facts.func('asmpars.c', 'PopSymbol')
    push = facts.func('asmpars.c', 'PushSymbol')
    lp, lq = ordering_loops(pop), ordering_loops(push)
    chk.ob('C13-R8', 'asmpars.c:PopSymbol:ordered-search', True, pop.loc(),
           'walk with strcmp %s 0' % lp[0][0] if lp else 'searches by equality (no order assumed)')
    if lp:
        ok = bool(lq) and lq[0][0] == lp[0][0]
        chk.ob('C13-R8', 'asmpars.c:PushSymbol:same-ordering-walk', ok, push.loc(),
               'same ordering walk' if ok else
               'PopSymbol() stops its walk at the first stack name that is not smaller than the wanted one, but PushSymbol() does '
               'not place a new stack by that order: a stack that sits behind an alphabetically greater one is never found '
               'again ("stack is empty or undefined")')
        # the link of the new element goes through the walk's predecessor variable (or the head when there is none)
        links = [(b, i, ln, m) for b, i, ln, m in push.nodes() if is_assign(m) and m[1] == '=' and
                 (strip(m[2]) == ('gs', 'FirstStack') or (strip(m[2])[0] == 'm' and strip(m[2])[2] == 'sSymbolStack.Next' and strip(strip(m[2])[1])[0] == 'l'))]
        head = [x for x in links if strip(x[3][2]) == ('gs', 'FirstStack')]
        okh = all(push.guarded(b, i, lambda l: edge_has_atom(l, lambda a: a[0] == 'z' and a[1][0] == 'l'))[0] for b, i, ln, m in head) and bool(head)
        chk.ob('C13-R8', 'asmpars.c:PushSymbol:head-link-only-without-predecessor', okh, push.loc(head[0][2] if head else None),
               'FirstStack is replaced only when the walk found no smaller element' if okh else
               'a new stack is linked at the head of the list regardless of the ordering walk')


def rule_r5(chk, facts, P):
    chk.rule('C13-R5', 'asmpars.c/asmallg.c: a loop that walks the chain of open sections (innermost first) or a '
             'FORWARD/PUBLIC list and compares names stops at the first match: the edge on which the comparison '
             'reports equality leaves the loop', min_instances=2)
    n_ = 0
    for un in ('asmpars.c', 'asmallg.c'):
        u = facts.unit(un)
        for f in u.funcs.values():
            if f.file != un:
                continue
            for (h, s0) in f.loops():
                body = f.loop_body(h, s0)
                # the loop must advance through ->Next
                walks = any(is_assign(m) and strip(m[3])[0] == 'm' and
                            strip(m[3])[2] in ('tag_TSaveSection.Next', 'tag_TForwardSymbol.Next')
                            for bb in body for l2, ex in f.blocks[bb]['elems'] for m in walk_own(ex) if is_assign(m))
                if not walks:
                    continue
                for s_, d_, l in f.edges():
                    if s_ not in body or l is None or l[0] not in ('T', 'F'):
                        continue
                    match = any(a[0] == 'z' and isinstance(a[1], tuple) and a[1][0] == 'call' and
                                a[1][1][1] in ('strcmp', 'as_strcasecmp', 'strcasecmp') for a in atoms(l[1], l[0] == 'T'))
                    if not match:
                        continue
                    n_ += 1
                    # does the search continue after the match?
                    cont = f.reach_forward([d_], lambda a_, b_, l2: b_ in body or a_ in body, block_stop=lambda x: x not in body)
                    again = h in cont and d_ in body
                    ln = f.blocks[s_]['term'][1] if f.blocks[s_].get('term') else f.line
                    chk.ob('C13-R5', '%s:%s:first-match@%d' % (un, f.name, len([1 for x in range(1)])), not again, f.loc(ln),
                           'the loop is left at the first match' if not again else
                           '%s keeps walking the chain after a name matched and a later (outer) entry overrides the first '
                           '(innermost) one' % f.name)
    if n_ < 2:
        raise AnalysisBroken('only %d name-search loops found' % n_)


def rule_r9(chk, facts, P):
    chk.rule('C13-R9', 'PUBLIC/GLOBAL/FORWARD name lists: the section qualifier that is resolved for one name (argument of '
             'IdentifySection() inside the loop over the statement\'s arguments) is set in the same iteration on every path '
             '- from the "name:section" split or to the empty default; a value left over from the previous name would '
             'redirect an unqualified name into that name\'s section', min_instances=1)
    n = 0
    for f in P.all_funcs():
        if f.entry is None or f.unit.name not in ('asmallg.c', 'asmpars.c', 'as.c'):
            continue
        loops = [(h, s0, f.loop_body(h, s0)) for h, s0 in f.loops()]
        for b, i, ln, c in f.calls('IdentifySection'):
            a = nocast(c[2][0]) if c[2] else None
            if a is None or not (a[0] == 'u' and a[1] == '&' and nocast(a[2])[0] == 'l'):
                continue
            V = nocast(a[2])
            inner = [x for x in loops if b in x[2]]
            if not inner:
                continue
            h, s0, body = min(inner, key=lambda x: len(x[2]))
            n += 1

            def defines(ex, V=V, c=c):
                for m in walk_own(ex):
                    if is_assign(m) and nocast(m[2]) == V:
                        return True
                    if m[0] == 'call' and m is not c and callee_name(m) != 'IdentifySection':
                        for x in m[2]:
                            x = nocast(x)
                            if x[0] == 'u' and x[1] == '&' and nocast(x[2]) == V:
                                return True
                return False
            ok, w = f.guarded(b, i, lambda l: False, defines, start=s0)
            chk.ob('C13-R9', '%s:%s:IdentifySection(&%s)' % (f.unit.name, f.name, V[1]), ok, f.loc(ln),
                   'set in every iteration' if ok else
                   '%s is resolved on a path of the iteration (%s) on which this iteration has not set it: it still holds the '
                   'qualifier of the previous name ("public a:parent, b" puts b into parent, too)' % (V[1], ' '.join(w[-5:])))
    if not n:
        raise AnalysisBroken('no IdentifySection() call inside an argument loop found')


def run(chk, facts, info):
    P = facts.program('asl')
    rule_r9(chk, facts, P)
    rule_r5(chk, facts, P)
    rule_r1(chk, facts, P)
    rule_r2(chk, facts, P)
    rule_r3(chk, facts, P)
    rule_r4(chk, facts, P)
    rule_r6(chk, facts, P)
    rule_r7(chk, facts, P)
    rule_r8(chk, facts, P)
    from . import c13_pred
    c13_pred.run(chk, facts, P)
    chk.note('Decided: case folding before keyed lookups/inserts, local-before-global lookup order, redefinition guards, '
             'balance of global-scope escapes. Not decided: section-tree resolution results, temporary-symbol binding.')
