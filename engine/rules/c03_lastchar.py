"""C03-R34: the last character of a string is addressed only where the string
is known not to be empty.

`s[strlen(s) - 1]` (or `s[l - 1]` with `l = strlen(s)`) on an empty string reads
- and in the quote/bracket strippers writes - the byte in front of the buffer.
Evidence that s is not empty on the way to the access:
  a test of `*s`, `s[0]`, `strlen(s)` or of the local that holds the length;
  a successful search in s (strchr/strrchr/QuotPos/... result tested non-null);
  a successful prefix comparison with a non-empty literal (strncmp & co == 0);
  IsIndirect(s) (needs "(" and ")").
Where s is a reference into a longer string that starts at least one character
earlier (StrCompRefRight(&X, p, 1)), the byte in front belongs to the same
buffer and the instance is accepted.  Strings the program formats itself are
listed."""
from core import *
from .common import *

PROGRAMS = ('asl', 'plist', 'alink', 'p2bin', 'p2hex', 'pbind', 'dasl')
SEARCH = ('strchr', 'strrchr', 'QuotPos', 'RQuotPos', 'QuotPosQualify', 'strstr', 'QuotMultPos', 'QuotMultPosQualify')
PREFIX = ('strncmp', 'as_strncasecmp', 'strncasecmp')

LISTED = {
    'asmsub.c:FloatString': 'the text was just produced by the float formatter (never empty)',
    'asmpars.c:PrintFunctionList': 'the line buffer was filled with at least one name before the trailing separator is cut',
    'asmmac.c:PrintMacroList': 'as for PrintFunctionList',
    'code601.c:AddReg3': 'instruction names of the generator\'s own table',
    'code3206x.c:AddCmp': 'instruction names of the generator\'s own table',
    'code6809.c:DecodeStack': 'the mnemonic of the instruction being decoded (PSHS/PULU...), never empty',
}


def _same(a, b):
    return nocast(a) == nocast(b)


def run(chk, facts, rule='C03-R34'):
    chk.rule(rule, 's[strlen(s) - 1] (also through a local that holds strlen(s)) is evaluated only where s is known not to be '
             'empty: behind a test of its first character or length, a successful search or prefix comparison in it, or on '
             'a reference that starts inside a longer string', min_instances=100)
    seen = set()
    n = 0
    for exe in PROGRAMS:
        P = facts.program(exe)
        for f in P.all_funcs():
            if f.entry is None or f.qname in seen:
                continue
            seen.add(f.qname)
            k = 0
            for b, i, ln, m in f.nodes():
                if m[0] != 'i':
                    continue
                idx = nocast(m[2])
                if not (idx[0] == 'b' and idx[1] == '-' and const_val(nocast(idx[3])) == 1):
                    continue
                l = nocast(idx[2])
                s = nocast(m[1])
                lenloc = None
                if l[0] == 'call' and callee_name(l) == 'strlen' and _same(l[2][0], s):
                    pass
                elif l[0] == 'l':
                    ds = f.reaching_defs(b, i, tuple(l))
                    if not ds or not all((is_assign(d) and d[1] == '=' and nocast(d[3])[0] == 'call' and
                                          callee_name(nocast(d[3])) == 'strlen' and _same(nocast(d[3])[2][0], s)) or
                                         (d[0] == 'decl' and d[2] is not None and nocast(d[2])[0] == 'call' and
                                          callee_name(nocast(d[2])) == 'strlen' and _same(nocast(d[2])[2][0], s)) for d in ds):
                        continue
                    lenloc = l
                else:
                    continue
                k += 1
                n += 1
                key = '%s:%s' % (f.unit.name, f.name)
                # locals that hold the result of a search in s
                found = set()
                for b2, i2, l2, m2 in f.nodes():
                    if is_assign(m2) and m2[1] == '=' and nocast(m2[2])[0] == 'l':
                        r = nocast(m2[3])
                        if r[0] == 'call' and callee_name(r) in SEARCH and r[2] and _same(r[2][0], s):
                            found.add(tuple(nocast(m2[2])))

                def is_s_probe(x):
                    x = nocast(x)
                    if x[0] == 'u' and x[1] == '*' and _same(x[2], s):
                        return True
                    if x[0] == 'i' and _same(x[1], s):
                        return True
                    if x[0] == 'call' and callee_name(x) == 'strlen' and x[2] and _same(x[2][0], s):
                        return True
                    if lenloc is not None and x == lenloc:
                        return True
                    return False

                def fact(lab):
                    def at(a):
                        if a[0] == 'nz':
                            x = nocast(a[1])
                            if is_s_probe(x) or (x[0] == 'l' and tuple(x) in found):
                                return True
                            if x[0] == 'call' and callee_name(x) == 'IsIndirect' and x[2] and _same(x[2][0], s):
                                return True
                            if x[0] == 'call' and callee_name(x) in SEARCH and x[2] and _same(x[2][0], s):
                                return True
                        if a[0] == 'nz':
                            x = nocast(a[1])
                            # strcmp(s, "") != 0: the path on which the string is not the empty one (Memo(""))
                            if x[0] == 'call' and callee_name(x) in ('strcmp', 'as_strcasecmp', 'strcasecmp') and len(x[2]) >= 2 and \
                                    _same(x[2][0], s) and nocast(x[2][1])[0] == 's' and len(nocast(x[2][1])[1]) == 0:
                                return True
                        if a[0] == 'z':
                            x = nocast(a[1])
                            if x[0] == 'call' and callee_name(x) in PREFIX and len(x[2]) >= 2 and _same(x[2][0], s) and \
                                    nocast(x[2][1])[0] == 's' and len(nocast(x[2][1])[1]) > 0:
                                return True
                        if a[0] == 'cmp':
                            for x in (a[2], a[3]):
                                if isinstance(x, (list, tuple)) and any(isinstance(y, (list, tuple)) and y and is_s_probe(y)
                                                                        for y in walk(x)):
                                    return True
                        return False
                    return edge_has_atom(lab, at)
                ok, w = f.guarded(b, i, fact)
                why = 'behind evidence that the string is not empty'
                if not ok:
                    # a reference that starts inside a longer string
                    base = s
                    if base[0] == 'm' and base[2].endswith('.p_str'):
                        comp = nocast(base[1])
                        while comp[0] == 'm':
                            comp = nocast(comp[1])
                        for b2, i2, l2, c in f.calls(('StrCompRefRight',)):
                            a0 = nocast(c[2][0])
                            if a0[0] == 'u' and a0[1] == '&' and nocast(a0[2]) == comp and (const_val(nocast(c[2][2])) or 0) >= 1:
                                ok = True
                                why = 'the component is a reference that starts %d character(s) inside a longer string' % \
                                    const_val(nocast(c[2][2]))
                if not ok and s[0] == 'l':
                    # a pointer that was set to one or more characters behind the start of another string
                    ds = f.reaching_defs(b, i, tuple(s))
                    if ds and all(is_assign(d) and d[1] == '=' and nocast(d[3])[0] == 'b' and nocast(d[3])[1] == '+' and
                                  (const_val(nocast(nocast(d[3])[3])) or 0) >= 1 for d in ds):
                        ok = True
                        why = 'the pointer was set behind the start of a longer string'
                if not ok and key in LISTED:
                    ok = True
                    why = 'listed: ' + LISTED[key]
                    chk.exception(rule, key, LISTED[key])
                chk.ob(rule, '%s#%d' % (key, k), ok, f.loc(ln), why if ok else
                       '%s is evaluated although nothing on the way (%s) shows that %s is not empty: for an empty string this '
                       'is the byte in front of the buffer' % (show(m)[:60], ' '.join(str(x) for x in w[-4:]), show(s)[:40]))
    return n
