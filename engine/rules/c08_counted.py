"""C08-R13: counted strings never reach a NUL-terminated string routine.
String values of expressions are as_nonz_dynstr (pointer + length, "non-zero
terminated"): they may contain NUL characters ("ab\\0cd" is a five character
string; STRLEN, SUBSTR, the comparison operators and CASE are documented on
characters, not on C strings).  Every function that is handed the p_str of such
a value (directly or through one more call) works on (pointer, length); a call
of strcmp/strncmp/strlen/strcpy/... on that pointer stops at the first NUL and
makes two strings that differ behind a NUL compare equal."""
from core import *
from .common import *

NUL = {'strcmp', 'strncmp', 'strcpy', 'strncpy', 'strlen', 'strcat', 'strncat', 'strchr', 'strrchr', 'strstr', 'strcasecmp',
       'strncasecmp', 'as_strcasecmp', 'as_strncasecmp', 'strdup', 'as_strdup', 'strmaxcpy', 'strmaxcat', 'strspn', 'strcspn'}


def is_nonz_ptr(e):
    e = nocast(e)
    return isinstance(e, (list, tuple)) and e and e[0] == 'm' and e[2] == 'as_nonz_dynstr.p_str'


def run(chk, facts, P, rule='C08-R13'):
    chk.rule(rule, 'no function that is handed the character pointer of a counted string value (as_nonz_dynstr.p_str, '
             'directly or through one further call) passes that pointer, or an offset of it, to a routine that stops at '
             'a NUL character (%s): comparison, length and search of string values act on all characters' % ', '.join(sorted(NUL)[:8]) + ', ...',
             min_instances=4)
    counted = {}     # id(func) -> (func, set(param index))
    for rnd in range(3):
        for f in P.all_funcs():
            if f.entry is None:
                continue
            mine = counted.get(id(f), (f, set()))[1]
            pn = [p['name'] for p in f.params]
            for b, i, ln, n in f.calls():
                cn = callee_name(n)
                if cn is None or cn in NUL:
                    continue
                t = P.resolve(f.unit, cn)
                if t is None or t.entry is None:
                    continue
                for k, a in enumerate(n[2]):
                    a0 = nocast(a)
                    hit = is_nonz_ptr(a0) or (a0[0] == 'p' and a0[1] in pn and pn.index(a0[1]) in mine)
                    if hit and k < len(t.params) and t.params[k]['type'].get('ptr'):
                        counted.setdefault(id(t), (t, set()))[1].add(k)
    n_ = 0
    for f in P.all_funcs():
        if f.entry is None:
            continue
        pn = [p['name'] for p in f.params]
        mine = {pn[k] for k in counted.get(id(f), (f, set()))[1]}
        bad = []
        sites = 0
        for b, i, ln, n in f.calls():
            if callee_name(n) not in NUL:
                continue
            for a in n[2]:
                for x in walk(a):
                    if not isinstance(x, (list, tuple)) or not x:
                        continue
                    if is_nonz_ptr(x) or (len(x) == 2 and x[0] == 'p' and x[1] in mine):
                        # the repository's sentinel: "length < 0 means the source is NUL-terminated" - strlen() under
                        # a test 'len < 0' of an integer parameter measures a C string, not a counted one
                        def neg_len(l):
                            if l is None or l[0] != 'T':
                                return False
                            c = nocast(l[1])
                            return (c[0] == 'b' and c[1] == '<' and nocast(c[2])[0] == 'p' and nocast(c[2])[1] in pn
                                    and const_val(nocast(c[3])) == 0)
                        if callee_name(n) == 'strlen' and f.guarded(b, i, neg_len)[0]:
                            continue
                        bad.append((ln, callee_name(n), show(nocast(a))))
        if not mine and not bad:
            continue
        n_ += 1
        ok = not bad
        chk.ob(rule, '%s:%s:%s' % (f.unit.name, f.name, ','.join(sorted(mine)) or 'p_str'), ok, f.loc(bad[0][0] if bad else None),
               'counted pointer(s) %s only reach length-aware code' % ', '.join(sorted(mine)) if ok else
               '%s(%s): a counted string (pointer + length, may contain NUL characters) is handed to a routine that stops at '
               'the first NUL - two string values that differ only behind an embedded NUL compare equal / are cut'
               % (bad[0][1], bad[0][2]))
    return n_
