"""C13-R10: a local pointer the function tests for NULL can be something else
than NULL.  The list code of the symbol table (named PUSHV/POPV stacks,
section and forward chains, structure elements) keeps a 'predecessor' pointer
next to the running pointer of a search loop and afterwards decides with
'if (!Prev) First = ...; else Prev->Next = ...' whether the list head or a
link is rewritten.  If every store to that pointer is the constant NULL the
test is decided before it is made: the 'else' arm is dead and unlinking an
element in the middle cuts off everything before it (POPV of the alphabetically
later of two named stacks loses the earlier one).  A test is a stated belief
that both outcomes are possible (Engler et al.); the rule reports a belief no
store supports."""
from core import *
from .common import *


def run(chk, facts, P, rule='C13-R10'):
    chk.rule(rule, 'every local pointer that a function initialises with NULL and later tests or dereferences receives a '
             'non-NULL value on some path (assignment, or its address is handed out): a predecessor pointer that is never '
             'advanced makes the "head or link" decision of an unlink always choose the head', min_instances=40)
    n = 0
    for f in P.all_funcs():
        if f.entry is None:
            continue
        ptrs = {k for k, v in f.locals.items() if v.get('ptr') and not v.get('arr')}
        if not ptrs:
            continue
        null_store, other_store, used = {}, set(), {}
        for b, blk in f.blocks.items():
            for ln, ex in blk['elems']:
                for m in walk(ex):
                    if not isinstance(m, (list, tuple)) or not m:
                        continue
                    if m[0] == 'decl' and m[1] in ptrs:
                        if m[2] is None:
                            pass                         # declaration without initialiser: no store
                        elif const_val(nocast(m[2])) == 0:
                            null_store.setdefault(m[1], ln)
                        else:
                            other_store.add(m[1])
                    elif is_assign(m):
                        t = nocast(m[2])
                        if t[0] == 'l' and t[1] in ptrs:
                            if m[1] == '=' and const_val(nocast(m[3])) == 0:
                                null_store.setdefault(t[1], ln)
                            else:
                                other_store.add(t[1])
                    elif is_incdec(m):
                        t = nocast(m[2])
                        if t[0] == 'l' and t[1] in ptrs:
                            other_store.add(t[1])
                    elif m[0] == 'u' and m[1] == '&':
                        r = lv_root(m[2])
                        t = nocast(m[2])
                        if t[0] == 'l' and t[1] in ptrs:
                            other_store.add(t[1])        # address handed out: may be written elsewhere
                    elif m[0] == 'm' and nocast(m[1])[0] == 'l' and nocast(m[1])[1] in ptrs:
                        used.setdefault(nocast(m[1])[1], ln)
                    elif m[0] == 'u' and m[1] in ('!', '*') and nocast(m[2])[0] == 'l' and nocast(m[2])[1] in ptrs:
                        used.setdefault(nocast(m[2])[1], ln)
            c = blk.get('cond')
            if c is not None:
                for m in walk(c):
                    if isinstance(m, (list, tuple)) and len(m) == 2 and m[0] == 'l' and m[1] in ptrs:
                        used.setdefault(m[1], 0)
        for v in sorted(null_store):
            if v not in used:
                continue
            n += 1
            ok = v in other_store
            chk.ob(rule, '%s:%s:%s' % (f.unit.name, f.name, v), ok, f.loc(null_store[v]),
                   'receives a non-NULL value' if ok else
                   '%s is set to NULL and then tested or dereferenced, but no statement of %s() ever gives it another value: '
                   'the test is always decided the same way (a predecessor pointer that is not advanced in the search loop '
                   'makes an unlink rewrite the list head and drop every element before the one removed)' % (v, f.name))
    return n
