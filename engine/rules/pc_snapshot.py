"""Stale snapshots of the program counter (C10-R13, reused as C09-R10).

A local that holds EProgCounter()/ProgCounter() (possibly with arithmetic on
it) is a snapshot.  Between taking it and using it no function may run that
can advance the counter (any function from which a store to PCs[] is
reachable), because the use then computes with an address the line no longer
has: `CurrPC = EProgCounter(); InsertPadding(..); NewPC = round(CurrPC)`.
The one legitimate use of an old value, LabelModify(old, new) after padding,
is the listed exception."""
from core import *
from .common import *

EXCEPTIONS = {
    'asmcode.c:InsertPadding:OldValue': 'the address before the pad byte is what LabelModify() compares the label with; '
                                        'the new address is read afresh in the same call',
}


def pc_writers(P):
    W = set()
    for f in P.all_funcs():
        if f.entry is None:
            continue
        for b, i, ln, m in f.nodes():
            if is_assign(m) or is_incdec(m):
                t = nocast(m[2])
                if t[0] == 'i' and nocast(t[1]) in (('g', 'PCs'), ('gs', 'PCs')):
                    W.add(f)
    if len(W) < 5:
        raise AnalysisBroken('only %d functions store into PCs[]' % len(W))
    callers = P.callers()
    TW = set(W)
    work = list(W)
    while work:
        g = work.pop()
        for c in callers.get(g, ()):
            if c not in TW:
                TW.add(c)
                work.append(c)
    return TW


def _pc_call(e):
    e = nocast(e)
    return e[0] == 'call' and callee_name(e) in ('EProgCounter', 'ProgCounter')


def run(chk, facts, rule, unit_ok=None, min_instances=20):
    chk.rule(rule, 'a local that caches EProgCounter()/ProgCounter() is not used after a call that can advance the counter '
             '(a function from which a store to PCs[] is reachable): the cached address is no longer the line\'s address',
             min_instances=min_instances)
    P = facts.program('asl')
    TW = pc_writers(P)
    n = 0
    for f in P.all_funcs():
        if f.entry is None or (unit_ok is not None and not unit_ok(f.unit.name)):
            continue
        defs = {}
        for b, i, ln, m in f.nodes():
            if is_assign(m) and nocast(m[2])[0] == 'l':
                defs.setdefault(nocast(m[2]), []).append((b, i, ln, m))
        succ = f.succs()
        for L, ds in sorted(defs.items()):
            if not all(d[3][1] == '=' and any(_pc_call(x) for x in walk(d[3][3])) for d in ds):
                continue
            uses = [(b, i, ln) for b, i, ln, m in f.nodes() if nocast(m) == L and not any(
                (b, i) == (d[0], d[1]) for d in ds)]

            def advancing(ex):
                for x in walk_own(ex):
                    if x[0] == 'call' and callee_name(x):
                        g = P.resolve(f.unit, callee_name(x))
                        if g in TW:
                            return callee_name(x)
                return None
            bad = None
            legit = False
            for (db, di, dln, dm) in ds:
                seen = set()
                work = [(db, di + 1, None)]
                while work and not bad:
                    bb, st, w = work.pop()
                    if (bb, st, w) in seen:
                        continue
                    seen.add((bb, st, w))
                    els = f.blocks[bb]['elems']
                    stop = False
                    for j in range(st, len(els)):
                        if any((bb, j) == (d[0], d[1]) for d in ds):
                            stop = True            # redefined: a fresh snapshot
                            break
                        if w and any((bb, j) == (u[0], u[1]) for u in uses):
                            # the one legitimate stale use: the "old address" argument of LabelModify(old, new)
                            if all(x[0] != 'call' or callee_name(x) != 'LabelModify' or not x[2] or nocast(x[2][0]) != L
                                   for x in walk_own(els[j][1])) or \
                                    sum(1 for x in walk(els[j][1]) if isinstance(x, (list, tuple)) and len(x) == 2 and tuple(x) == L) != 1:
                                bad = (w, els[j][0], dln)
                                break
                            legit = True
                        ww = advancing(els[j][1])
                        if ww:
                            w = ww
                    if stop or bad:
                        continue
                    for t, l in succ.get(bb, ()):
                        work.append((t, 0, w))
                if bad:
                    break
            n += 1
            key = '%s:%s:%s' % (f.unit.name, f.name, L[1])
            ok = bad is None
            why = 'no counter-advancing call between snapshot and use (%d uses)' % len(uses)
            if ok and legit:
                why = 'used after the advance only as the old address handed to LabelModify(old, new)'
            if not ok:
                why = '%s holds the program counter read at line %d and is used at line %d after %s(), which can advance the ' \
                      'counter: the statement computes with the address before the advance (e.g. before the pad byte)' % (
                          L[1], bad[2], bad[1], bad[0])
            chk.ob(rule, key, ok, f.loc(ds[0][2]), why)
    return n
