"""C05 — P2BIN writes the memory image described by the code file (structural
clauses).

R1 the CPU filter is applied to the record's CPU id (binding rule, all tools)
R2 granularity / lane divisors are non-zero (C03-R1 restricted to p2bin.c)
R3 the target is pre-filled before any record is copied
R4 the overlap warning is raised iff AddChunk() reports an overlap
R5 the lane divisor only takes the table constants 1/2/4
R6 everything OpenTarget() reads that only the measuring pass computes is
   computed on all paths before OpenTarget()
"""
import os, re
from core import *
from .common import *
from . import prove


UNITS_P2BIN = {
    'InpStart': 'A', 'ErgStart': 'A', 'ErgStop': 'A', 'StartAdr': 'A', 'StopAdr': 'A', 'Offset': 'A', 'Adr': 'A',
    'EndAdr': 'A', 'EntryAdr': 'A',
    'InpLen': 'B', 'Length': 'B', 'ErgLen': 'B', 'TransLen': 'B', 'ResLen': 'B', 'NextPos': 'B', 'SumLen': 'B',
    'RealFileLen': 'B', 'StartHeader': 'B', 'AHeader': 'B', 'Rest': 'B', 'Trans': 'B',
    'Gran': 'G', 'MaxGran': 'G', 'SizeDiv': '1', 'ANDMask': '1', 'ANDEq': '1',
}
UNIT_FUNCS = {'ftell': 'B', 'FileSize': 'B'}
UNIT_EXC = {
    'p2bin.c:ProcessFile:ErgStart+=':
        'ErgStart is advanced by a byte count, but only its value modulo the lane mask (<= 3) is used afterwards and '
        'every full chunk is BufferSize = 4096 bytes, a multiple of 4 for every granularity: no effect on the output',
}


def rsc_macros(facts, name):
    p = os.path.join(facts.dir, 'include', name)
    out = {}
    if not os.path.exists(p):
        raise AnalysisBroken('generated header %s missing' % name)
    for ln in open(p, errors='replace'):
        m = re.match(r'#define\s+(Num_\w+)\s+(\d+)', ln)
        if m:
            out[m.group(1)] = int(m.group(2))
    return out


def filter_binding(chk, facts, rule, exes):
    """FilterOK(x): x is the variable bound to ReadRecordHeader's CPU
    out-parameter in the same function."""
    seen = set()
    for exe in exes:
        P = facts.program(exe)
        rrh = P.gfuncs.get('ReadRecordHeader')
        if rrh is None:
            raise AnalysisBroken('ReadRecordHeader not found')
        pnames = [p['name'] for p in rrh.params]
        if 'CPU' not in pnames:
            raise AnalysisBroken('ReadRecordHeader has no CPU parameter')
        ci = pnames.index('CPU')
        for f in P.all_funcs():
            if f.qname in seen:
                continue
            calls = list(f.calls('FilterOK'))
            if not calls:
                continue
            seen.add(f.qname)
            cpuvars = set()
            for b, i, ln, n in f.calls('ReadRecordHeader'):
                a = strip(n[2][ci])
                if a[0] == 'u' and a[1] == '&':
                    cpuvars.add(a[2])
            for b, i, ln, n in calls:
                a = nocast(n[2][0])
                key = '%s:%s:FilterOK' % (f.unit.name, f.name)
                ok = a in cpuvars
                chk.ob(rule, key, ok, f.loc(ln),
                       'argument %s is the CPU id read by ReadRecordHeader' % show(a) if ok else
                       'FilterOK(%s): the filter is applied to %s, but ReadRecordHeader stores the record\'s CPU id in %s '
                       '(-f then compares the record-type byte with the CPU list and drops every record)'
                       % (show(a), show(a), ', '.join(show(v) for v in cpuvars) or '?'))


def selection_rule(chk, facts, rule, unit, fn):
    """Every update of state that outlives the measuring function is made only
    for records that the copy would transfer: under FilterOK(cpu) and the
    segment selection (directly, or through a flag computed from both)."""
    f = facts.func(unit, fn)
    selvars = {'ValidSegment', 'ValidSegs'}

    def is_filter(e):
        return isinstance(e, (list, tuple)) and len(e) > 1 and e[0] == 'call' and callee_name(e) == 'FilterOK'

    def defs_of(v):
        out = []
        for b, i, ln, m in f.nodes():
            if is_assign(m) and strip(m[2]) == v:
                out.append(m[3])
            elif m[0] in ('decl', 'sdecl') and v[0] == 'l' and m[1] == v[1] and m[2] is not None:
                out.append(m[2])
        return out
    # locals computed from both parts of the selection
    both, filt, seg = set(), set(), set()
    for n_, t in f.locals.items():
        v = ('l', n_)
        ds = defs_of(v)
        if not ds:
            continue
        hf = all(mentions(d, is_filter) for d in ds)
        hs = all(mentions(d, lambda x: var_is(x, selvars, GLOBKINDS + ('l', 'ls'))) for d in ds)
        if hf:
            filt.add(v)
        if hs:
            seg.add(v)

    def filt_atom(a):
        return (a[0] == 'nz' and (is_filter(a[1]) or a[1] in filt))

    def seg_atom(a):
        if a[0] == 'nz' and (a[1] in seg or mentions(a[1], lambda x: var_is(x, selvars, GLOBKINDS + ('l', 'ls')))):
            return True
        return a[0] == 'cmp' and a[1] == '==' and (mentions(a[2], lambda x: var_is(x, selvars, GLOBKINDS + ('l', 'ls'))) or mentions(a[3], lambda x: var_is(x, selvars, GLOBKINDS + ('l', 'ls'))))
    n = 0
    P = facts.program(unit[:-2])
    for (k, how, ln, node, b, i) in P.writes(f):
        if how not in ('=', 'op', 'elem') or k.split(':')[-1] in selvars:
            continue
        n += 1
        ok1, w1 = f.guarded(b, i, lambda l: edge_has_atom(l, filt_atom))
        ok2, w2 = f.guarded(b, i, lambda l: edge_has_atom(l, seg_atom))
        ok = ok1 and ok2
        chk.ob(rule, '%s:%s:%s' % (unit, fn, k.split(':')[-1]), ok, f.loc(ln),
               'updated only for selected records' if ok else
               '%s is updated for records that the %s selection excludes (path %s): the image is sized or placed by '
               'records that are not transferred' % (k.split(':')[-1], 'CPU filter' if not ok1 else 'segment', ' '.join((w1 or w2)[-5:])))
    return n


def run(chk, facts, info):
    from . import c05_overlap
    c05_overlap.rule_r11(chk, facts)
    c05_overlap.rule_r12(chk, facts)
    P = facts.program('p2bin')
    chk.rule('C05-R1', 'the argument of FilterOK() is the variable bound to ReadRecordHeader()\'s CPU out-parameter '
             '(p2bin, p2hex, pbind)', min_instances=5)
    filter_binding(chk, facts, 'C05-R1', ['p2bin', 'p2hex', 'pbind'])

    chk.rule('C05-R2', 'every non-constant divisor in p2bin.c (record granularity, lane divisor) is provably non-zero',
             min_instances=3)
    for f in P.all_funcs():
        if f.unit.name != 'p2bin.c':
            continue
        agg = {}
        for bid, i, ln, n in f.nodes():
            if n[0] == 'b' and n[1] in ('/', '%', '/=', '%=') and const_val(n[3]) is None:
                ok, why = prove.nonzero(P, f, bid, i, n[3])
                key = 'p2bin.c:%s:%s' % (f.name, show(n[3]))
                a = agg.setdefault(key, [True, why, f.loc(ln)])
                if not ok:
                    agg[key] = [False, why, f.loc(ln)]
        for key, (ok, why, loc) in agg.items():
            chk.ob('C05-R2', key, ok, loc, why[:400])

    mainf = facts.func('p2bin.c', 'main')
    chk.rule('C05-R3', 'in main(), OpenTarget() (pre-fill with the fill value) precedes every record copy on all paths',
             min_instances=1)

    def is_call_to(name):
        return lambda ex: any(m[0] == 'call' and callee_name(m) == name for m in walk_own(ex))

    def passes_fn(fn):
        def pred(ex):
            for m in walk_own(ex):
                if m[0] == 'call' and any(nocast(a) == ('fn', fn) for a in m[2]):
                    return True
                if m[0] == 'call' and callee_name(m) == fn:
                    return True
            return False
        return pred
    ncopy = 0
    for b, i, ln, n in mainf.nodes():
        if n[0] == 'call' and (callee_name(n) == 'ProcessFile' or any(nocast(a) == ('fn', 'ProcessFile') for a in n[2])):
            ncopy += 1
            ok, w = mainf.guarded(b, i, lambda l: False, is_call_to('OpenTarget'))
            chk.ob('C05-R3', 'p2bin.c:main:copy@%d' % ncopy, ok, mainf.loc(ln),
                   'OpenTarget() dominates' if ok else 'record copy reachable without OpenTarget(): ' + ' '.join(w[-5:]))
    if not ncopy:
        raise AnalysisBroken('no record-copy call found in p2bin main')

    # R4 overlap message <-> AddChunk result
    chk.rule('C05-R4', 'the overlap warning is printed exactly on the edge on which AddChunk(&UsedList, ...) reports '
             'an overlap (p2bin and p2hex)', min_instances=2)
    for exe, unit in (('p2bin', 'p2bin.c'), ('p2hex', 'p2hex.c')):
        macros = rsc_macros(facts, unit.replace('.c', '.rsc'))
        mno = macros.get('Num_ErrMsgOverlap')
        if mno is None:
            raise AnalysisBroken('Num_ErrMsgOverlap not in ' + unit)
        Pq = facts.program(exe)
        n_msg = 0
        for f in Pq.all_funcs():
            if f.unit.name != unit:
                continue

            def is_overlap_print(ex):
                for m in walk_own(ex):
                    if m[0] == 'call' and callee_name(m) in ('getmessage', 'catgetmessage'):
                        if any(const_val(a) == mno for a in m[2]):
                            return True
                return False

            def addchunk_atom(a):
                return (a[0] == 'nz' and isinstance(a[1], tuple) and a[1][0] == 'call' and a[1][1] == ('fn', 'AddChunk')
                        and mentions(a[1], lambda m: var_is(m, {'UsedList'})))
            for b, i, ln, ex in f.elems():
                if is_overlap_print(ex):
                    n_msg += 1
                    ok, w = f.guarded(b, i, lambda l: edge_has_atom(l, addchunk_atom))
                    chk.ob('C05-R4', '%s:%s:overlap-message' % (unit, f.name), ok, f.loc(ln),
                           'guarded by AddChunk(&UsedList,..) != 0' if ok else
                           'overlap message reachable without an overlap reported by AddChunk: ' + ' '.join(w[-5:]))
            # converse: the true edge of the AddChunk test leads to the message
            for s, d, l in f.edges():
                if l is not None and l[0] == 'T' and any(addchunk_atom(a) for a in atoms(l[1], True)):
                    # from block d every path to exit passes the print
                    blk = f.blocks[d]
                    hit = any(is_overlap_print(ex) for ln2, ex in blk['elems'])
                    if not hit:
                        ok, w = f.must_pass(d, -1, is_overlap_print)
                    else:
                        ok = True
                    chk.ob('C05-R4', '%s:%s:overlap-reported' % (unit, f.name), ok, f.loc(),
                           'overlap edge always prints the warning' if ok else 'AddChunk overlap result is dropped on some path')
        if not n_msg:
            chk.ob('C05-R4', '%s:overlap-message' % unit, False, unit, 'overlap message is never printed')

    # R5 lane divisor constants
    chk.rule('C05-R5', 'SizeDiv is only ever assigned 1 or an element of a constant table whose entries are in {1,2,4}',
             min_instances=2)
    ws = P.write_index().get('p2bin.c:SizeDiv', [])
    if not ws:
        raise AnalysisBroken('no writers of SizeDiv found')
    for (f, how, ln, node, b, i) in ws:
        key = 'p2bin.c:%s:SizeDiv=%s' % (f.name, show(node[3]) if is_assign(node) else how)
        ok, det = False, ''
        if how == '=':
            r = nocast(node[3])
            c = const_val(r)
            if c is not None:
                ok = c in (1, 2, 4)
                det = 'constant %s' % c
            elif r[0] == 'i' and r[1][0] in GLOBKINDS + ('ls',):
                gi = P.ginfo(f, r[1][0], r[1][1])
                vals = None
                tk = P.gkey(f, r[1][0], r[1][1])
                if gi and gi.get('init') is not None and not P.write_index().get(tk):
                    ini = strip(gi['init'])
                    if ini[0] == 'il':
                        vals = [const_val(x) for x in ini[1]]
                ok = vals is not None and all(v in (1, 2, 4) for v in vals)
                det = 'table %s = %s' % (r[1][1], vals)
            else:
                det = 'value %s not understood' % show(r)
        else:
            det = 'modified by ' + how
        chk.ob('C05-R5', key, ok, f.loc(ln), det)

    # R6 measured inputs of OpenTarget
    chk.rule('C05-R6', 'every global that OpenTarget() reads and MeasureFile() computes is computed on all paths '
             'before OpenTarget(): the measuring pass runs unless the edge taken shows that the variable\'s writes in '
             'MeasureFile are disabled (StartAuto/StopAuto false)', min_instances=2)
    ot = facts.func('p2bin.c', 'OpenTarget')
    mf = facts.func('p2bin.c', 'MeasureFile')
    reads = {k for f2 in P.closure([ot]) for (k, ln, n, b, i) in P.reads(f2)}
    mod = {}
    for (k, how, ln, n, b, i) in P.writes(mf):
        mod.setdefault(k, []).append((ln, n, b, i))
    shared = sorted(k for k in mod if k in reads)
    if 'p2bin.c:MaxGran' not in reads:
        raise AnalysisBroken('OpenTarget no longer reads MaxGran: rule anchors changed')
    flags = [('gs', 'StartAuto'), ('gs', 'StopAuto')]
    for b0, i0, ln0, n0 in mainf.calls('OpenTarget'):
        for k in shared:
            # flags that enable every write of k inside MeasureFile
            conds = [t for t in flags if all(mf.guarded(b, i, nz_guard(t))[0] for (ln, n, b, i) in mod[k])]
            off = [t for t in flags if t not in conds]

            # specialise main's CFG to the configuration "conds true, other flags false"
            def edge_ok(s_, d_, l, conds=conds, off=off):
                if l is None:
                    return True
                for a in (atoms(l[1], l[0] == 'T') if l[0] in ('T', 'F') else []):
                    if a[0] == 'nz' and a[1] in off:
                        return False
                    if a[0] == 'z' and a[1] in conds:
                        return False
                return True
            seen = mainf.reach_forward([mainf.entry], edge_ok)
            reach_measure = False
            for bb in seen:
                if any(passes_fn('MeasureFile')(ex) for ln2, ex in mainf.blocks[bb]['elems']):
                    reach_measure = True
            reach_open = b0 in seen
            ok = reach_measure or not reach_open
            cfgtxt = ', '.join(['%s=1' % t[1] for t in conds] + ['%s=0' % t[1] for t in off])
            chk.ob('C05-R6', 'p2bin.c:main:%s' % k.split(':')[-1], ok, mainf.loc(ln0),
                   ('measuring pass reachable under [%s]' % cfgtxt) if ok else
                   '%s is computed only by MeasureFile and read by OpenTarget, but under the option configuration [%s] main '
                   'reaches OpenTarget and never the measuring pass (explicit -r range on a word-granular file: image too '
                   'short, gap not filled)' % (k.split(':')[-1], cfgtxt))
    # R7 dimension check
    chk.rule('C05-R7', 'p2bin.c: address-unit quantities (record/window addresses) and byte quantities (lengths, file '
             'offsets) are only combined through the granularity: assignments, comparisons, fseek offsets, fread/fwrite '
             'lengths and AddChunk ranges have matching dimensions', min_instances=25)
    from . import units
    n7 = 0
    for fn in ('ProcessFile', 'MeasureFile', 'OpenTarget'):
        n7 += units.check_function(chk, 'C05-R7', facts.func('p2bin.c', fn), UNITS_P2BIN, UNIT_EXC, UNIT_FUNCS)
    chk.rule('C05-R10', 'p2bin.c OpenTarget(): the buffer that the pre-fill loop writes holds the fill value in all of its '
             'bytes: the most recent store into Buffer before that fwrite() is memset(Buffer, FillVal, BufferSize) on '
             'every path (the zeroed entry-address header is written before, not after, the buffer is filled)',
             min_instances=1)
    ot_ = facts.func('p2bin.c', 'OpenTarget')

    def bufwrite(ex):
        for m in walk_own(ex):
            if m[0] == 'call' and callee_name(m) in ('memset', 'memcpy', 'fread') and m[2] and \
                    mentions(m[2][0], lambda x: var_is(x, {'Buffer'})):
                if callee_name(m) == 'memset' and mentions(m[2][1], lambda x: var_is(x, {'FillVal'})) and \
                        strip(m[2][0])[0] in ('gs', 'g') and (const_val(m[2][2]) or 0) >= 256:
                    return 'fill'
                return 'other@%s' % m[-1] if isinstance(m[-1], int) else 'other'
            if is_assign(m) and strip(m[2])[0] == 'i' and mentions(strip(m[2])[1], lambda x: var_is(x, {'Buffer'})):
                return 'other'
        return None
    n10 = 0
    for (h, s0) in ot_.loops():
        body = ot_.loop_body(h, s0)
        for b, i, ln, c in ot_.calls('fwrite'):
            if b in body and mentions(c[2][0], lambda x: var_is(x, {'Buffer'})):
                n10 += 1
                lw = ot_.last_writers(b, i, bufwrite)
                ok = lw == {'fill'}
                chk.ob('C05-R10', 'p2bin.c:OpenTarget:prefill-buffer', ok, ot_.loc(ln),
                       'buffer filled with FillVal' if ok else
                       'the pre-fill writes a buffer whose last store can be %s: unused image bytes do not all read as the '
                       'fill value' % ', '.join(sorted(lw)))
    if not n10:
        raise AnalysisBroken('pre-fill loop of OpenTarget not found')
    chk.rule('C05-R8', 'p2bin.c MeasureFile(): the measured start/stop address and the largest granularity are updated '
             'only under FilterOK(cpu) and the segment selection, i.e. for exactly the records ProcessFile() copies',
             min_instances=3)
    if selection_rule(chk, facts, 'C05-R8', 'p2bin.c', 'MeasureFile') < 3:
        raise AnalysisBroken('MeasureFile no longer updates start, stop and granularity')
    chk.rule('C05-R9', 'p2bin.c ProcessFile(): the byte-lane filter of the copy loop and the position the record is '
             'written to depend on the same lane parameters: every lane global (ANDMask, ANDEq) read by the filter '
             'condition is also read by the computation of the fseek() offset on the target file (directly or in a '
             'function it calls) - an offset that only divides by the lane divisor places a record that starts between '
             'two selected bytes one slot too low', min_instances=1)
    pf = facts.func('p2bin.c', 'ProcessFile')
    lane = {'p2bin.c:ANDMask', 'p2bin.c:ANDEq'}
    filt_reads = set()
    for bid, bl in pf.blocks.items():
        c = bl.get('cond')
        if c is not None:
            ks = {P.gkey(pf, m[0], m[1]) for m in walk(c) if isinstance(m, (list, tuple)) and m and m[0] in ('g', 'gs')}
            if ks & lane:
                filt_reads |= ks & lane
    if not filt_reads:
        # the selecting loop may live in a helper ProcessFile() calls
        for b, i, ln, c in pf.calls():
            g = pf.unit.funcs.get(callee_name(c) or '')
            if g is None or g is pf or g.entry is None:
                continue
            for bid, bl in g.blocks.items():
                cnd = bl.get('cond')
                if cnd is not None:
                    ks = {P.gkey(g, m[0], m[1]) for m in walk(cnd) if isinstance(m, (list, tuple)) and m and m[0] in ('g', 'gs')}
                    filt_reads |= ks & lane
    if not filt_reads:
        raise AnalysisBroken('lane filter of ProcessFile not found')
    n9 = 0
    for b, i, ln, c in pf.calls('fseek'):
        if not mentions(c[2][0], lambda x: var_is(x, {'TargFile'})):
            continue
        n9 += 1
        off = c[2][1]
        rd = {P.gkey(pf, m[0], m[1]) for m in walk(off) if isinstance(m, (list, tuple)) and m and m[0] in ('g', 'gs')}
        for m in walk(off):
            if isinstance(m, (list, tuple)) and m and m[0] == 'call' and callee_name(m):
                g = P.resolve(pf.unit, callee_name(m))
                if g is not None:
                    for f2 in P.closure([g]):
                        rd |= {k for (k, *_r) in P.reads(f2)}
        # locals in the offset: take their definitions
        for m in walk(off):
            if isinstance(m, (list, tuple)) and m and m[0] == 'l':
                for b2, i2, l2, m2 in pf.nodes():
                    if is_assign(m2) and strip(m2[2]) == ('l', m[1]):
                        rd |= {P.gkey(pf, x[0], x[1]) for x in walk(m2[3]) if isinstance(x, (list, tuple)) and x and x[0] in ('g', 'gs')}
        missing = sorted(k.split(':')[-1] for k in filt_reads - rd)
        ok = not missing
        chk.ob('C05-R9', 'p2bin.c:ProcessFile:placement-vs-filter', ok, pf.loc(ln),
               'offset computed from %s' % ', '.join(sorted(k.split(':')[-1] for k in rd & (lane | {'p2bin.c:SizeDiv'}))) if ok else
               'the copy loop selects bytes by (address & ANDMask) == ANDEq, but the target offset does not depend on %s: '
               'a record that does not start on a selected byte is written one slot too low (-m EVEN, record at an odd '
               'address)' % ', '.join(missing))
    if not n9:
        raise AnalysisBroken('target positioning of ProcessFile not found')
    chk.note('Decided: filter binding, divisors, pre-fill order, overlap-warning control dependence, lane divisor '
             'constants, measured inputs of the pre-fill. Not decided: window, lane and address arithmetic per byte.')
