"""C03 rules R22-R25, written for defects reported by seed authors about the
unchanged tree and replayed here.

R22  data statements: a loop over the arguments of a statement that stores
     into the shared code buffer (BAsmCode/WAsmCode/DAsmCode at an index
     that depends on CodeLen) and advances CodeLen asks SetMaxCodeLen() for
     room - in the loop or before it.  The buffer starts at 256 bytes and a
     statement may have 476 arguments.
R23  a failed read of a record header does not return to the caller: in a
     function that fills its out-parameters with fread() and returns no
     status, every failure edge ends in a call that does not return.
R24  values with an owned buffer are not duplicated by structure
     assignment: a TempResult that may hold a string is copied with
     as_tempres_copy(); '=' between two such records aliases the string
     buffer (double free).
R25  products that size the code buffer are computed in the large integer
     type: an argument of SetMaxCodeLen() contains no multiplication or
     shift whose operands are all narrower than the parameter.
"""
from core import *
from .common import *

CODE = {'BAsmCode', 'WAsmCode', 'DAsmCode'}


def _is_g(m, names):
    return isinstance(m, (list, tuple)) and len(m) > 1 and m[0] in GLOBKINDS and m[1] in names


def rule_r22(chk, facts, rule='C03-R22'):
    chk.rule(rule, 'data statements: a loop over the statement\'s arguments that stores into the code buffer at an index '
             'depending on CodeLen and advances CodeLen calls SetMaxCodeLen() (in the loop, or in the function before it)',
             min_instances=15)
    P = facts.program('asl')
    n = 0
    # SetMaxCodeLen() itself or a helper that calls it
    growers = {'SetMaxCodeLen'}
    for f in P.all_funcs():
        if f.entry is not None and any(True for _ in f.calls('SetMaxCodeLen')) and len(f.blocks) <= 12:
            growers.add(f.name)
    for f in P.all_funcs():
        if f.entry is None:
            continue
        k = 0
        for h, s0 in f.loops():
            body = f.loop_body(h, s0)
            conds = [f.blocks[b].get('cond') for b in body if f.blocks[b].get('cond') is not None]
            if not any(any(_is_g(m, {'ArgCnt'}) for m in walk(cc)) for cc in conds):
                # forallargs(): the loop runs a pointer up to ArgStr + ArgCnt
                if not any(any(_is_g(m, {'ArgStr'}) for m in walk(cc)) for cc in conds):
                    continue
            stores = grows = guard = False
            ln0 = None
            for b in body:
                for ln, ex in f.blocks[b]['elems']:
                    for m in walk_own(ex):
                        if is_assign(m):
                            t = nocast(m[2])
                            if t[0] == 'i' and _is_g(nocast(t[1]), CODE) and any(_is_g(x, {'CodeLen'}) for x in walk(t[2])):
                                stores = True
                                ln0 = ln0 or ln
                            if _is_g(t, {'CodeLen'}) and m[1] == '+=':
                                grows = True
                        if is_incdec(m) and _is_g(nocast(m[2]), {'CodeLen'}):
                            grows = True
                        if m[0] == 'call' and callee_name(m) in growers:
                            guard = True
            if not (stores and grows):
                continue
            n += 1
            k += 1
            ok = guard or any(True for _ in f.calls(tuple(growers)))
            chk.ob(rule, '%s:%s:arg-loop#%d' % (f.unit.name, f.name, k), ok, f.loc(ln0),
                   'asks for room' if ok else
                   '%s() stores one element per argument into the code buffer and never calls SetMaxCodeLen(): the buffer '
                   'has 256 bytes until some other statement grew it, a statement may have 476 arguments' % f.name)
    return n


def rule_r23(chk, facts, rule='C03-R23'):
    chk.rule(rule, 'tools: a function that fills its out-parameters from fread() and returns no status does not return '
             'when the read failed: every "fread() != n" edge ends in a call that does not return (a truncated file would '
             'otherwise be processed with the values of the previous record, for ever)', min_instances=2)
    seen = set()
    n = 0
    for exe in ('plist', 'pbind', 'p2bin', 'p2hex', 'alink'):
        P = facts.program(exe)
        for f in P.all_funcs():
            if f.entry is None or f.qname in seen or f.unit.name != 'toolutils.c':
                continue
            seen.add(f.qname)
            rets = [m for b, i, ln, m in f.nodes() if m[0] == 'ret' and m[1] is not None]
            if rets:
                continue                      # reports the failure to its caller
            outs = {('p', p['name']) for p in f.params if p['type'].get('ptr')}
            for s_, t, l in f.edges():
                if l is None or l[0] not in ('T', 'F'):
                    continue
                hit = None
                for a in atoms(l[1], l[0] == 'T'):
                    if a[0] == 'cmp' and a[1] == '!=' and isinstance(a[2], tuple) and a[2] and a[2][0] == 'call' and \
                            a[2][1] == ('fn', 'fread'):
                        hit = a[2]
                if hit is None:
                    continue
                # only reads into an out-parameter
                dst = hit[2][0] if len(hit) > 2 and hit[2] else None
                if dst is None or nocast(dst) not in outs:
                    continue
                n += 1
                reach = f.reach_forward([t])
                ok = f.exit not in reach
                chk.ob(rule, '%s:%s:fread(%s)' % (f.unit.name, f.name, show(nocast(dst))), ok,
                       f.loc(f.blocks[s_]['term'][1] if f.blocks[s_].get('term') else None),
                       'failure does not return' if ok else
                       'when fread() delivers nothing and errno is 0 (plain end of file) ChkIO() comes back and %s() returns '
                       'with %s unchanged: the caller processes the previous record again' % (f.name, show(nocast(dst))))
    return n


def rule_r24(chk, facts, rule='C03-R24'):
    chk.rule(rule, 'a value record that can own a string buffer (TempResult: the value of a symbol, of a stack entry, of an '
             'expression) is never duplicated by structure assignment between two live records; copies go through '
             'as_tempres_copy()/as_tempres_copy_value()', min_instances=1)
    P = facts.program('asl')
    n = 0
    ncopy = 0
    for f in P.all_funcs():
        if f.entry is None:
            continue
        for b, i, ln, c in f.calls(('as_tempres_copy', 'as_tempres_copy_value')):
            ncopy += 1
        for b, i, ln, m in f.nodes():
            if not (is_assign(m) and m[1] == '='):
                continue
            l, r = nocast(m[2]), nocast(m[3])

            def is_tr(x):
                return x[0] == 'm' and (x[2].endswith('.SymWert') or x[2].endswith('sSymbolStackEntry.Contents') or
                                        x[2].endswith('TSymbolStackEntry.Contents') or x[2].split('.')[-1] == 'SymWert')
            if is_tr(l) and (is_tr(r) or r[0] in ('l', 'p', 'u')) or (is_tr(r) and l[0] == 'm'):
                # only whole-record assignments (the member itself, not a field of it)
                n += 1
                chk.ob(rule, '%s:%s:%s=%s' % (f.unit.name, f.name, show(l)[:30], show(r)[:30]), False, f.loc(ln),
                       'the record %s is assigned as a whole: if it holds a string, both records now own the same buffer and '
                       'the second as_tempres_free()/set frees it again (PUSHV/POPV of a string symbol)' % show(r))
    # positive evidence: the copies that exist
    chk.ob(rule, 'asl:as_tempres_copy-sites', True, 'tempresult.c', '%d copies through as_tempres_copy*()' % ncopy)
    return n + 1


def rule_r25(chk, facts, rule='C03-R25'):
    chk.rule(rule, 'the length handed to SetMaxCodeLen() is not computed in a narrower type than its parameter: a '
             'multiplication or left shift inside the argument has an operand of the parameter\'s width (otherwise a '
             'repeat factor times an element size wraps and passes the check)', min_instances=5)
    P = facts.program('asl')
    g = facts.func('asmdef.c', 'SetMaxCodeLen')
    pbits = abs(g.params[0]['type'].get('bits') or 0)
    n = 0
    for f in P.all_funcs():
        if f.entry is None:
            continue
        for b, i, ln, c in f.calls('SetMaxCodeLen'):
            if not c[2]:
                continue
            arg = c[2][0]
            for m in walk(arg):
                if not (isinstance(m, (list, tuple)) and m and m[0] == 'b' and m[1] in ('*', '<<')):
                    continue
                if const_val(m) is not None:
                    continue
                # constant factor times ArgCnt and the like cannot wrap
                vals = [const_val(m[2]), const_val(m[3])]
                other = m[3] if vals[0] is not None else (m[2] if vals[1] is not None else None)
                if other is not None and any(_is_g(x, {'ArgCnt'}) for x in walk(other)) and not any(
                        isinstance(x, (list, tuple)) and x and x[0] in ('l', 'p') for x in walk(other)):
                    continue
                # only products with a user-controlled 32-bit factor: a local filled through its address (the '[rep]'
                # factor of CutRep()) or assigned from the expression evaluator
                user = set()
                for b2, i2, l2, m2 in f.nodes():
                    if m2[0] == 'call':
                        for a in m2[2]:
                            a = nocast(a)
                            if a[0] == 'u' and a[1] == '&' and nocast(a[2])[0] == 'l':
                                user.add(nocast(a[2]))
                    if is_assign(m2) and m2[1] == '=' and nocast(m2[2])[0] == 'l' and nocast(m2[3])[0] == 'call' and \
                            (callee_name(nocast(m2[3])) or '').startswith('EvalStrIntExpression'):
                        t = nocast(m2[3])[2][1] if len(nocast(m2[3])[2]) > 1 else None
                        nm = t[1] if isinstance(t, (list, tuple)) and len(t) > 1 and isinstance(t[1], str) else ''
                        if nm.endswith('32'):
                            user.add(nocast(m2[2]))
                if not any(isinstance(x, (list, tuple)) and len(x) == 2 and tuple(x) in user and abs((f.locals.get(x[1]) or {}).get('bits') or 0) >= 32
                           for x in walk(m)):
                    continue
                n += 1
                w = _width(f, m)
                ok = w >= 64 and pbits >= 64
                chk.ob(rule, '%s:%s:%s' % (f.unit.name, f.name, show(m)[:40]), ok, f.loc(ln),
                       'computed in %d bits' % w if ok else
                       '%s is computed in %d bits and the parameter of SetMaxCodeLen() has %d: a large repeat factor wraps '
                       'to a small length, the check passes and the copy loop runs off the buffer' % (show(m)[:50], w, pbits))
    return n


def _width(f, e):
    """bit width in which the C expression e is evaluated (integer promotions aside): the widest operand"""
    e0 = e
    while isinstance(e, (list, tuple)) and e and e[0] in ('ref', 'cf'):
        e = e[1]
    k = e[0]
    if k == 'cast' and isinstance(e[2], int):
        return abs(e[2])
    if k == 'c':
        return 32
    if k == 'l':
        return abs((f.locals.get(e[1]) or {}).get('bits') or 32)
    if k == 'p':
        for p in f.params:
            if p['name'] == e[1]:
                return abs(p['type'].get('bits') or 32)
        return 32
    if k == 'b':
        return max(_width(f, e[2]), _width(f, e[3]), 32)
    if k == 'call':
        return 64 if callee_name(e) == 'strlen' else 32
    if k == 'm':
        return 64 if e[2].endswith('.len') else 32
    return 32


def run(chk, facts):
    rule_r22(chk, facts)
    rule_r23(chk, facts)
    rule_r24(chk, facts)
    rule_r25(chk, facts)
    rule_r26(chk, facts)
    rule_r27(chk, facts)
    rule_r28(chk, facts)
    rule_r29(chk, facts)
    rule_r30(chk, facts)


def rule_r26(chk, facts, rule='C03-R26'):
    chk.rule(rule, 'core modules and pseudo-instruction libraries: a memset()/memcpy() of non-constant length into the code '
             'buffer lies behind a SetMaxCodeLen() call or a comparison with the buffer\'s current size MaxCodeLen (the '
             'variable, not the upper limit MaxCodeLen_Max, which the buffer only reaches after growing)', min_instances=4)
    from .c03_bounds import is_generator
    P = facts.program('asl')
    growers = {'SetMaxCodeLen'}
    for f in P.all_funcs():
        if f.entry is not None and any(True for _ in f.calls('SetMaxCodeLen')) and len(f.blocks) <= 12:
            growers.add(f.name)
    n = 0
    for f in P.all_funcs():
        if f.entry is None or is_generator(f.unit.name):
            continue
        k = 0
        for b, i, ln, c in f.calls(('memset', 'memcpy', 'memmove')):
            if not any(_is_g(m, CODE) for m in walk(c[2][0])):
                continue
            L = nocast(c[2][2])
            if const_val(L) is not None:
                continue
            n += 1
            k += 1

            def fe(l):
                return edge_has_atom(l, lambda a: a[0] == 'cmp' and any(
                    isinstance(m, tuple) and len(m) > 1 and m[0] in GLOBKINDS and m[1] == 'MaxCodeLen' for x in (a[2], a[3]) for m in walk(x)))

            def el(ex):
                return any(m[0] == 'call' and callee_name(m) in growers for m in walk_own(ex))
            ok, w = f.guarded(b, i, fe, el)
            chk.ob(rule, '%s:%s:%s#%d' % (f.unit.name, f.name, callee_name(c), k), ok, f.loc(ln),
                   'behind a size check of the buffer' if ok else
                   '%s(code buffer, ..., %s) is reached on a path (%s) without SetMaxCodeLen() and without a comparison with '
                   'MaxCodeLen: the length can exceed the 256 bytes the buffer starts with' % (callee_name(c), show(L)[:30], ' '.join(w[-4:])))
    return n


def rule_r27(chk, facts, rule='C03-R27'):
    chk.rule(rule, 'a record that contains a value with an owned string buffer (symbol table entry) may be duplicated by '
             'structure assignment only if the copy\'s string pointer is given a fresh allocation afterwards on every path '
             'on which the value is a string - copying "into" the duplicate reuses the shared buffer, and both records free it',
             min_instances=1)
    P = facts.program('asl')
    n = 0
    for f in P.all_funcs():
        if f.entry is None or f.unit.name != 'asmpars.c':
            continue
        for b, i, ln, m in f.nodes():
            if not (is_assign(m) and m[1] == '='):
                continue
            l, r = nocast(m[2]), nocast(m[3])
            if not (l[0] == 'u' and l[1] == '*' and r[0] == 'u' and r[1] == '*'):
                continue
            dst = nocast(l[2])
            if dst[0] not in ('l', 'p'):
                continue
            t = (f.locals.get(dst[1]) or {}).get('t', '') if dst[0] == 'l' else ''
            if 'SymbolEntry' not in t:
                continue
            n += 1

            def fresh(ex, dst=dst):
                for x in walk_own(ex):
                    if is_assign(x) and x[1] == '=':
                        tl = nocast(x[2])
                        if tl[0] == 'm' and tl[2].endswith('.p_str') and any(isinstance(y, tuple) and y == dst for y in walk(tl)):
                            rr = nocast(x[3])
                            if rr[0] == 'call' and callee_name(rr) in ('malloc', 'calloc', 'as_strdup', 'strdup'):
                                return True
                return False

            def not_string(s_, t_, lab):
                # paths on which the value was found not to be a string need no buffer
                if lab is not None and lab[0] in ('T', 'F'):
                    for a in atoms(lab[1], lab[0] == 'T'):
                        if a[0] == 'cmp' and a[1] == '!=' and isinstance(a[2], tuple) and a[2] and a[2][0] == 'm' and a[2][2].endswith('.Typ'):
                            return False
                return True
            ok, w = f.must_pass(b, i, fresh, edge_ok=not_string)
            chk.ob(rule, '%s:%s:*%s=*%s' % (f.unit.name, f.name, dst[1], show(nocast(r[2]))), ok, f.loc(ln),
                   'string pointer re-allocated for the copy' if ok else
                   'after the structure copy the duplicate shares the string buffer of the original and no fresh buffer is '
                   'allocated for it (path %s): both entries free the same block when the symbol table is cleared '
                   '(GLOBAL name / name EQU "text" inside a SECTION)' % ' '.join(w[-4:]))
    return n


def rule_r28(chk, facts, rule='C03-R28'):
    chk.rule(rule, 'tools: the amount of a relative seek (fseek(.., SEEK_CUR)) that is computed from 32-bit values read from '
             'the file is not held in a signed 32-bit variable: a sum that wraps to a negative number seeks backwards and '
             'the same record is read again for ever', min_instances=5)
    FILLS = {'fread': (0,), 'Read2': (1,), 'Read4': (1,), 'Read8': (1,), 'ReadRecordHeader': (0, 1, 2, 3)}
    seen = set()
    n = 0
    for exe in ('plist', 'alink', 'p2bin', 'p2hex', 'pbind'):
        P = facts.program(exe)
        for f in P.all_funcs():
            if f.entry is None or f.qname in seen:
                continue
            seen.add(f.qname)
            ext = set()
            for b, i, ln, c in f.calls(tuple(FILLS)):
                for ai in FILLS[callee_name(c)]:
                    if ai < len(c[2]):
                        a = nocast(c[2][ai])
                        if a[0] == 'u' and a[1] == '&' and nocast(a[2])[0] == 'l':
                            ext.add(nocast(a[2]))
            for b, i, ln, c in f.calls('fseek'):
                if len(c[2]) < 3 or const_val(nocast(c[2][2])) != 1:
                    continue
                off = nocast(c[2][1])
                if const_val(off) is not None:
                    continue
                n += 1
                bad = None
                for x in walk(off):
                    if not (isinstance(x, (list, tuple)) and len(x) == 2 and x[0] == 'l'):
                        continue
                    L = tuple(x)
                    t = f.locals.get(L[1]) or {}
                    bits = t.get('bits')
                    if not (isinstance(bits, int) and bits < 0 and abs(bits) <= 32):
                        continue
                    for bb, ii, l2, m in f.nodes():
                        if is_assign(m) and nocast(m[2]) == L and any(
                                isinstance(y, (list, tuple)) and len(y) == 2 and tuple(y) in ext and
                                abs((f.locals.get(y[1]) or {}).get('bits') or 0) >= 32 for y in walk(m[3])):
                            bad = (L[1], l2)
                chk.ob(rule, '%s:%s:fseek(%s)' % (f.unit.name, f.name, show(off)[:30]), bad is None, f.loc(ln),
                       'forward only' if bad is None else
                       '%s is a signed %d-bit variable that receives a sum of 32-bit values from the file (line %d): counts '
                       'like FFFFFFF3h make it negative and the seek goes backwards' % (bad[0], 32, bad[1]))
    return n


def rule_r29(chk, facts, rule='C03-R29'):
    chk.rule(rule, 'core modules: inside a loop that runs over the length of a string, a store into a fixed-size local array '
             'at a growing index lies behind a comparison of that index with a constant not larger than the array (or with '
             'the length of the array\'s own contents)', min_instances=4)
    from .c03_bounds import is_generator
    P = facts.program('asl')
    n = 0
    for f in P.all_funcs():
        if f.entry is None or is_generator(f.unit.name):
            continue
        arrs = {nm: t for nm, t in f.locals.items() if t.get('arr') and (t.get('size') or 0) >= 64}
        if not arrs:
            continue
        for h, s0 in f.loops():
            body = f.loop_body(h, s0)
            conds = [f.blocks[b].get('cond') for b in body if f.blocks[b].get('cond') is not None]
            if not any(any(isinstance(m, (list, tuple)) and m and m[0] == 'call' and callee_name(m) == 'strlen' for m in walk(c)) for c in conds):
                continue
            for b in body:
                for j, (ln, ex) in enumerate(f.blocks[b]['elems']):
                    for m in walk_own(ex):
                        tgt = idx = None
                        if is_assign(m) and nocast(m[2])[0] == 'i' and nocast(nocast(m[2])[1])[0] == 'l' and nocast(nocast(m[2])[1])[1] in arrs:
                            tgt, idx = nocast(nocast(m[2])[1])[1], nocast(nocast(m[2])[2])
                        if m[0] == 'call' and callee_name(m) in ('memset', 'memcpy') and m[2]:
                            d = nocast(m[2][0])
                            if d[0] == 'b' and d[1] == '+' and nocast(d[2])[0] == 'l' and nocast(d[2])[1] in arrs:
                                tgt, idx = nocast(d[2])[1], nocast(d[3])
                        if tgt is None:
                            continue
                        ivs = {tuple(x) for x in walk(idx) if isinstance(x, (list, tuple)) and len(x) == 2 and x[0] == 'l'}
                        if not ivs:
                            continue
                        n += 1
                        N = arrs[tgt]['arr'][0]

                        def bounded(l, ivs=ivs, N=N, tgt=tgt):
                            def own_len(e):
                                return any(isinstance(y, tuple) and y and y[0] == 'call' and y[1] == ('fn', 'strlen') and y[2] and
                                           nocast(y[2][0]) == ('l', tgt) for y in walk(e))
                            return edge_has_atom(l, lambda a: a[0] == 'cmp' and a[1] in ('<', '<=') and any(
                                isinstance(y, tuple) and y in ivs for y in walk(a[2])) and
                                ((const_val(a[3]) is not None and const_val(a[3]) <= N) or own_len(a[3])))
                        ok, w = f.guarded(b, j, bounded)
                        chk.ob(rule, '%s:%s:%s[%s]@%d' % (f.unit.name, f.name, tgt, show(idx)[:20], ln), ok, f.loc(ln),
                               'index compared with the array size' if ok else
                               '%s[%d] is filled at the index %s inside a loop over a string of unbounded length and the index '
                               'is never compared with the size of the array (path %s): a long enough line writes behind it' % (
                                   tgt, N, show(idx), ' '.join(w[-4:])))
    return n


def rule_r30(chk, facts, rule='C03-R30'):
    chk.rule(rule, 'alink: the record buffer is read and patched (functions that index the global Buffer with a parameter) '
             'only at offsets that were compared with the length of the record before; the offset of a relocation comes '
             'from the file', min_instances=2)
    P = facts.program('alink')
    u = facts.unit('alink.c')
    # functions that form Buffer + parameter
    acc = {}
    for f in u.funcs.values():
        if f.file != 'alink.c' or f.entry is None:
            continue
        for b, i, ln, m in f.nodes():
            if m[0] == 'b' and m[1] == '+' and nocast(m[2])[0] in GLOBKINDS and nocast(m[2])[1] == 'Buffer' and nocast(m[3])[0] == 'p':
                for k, prm in enumerate(f.params):
                    if prm['name'] == nocast(m[3])[1]:
                        acc[f.name] = k
    if not acc:
        raise AnalysisBroken('alink.c: accessors of the record buffer not found')
    n = 0
    for f in u.funcs.values():
        if f.file != 'alink.c' or f.entry is None:
            continue
        for b, i, ln, c in f.calls(tuple(acc)):
            k = acc[callee_name(c)]
            if k >= len(c[2]):
                continue
            off = nocast(c[2][k])
            flds = {m[2] for m in walk(off) if isinstance(m, (list, tuple)) and m and m[0] == 'm'} | \
                   {tuple(m) for m in walk(off) if isinstance(m, (list, tuple)) and len(m) == 2 and m[0] == 'l'}
            # locals: follow single definitions
            for L in [x for x in flds if isinstance(x, tuple)]:
                for bb, ii, l2, d in f.nodes():
                    if is_assign(d) and d[1] == '=' and nocast(d[2]) == L:
                        flds |= {m[2] for m in walk(d[3]) if isinstance(m, (list, tuple)) and m and m[0] == 'm'}
            if not flds:
                continue
            n += 1

            def bounded(l, flds=flds):
                return edge_has_atom(l, lambda a: a[0] == 'cmp' and a[1] in ('<', '<=') and any(
                    (isinstance(y, tuple) and y and y[0] == 'm' and y[2] in flds) for y in walk(a[2])))
            ok, w = f.guarded(b, i, bounded)
            chk.ob(rule, 'alink.c:%s:%s(%s)' % (f.name, callee_name(c), show(off)[:30]), ok, f.loc(ln),
                   'offset compared with the record length' if ok else
                   'the offset %s comes from the relocation entry read from the file and reaches %s() without a comparison '
                   'with the record length: a relocation outside its record reads and writes arbitrary memory' % (show(off), callee_name(c)))
    return n
