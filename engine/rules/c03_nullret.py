"""C03-R19: results of functions that can return NULL (tools).

A function of a tool program that returns the NULL constant (or a local that
it set to NULL) on some path reports a failure that way - for the tools that
is "the code file is truncated or inconsistent".  Where a caller stores the
result and dereferences it, a test of the stored result must guard every
dereference.  Instances are the call sites; allocation wrappers are left to
the stated assumption (malloc results are non-null)."""
from core import *
from .common import *

TOOLS = ('plist', 'alink', 'p2bin', 'p2hex', 'pbind', 'dasl')
NOT_FAILURE = {'as_strdup': 'returns NULL only for a NULL argument or when malloc fails (assumption)',
               'getmessage': 'message catalogue lookups abort the program themselves'}


def may_return_null(f):
    """f returns a pointer-typed local that it sets to NULL somewhere, or the NULL constant next to other values."""
    rets = [nocast(m[1]) for b, i, ln, m in f.nodes() if m[0] == 'ret' and m[1] is not None]
    if not rets:
        return False
    for r in rets:
        if r[0] == 'l' and (f.locals.get(r[1]) or {}).get('ptr'):
            for b2, i2, l2, m2 in f.nodes():
                if is_assign(m2) and m2[1] == '=' and nocast(m2[2]) == r and const_val(nocast(m2[3])) == 0:
                    return True
    if any(const_val(r) == 0 for r in rets) and any(r[0] == 'l' and (f.locals.get(r[1]) or {}).get('ptr') for r in rets):
        return True
    return False


def run(chk, facts, rule='C03-R19'):
    chk.rule(rule, 'tools: where the result of a function that can return NULL (its way of reporting a truncated or '
             'inconsistent code file) is stored and dereferenced, a test of the stored result guards every dereference',
             min_instances=3)
    seen = set()
    n = 0
    for exe in TOOLS:
        P = facts.program(exe)
        nf = {f.name: f for f in P.all_funcs() if f.entry is not None and f.name not in NOT_FAILURE and may_return_null(f)}
        for g in P.all_funcs():
            if g.entry is None or g.qname in seen:
                continue
            seen.add(g.qname)
            for b, i, ln, m in g.nodes():
                if not (is_assign(m) and m[1] == '=' and nocast(m[3])[0] == 'call' and callee_name(nocast(m[3])) in nf):
                    continue
                cn = callee_name(nocast(m[3]))
                if P.resolve(g.unit, cn) is not nf[cn]:
                    continue
                tgt = nocast(m[2])
                bad = None
                nd = 0
                for b2, i2, l2, m2 in g.nodes():
                    q = None
                    if m2[0] == 'm' and m2[3]:
                        q = nocast(m2[1])
                    elif m2[0] == 'u' and m2[1] == '*':
                        q = nocast(m2[2])
                    elif m2[0] == 'i':
                        q = nocast(m2[1])
                    if q != tgt:
                        continue
                    # only dereferences the call's value can reach
                    if not (b2 == b and i2 > i) and b2 not in g.reach_forward([b]):
                        continue
                    nd += 1

                    def reassigned(ex, tgt=tgt, site=(b, i)):
                        return False
                    ok, w = g.guarded(b2, i2, nz_guard(tgt), None, start=b)
                    if not ok and bad is None:
                        bad = (l2, w)
                if nd == 0:
                    continue
                n += 1
                chk.ob(rule, '%s:%s:%s=%s()' % (g.unit.name, g.name, show(tgt), cn), bad is None, g.loc(ln),
                       '%d dereferences behind a test of the result' % nd if bad is None else
                       '%s() returns NULL when the record cannot be read or is inconsistent; %s is dereferenced at line %d '
                       'without a test (path %s): a truncated or damaged code file crashes the tool' % (
                           cn, show(tgt), bad[0], ' '.join(bad[1][-4:])))
    return n


FILL = {'fread': (0,), 'Read2': (1,), 'Read4': (1,), 'Read8': (1,), 'ReadRecordHeader': (0, 1, 2, 3)}


def _field_ptr(f, x):
    rec, fld = x[2].rsplit('.', 1)
    for y in (f.unit.records.get(rec) or []):
        if y['name'] == fld:
            return bool(y['type'].get('ptr'))
    return False


def run_ptr_offsets(chk, facts, rule='C03-R20'):
    chk.rule(rule, 'tools: an integer read from the code file is added to a pointer only behind a comparison of that integer '
             'with an upper bound (offsets into a string table read from the same file)', min_instances=2)
    seen = set()
    n = 0
    for exe in TOOLS:
        P = facts.program(exe)
        for f in P.all_funcs():
            if f.entry is None or f.qname in seen:
                continue
            seen.add(f.qname)
            ext = set()
            for b, i, ln, c in f.calls(tuple(FILL)):
                for ai in FILL[callee_name(c)]:
                    if ai < len(c[2]):
                        a = nocast(c[2][ai])
                        if a[0] == 'u' and a[1] == '&':
                            ext.add(nocast(a[2]))
            if not ext:
                continue
            k = 0
            for b, i, ln, m in f.nodes():
                if not (m[0] == 'b' and m[1] in ('+', '-')):
                    continue
                l, r = nocast(m[2]), nocast(m[3])
                for x, y in ((l, r), (r, l)):
                    if y not in ext:
                        continue
                    isptr = (x[0] == 'l' and (f.locals.get(x[1]) or {}).get('ptr')) or (x[0] == 'm' and _field_ptr(f, x)) or \
                        (x[0] in GLOBKINDS and ((P.ginfo(f, x[0], x[1]) or {}).get('type') or {}).get('ptr'))
                    if not isptr:
                        continue
                    n += 1
                    k += 1

                    def bounded(lab, y=y):
                        return edge_has_atom(lab, lambda a: a[0] == 'cmp' and a[1] in ('<', '<=') and a[2] == y)
                    ok, w = f.guarded(b, i, bounded)
                    chk.ob(rule, '%s:%s:%s#%d' % (f.unit.name, f.name, show(m)[:40], k), ok, f.loc(ln),
                           'offset compared with a bound first' if ok else
                           '%s comes from the file and is added to %s without a bound test (path %s): an offset behind the '
                           'table makes the tool read arbitrary memory' % (show(y), show(x), ' '.join(w[-4:])))
    return n


def run_inplace_growth(chk, facts, rule='C03-R21'):
    chk.rule(rule, 'the inserting string primitives without a capacity argument (strprep, strins) write into a buffer of '
             'unknown size only behind a comparison with the capacity of the dynamic string that owns it (tab expansion of '
             'stored macro lines)', min_instances=1)
    from .c03_bounds import array_size, is_generator
    P = facts.program('asl')
    n = 0
    # functions that work on a dynamic line buffer: called with an as_dynstr or with its p_str
    dyn = set()
    for f in P.all_funcs():
        if f.entry is None:
            continue
        for b, i, ln, c in f.calls():
            g = P.resolve(f.unit, callee_name(c) or '')
            if g is None:
                continue
            for a in c[2]:
                if any(isinstance(m, (list, tuple)) and m and m[0] == 'm' and m[2] == 'as_dynstr.p_str' and nocast(m[1])[0] in GLOBKINDS
                       for m in walk(a)) or \
                        (nocast(a)[0] == 'u' and nocast(a)[1] == '&' and nocast(nocast(a)[2])[0] in GLOBKINDS and
                         ((P.ginfo(f, nocast(nocast(a)[2])[0], nocast(nocast(a)[2])[1]) or {}).get('type') or {}).get('t') == 'as_dynstr_t'):
                    dyn.add(g.qname)
    for f in P.all_funcs():
        if f.entry is None:
            continue
        sites = list(f.calls(('strprep', 'strins')))
        if f.unit.name != 'strutil.c' and not is_generator(f.unit.name) and f.qname in dyn:
            # an overlapping memmove() towards higher addresses inside one buffer lengthens its contents, too
            for b, i, ln, c in f.calls('memmove'):
                d, s_ = nocast(c[2][0]), nocast(c[2][1])
                bd = {tuple(m) for m in walk(d) if isinstance(m, (list, tuple)) and len(m) == 2 and m[0] in ('l', 'p')}
                bs = {tuple(m) for m in walk(s_) if isinstance(m, (list, tuple)) and len(m) == 2 and m[0] in ('l', 'p')}
                if (bd & bs) and d != s_:
                    sites.append((b, i, ln, c))
        for b, i, ln, c in sites:
            d = nocast(c[2][0])
            if d[0] in ('l', 'g', 'gs', 'm', 'i') and array_size(P, f, d) is not None:
                continue                       # fixed-size array: decided by the per-buffer length rules
            n += 1

            def cap(lab):
                return edge_has_atom(lab, lambda a: a[0] == 'cmp' and any(
                    isinstance(m, tuple) and m and m[0] == 'm' and m[2] == 'as_dynstr.capacity' for x in (a[2], a[3]) for m in walk(x)))
            iparams = {('p', q['name']) for q in f.params if not q['type'].get('ptr')}

            def cap2(lab):
                # the capacity may be handed in as a parameter: strlen(buffer) (+ growth) compared with an integer parameter
                # "current length + growth" against a limit
                return edge_has_atom(lab, lambda a: a[0] == 'cmp' and a[1] in ('<', '<=', '>', '>=') and
                                     isinstance(a[2], tuple) and a[2] and a[2][0] == 'b' and a[2][1] == '+' and
                                     any(isinstance(m, tuple) and m and m[0] == 'call' and m[1] == ('fn', 'strlen') for m in walk(a[2])))

            def is_cap_cond(cnd):
                return any(isinstance(m, (list, tuple)) and m and m[0] == 'm' and m[2] == 'as_dynstr.capacity' for m in walk(cnd))
            # "the contents do not get longer": the false edge of a condition under which (and only under which) the
            # capacity is compared
            nogrow = set()
            for bb, blk in f.blocks.items():
                cnd = blk.get('cond')
                if cnd is None or len(blk['succ']) != 2 or is_cap_cond(cnd):
                    continue
                st, sf = blk['succ']
                if st is None or st < 0 or sf is None or sf < 0:
                    continue
                rt = f.reach_forward([st], block_stop=lambda x, sf=sf: x == sf)
                if any(f.blocks[x].get('cond') is not None and is_cap_cond(f.blocks[x]['cond']) for x in rt if x != sf):
                    nogrow.add(id(cnd))
            ok, w = f.guarded(b, i, lambda l: cap(l) or cap2(l) or (l is not None and l[0] == 'F' and id(l[1]) in nogrow))
            chk.ob(rule, '%s:%s:%s' % (f.unit.name, f.name, callee_name(c)), ok, f.loc(ln),
                   'capacity compared before the insertion' if ok else
                   '%s() lengthens %s in place; nothing on the way here (%s) compares the needed length with the capacity of '
                   'the buffer: a line with many tabs overruns the heap block' % (callee_name(c), show(d), ' '.join(w[-4:])))
    return n
