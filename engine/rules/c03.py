"""C03 — no input makes the assembler or a utility crash (structural clauses).

R1 every non-constant integer division/modulo has a provably non-zero divisor
R2 construct-stack heads are never dereferenced unguarded
R3 externally controlled integers reach array indices / copy lengths only
   after a bounding test
R7 the segment restored by RESTORE cannot re-enter the structure pseudo
   segment without an open structure (supports the implied fact used by R2)
"""
from core import *
from .common import *
from . import prove

EXES = ['asl', 'plist', 'pbind', 'p2bin', 'p2hex', 'alink', 'dasl']

# listed exceptions: key -> (reason, supporting check name or None)
R1_EXCEPTIONS = {
    'as.c:ExpandIRPN:Context.ParamCnt':
        ('a zero count sets Context.ErrFlag in ProcessIRPNArgs and ExpandIRPN returns on ErrFlag '
         'before dividing', 'irpn_flag'),
    'motpseudo.c:DecodeMoto16Pseudo:WSize':
        ('GetWSize() is zero only for operand sizes DecodeMotoAttrSize never yields for DS; '
         'the modulo runs only under !OddSize', None),
    'math64.c:divmnu:v[0]':
        ('Knuth algorithm D precondition (divisor non-zero) established by its callers', None),
    'math64.c:divmnu:vn[(n - 1)]':
        ('normalised top digit of a non-zero divisor', None),
    'cpulist.c:PrintCPUList:(MaxNameLen + 1)':
        ('size_t + 1 for a string length far below SIZE_MAX', None),
}

HEADS = {'FirstIfSave', 'FirstSaveState', 'SectionStack', 'StructStack', 'FirstInputTag',
         'FirstOutputTag', 'pInnermostNamedStruct', 'FirstLocHandle', 'FirstStack', 'pPhaseStacks'}


def rule_r1(chk, facts):
    chk.rule('C03-R1', 'every non-constant integer division or modulo has a divisor that is provably '
             'non-zero (guard on all paths, constant writers, validated at origin) or is a listed exception',
             min_instances=25)
    seen = {}
    for exe in EXES:
        P = facts.program(exe)
        for f in P.all_funcs():
            for bid, i, ln, n in f.nodes():
                if n[0] == 'b' and n[1] in ('/', '%', '/=', '%=') and const_val(n[3]) is None:
                    key = '%s:%s:%s' % (f.unit.name, f.name, show(n[3]))
                    if (key, ln) in seen:
                        continue
                    ok, why = prove.nonzero(P, f, bid, i, n[3])
                    xkey = key
                    if not ok and key not in R1_EXCEPTIONS and f.unit.name == 'motpseudo.c' and 'GetWSize' in why:
                        # the exception is about where the value comes from (GetWSize()), not about the function that
                        # happens to contain the division
                        xkey = 'motpseudo.c:DecodeMoto16Pseudo:WSize'
                    if not ok and xkey in R1_EXCEPTIONS:
                        reason, support = R1_EXCEPTIONS[xkey]
                        sup_ok = True
                        if support == 'irpn_flag':
                            sup_ok, why2 = support_irpn_flag(P, f, bid, i)
                            why = why2 if not sup_ok else why
                        if sup_ok:
                            chk.exception('C03-R1', key, reason)
                            ok, why = True, 'listed: ' + reason
                    seen[(key, ln)] = (ok, why, f.loc(ln))
    agg = {}
    for (key, ln), (ok, why, loc) in sorted(seen.items()):
        a = agg.setdefault(key, [True, [], loc])
        if not ok:
            a[0] = False
            a[1].append('%s: %s' % (loc, why))
            a[2] = loc
        elif not a[1]:
            a[1] = [why] if a[0] and not a[1] else a[1]
    for key, (ok, whys, loc) in agg.items():
        chk.ob('C03-R1', key, ok, loc, '; '.join(whys)[:600])
    chk.extra['division_sites'] = len(seen)


def support_irpn_flag(P, f, bid, i):
    """ExpandIRPN: the division is reached only with Context.ErrFlag false, and
    ProcessIRPNArgs sets ErrFlag on every path that leaves ParamCnt zero."""
    def want(a):
        return a[0] == 'z' and a[1][0] == 'm' and a[1][2].endswith('.ErrFlag')
    ok, w = f.guarded(bid, i, lambda l: edge_has_atom(l, want))
    if not ok:
        return False, 'division in ExpandIRPN no longer guarded by !ErrFlag: ' + ' '.join(w[-4:])
    g = P.resolve(f.unit, 'ProcessIRPNArgs')
    if g is None:
        return False, 'ProcessIRPNArgs vanished'
    n = 0
    for b2, i2, ln, node in g.nodes():
        if is_assign(node) and node[1] == '=' and strip(node[2])[0] == 'm' and strip(node[2])[2].endswith('.ParamCnt'):
            tgt = strip(node[2])
            n += 1
            want2 = prove._pos_atom(tgt)

            def sets_flag(ex):
                for m in walk_own(ex):
                    if is_assign(m) and strip(m[2])[0] == 'm' and strip(m[2])[2].endswith('.ErrFlag') and const_val(m[3]) == 1:
                        return True
                return False
            ok2, w2 = g.must_pass(b2, i2, sets_flag,
                                  edge_ok=lambda s, d, l: not (l is not None and edge_has_atom(l, want2)))
            if not ok2:
                return False, 'ProcessIRPNArgs: a path leaves ParamCnt possibly zero without ErrFlag (%s)' % ' '.join(w2[-4:])
    if not n:
        return False, 'store to ParamCnt not found'
    return True, ''


def struct_implied(target):
    """Implied fact (iii): ActPC == StructSeg implies an open structure and an
    innermost named one (supported by R7 and CodeSTRUCT's push order)."""
    if target[1] not in ('StructStack', 'pInnermostNamedStruct'):
        return []

    def p(a):
        if a[0] != 'cmp' or a[1] != '==':
            return False
        l, r = a[2], a[3]
        return l == ('g', 'ActPC') and isinstance(r, tuple) and r[0] == 'e' and r[1] == 'StructSeg'

    def q(a):
        # implied fact (iv): an open structure stack always has a named
        # ancestor (CodeSTRUCT rejects a free-standing unnamed structure and
        # ENDSTRUCT recomputes the innermost named one from the stack)
        return target[1] == 'pInnermostNamedStruct' and a[0] == 'nz' and a[1] == ('g', 'StructStack')

    def r(a):
        # implied fact (v): pInnermostNamedStruct, when non-NULL, is an element of the open structure stack
        # (supported by support_innermost(): its writers assign NULL, the head just pushed, or walk the stack)
        return target[1] == 'StructStack' and a[0] == 'nz' and a[1] == ('g', 'pInnermostNamedStruct')
    return [p, q, r]


def support_innermost(chk, facts):
    P = facts.program('asl')
    for (f, how, ln, node, b, i) in P.write_index().get('pInnermostNamedStruct', []):
        ok = False
        if how == '=' and is_assign(node):
            rv = nocast(node[3])
            if const_val(rv) == 0 or (is_assign(rv) and const_val(rv[3]) == 0):
                ok = True
            elif rv == ('g', 'StructStack'):
                ok = True
            elif rv[0] == 'm' and rv[2].endswith('.Next') and nocast(rv[1]) == ('g', 'pInnermostNamedStruct'):
                ok = True
            elif rv[0] == 'l':
                # the local was stored into StructStack on every path before
                ok = f.guarded(b, i, lambda l: False, lambda ex, rv=rv: any(
                    is_assign(m) and strip(m[2]) == ('g', 'StructStack') and nocast(m[3]) == rv for m in walk_own(ex)))[0]
        chk.ob('C03-R2', 'support:pInnermostNamedStruct-in-stack:%s:%d' % (f.name, ln), ok, f.loc(ln),
               'NULL, the stack head, or a walk along the stack' if ok else
               'pInnermostNamedStruct is given a value that is not known to be an element of the structure stack: the '
               'implied fact "pInnermostNamedStruct != NULL => StructStack != NULL" no longer holds')


def rule_r2(chk, facts):
    chk.rule('C03-R2', 'every dereference of a construct-stack head (FirstIfSave, FirstSaveState, SectionStack, '
             'StructStack, FirstInputTag, FirstOutputTag, pInnermostNamedStruct, FirstLocHandle, FirstStack, '
             'pPhaseStacks[i]) is null-guarded on every path, in the function, in all its callers, by dispatch '
             'through the same pointer, or by the implied fact ActPC==StructSeg', min_instances=45)
    P = facts.program('asl')
    agg = {}
    nsites = 0
    for f in P.all_funcs():
        for bid, i, ln, node in f.nodes():
            if not (node[0] == 'm' and node[3] == 1):
                continue
            base = nocast(node[1])
            if not base:
                continue
            head = None
            if base[0] in ('g', 'gs') and base[1] in HEADS:
                head = base
            elif base[0] == 'i' and base[1][0] in ('g', 'gs') and base[1][1] in HEADS:
                head = base
            if head is None:
                continue
            nsites += 1
            hname = head[1] if head[0] != 'i' else head[1][1]
            implied = struct_implied(head) if head[0] != 'i' else []
            ep = nz_guard(head, implied)
            el = assigns_nonnull(head)

            def dispatch_ok(call, head=head):
                c = strip(call[1])
                return isinstance(c, tuple) and c and c[0] == 'm' and c[3] == 1 and nocast(c[1]) == head
            ok, w, how = guarded_with_lift(P, f, bid, i, ep, el, dispatch_ok)
            key = '%s:%s:%s' % (f.unit.name, f.name, hname)
            a = agg.setdefault(key, [True, '', f.loc(ln), how])
            if not ok and a[0]:
                a[0] = False
                a[1] = '%s dereferenced at line %d without a null test on path %s' % (show(node), ln, ' '.join(w[-6:]))
                a[2] = f.loc(ln)
    # the same through a local copy of a head: L = HEAD; ... L->field
    for f in P.all_funcs():
        copies = {}
        for bid, i, ln, node in f.nodes():
            src = None
            if is_assign(node) and node[1] == '=' and strip(node[2])[0] == 'l':
                src, dst = nocast(node[3]), strip(node[2])
            elif node[0] == 'decl' and node[2] is not None:
                src, dst = nocast(node[2]), ('l', node[1])
            if src is not None and isinstance(src, tuple) and src and src[0] in ('g', 'gs') and src[1] in HEADS:
                copies.setdefault(dst, []).append(src)
        if not copies:
            continue
        for bid, i, ln, node in f.nodes():
            if not (node[0] == 'm' and node[3] == 1):
                continue
            L = nocast(node[1])
            if L not in copies:
                continue
            rd = f.reaching_defs(bid, i, L)
            heads = set()
            for d in rd:
                r = nocast(d[3]) if is_assign(d) else (nocast(d[2]) if d[0] == 'decl' else None)
                if isinstance(r, tuple) and r and r[0] in ('g', 'gs') and r[1] in HEADS:
                    heads.add(r)
            if not heads:
                continue
            nsites += 1
            for head in heads:
                implied = struct_implied(head)
                e1, e2 = nz_guard(head, implied), nz_guard(L)
                el1, el2 = assigns_nonnull(head), assigns_nonnull(L)
                ok, w, how = guarded_with_lift(P, f, bid, i, lambda l, e1=e1, e2=e2: e1(l) or e2(l),
                                               lambda ex, el1=el1, el2=el2: el1(ex) or el2(ex))
                key = '%s:%s:%s' % (f.unit.name, f.name, head[1])
                a = agg.setdefault(key, [True, '', f.loc(ln), how])
                if not ok and a[0]:
                    a[0] = False
                    a[1] = '%s (a copy of %s) dereferenced at line %d without a null test on path %s' % (
                        show(node), head[1], ln, ' '.join(w[-6:]))
                    a[2] = f.loc(ln)
    for key, (ok, detail, loc, how) in sorted(agg.items()):
        chk.ob('C03-R2', key, ok, loc, detail or ('guarded (%s)' % how))
    chk.extra['head_deref_sites'] = nsites
    support_innermost(chk, facts)


def filled_under_validsegs(P, g, v):
    """local v is filled through &v by a callee whose every store through that
    parameter is guarded by a ValidSegs membership test."""
    found = False
    for b, i, ln, n in g.nodes():
        if n[0] != 'call':
            continue
        for ai, a in enumerate(n[2]):
            if strip(a) == ('u', '&', v):
                t = P.resolve(g.unit, callee_name(n) or '')
                if t is None or ai >= len(t.params):
                    return False
                deref = ('u', '*', ('p', t.params[ai]['name']))

                def want(a2):
                    return a2[0] == 'nz' and mentions(a2[1], lambda m: var_is(m, {'ValidSegs'}))
                for b3, i3, l3, m in t.nodes():
                    if is_assign(m) and strip(m[2]) == deref:
                        ok, w = t.guarded(b3, i3, lambda l: edge_has_atom(l, want))
                        if not ok:
                            return False
                        found = True
    return found


def rule_r7(chk, facts):
    chk.rule('C03-R7', 'ActPC is given a non-constant value only from the segment selected by name (SetNSeg), '
             'from StructSaveSeg, or in RESTORE under a test that keeps it out of the structure pseudo segment '
             'while no structure is open; ActPC = StructSeg only after the structure was pushed', min_instances=4)
    P = facts.program('asl')
    for (f, how, ln, node, bid, i) in P.write_index().get('ActPC', []):
        if how != '=':
            chk.ob('C03-R7', '%s:%s:ActPC' % (f.unit.name, f.name), False, f.loc(ln), 'ActPC modified by ' + how)
            continue
        rhs = nocast(node[3])
        key = '%s:%s:ActPC=%s' % (f.unit.name, f.name, show(rhs))
        cv = const_val(rhs)
        if rhs[0] == 'e' and rhs[1] == 'StructSeg':
            ok, w = f.guarded(bid, i, lambda l: False, assigns_nonnull(('g', 'StructStack')))
            chk.ob('C03-R7', key, ok, f.loc(ln), 'push of StructStack dominates' if ok else
                   'ActPC = StructSeg reachable without pushing StructStack: ' + ' '.join(w[-5:]))
        elif cv is not None:
            chk.ob('C03-R7', key, True, f.loc(ln), 'constant segment')
        elif rhs == ('g', 'StructSaveSeg') or rhs == ('gs', 'StructSaveSeg'):
            # its only writer must be guarded by ActPC != StructSeg
            good = True
            det = ''
            for (g, how2, ln2, n2, b2, i2) in P.write_index().get('StructSaveSeg', []) + P.write_index().get(f.unit.name + ':StructSaveSeg', []):
                def want(a):
                    return a[0] == 'cmp' and a[1] == '!=' and a[2] == ('g', 'ActPC') and a[3][:2] == ('e', 'StructSeg')
                ok2, w2 = g.guarded(b2, i2, lambda l: edge_has_atom(l, want))
                if not ok2:
                    good = False
                    det = 'StructSaveSeg written at %s without ActPC != StructSeg' % g.loc(ln2)
            chk.ob('C03-R7', key, good, f.loc(ln), det or 'saved segment is never the structure segment')
        elif rhs[0] == 'p':
            # SetNSeg(NSeg): call sites pass constants or a table-selected valid segment
            good, det = True, ''
            for (g, b2, i2, ln2, n2, direct) in call_sites(P, f):
                pi = [p['name'] for p in f.params].index(rhs[1])
                a = nocast(n2[2][pi])
                if const_val(a) is not None and not (a[0] == 'e' and a[1] == 'StructSeg'):
                    continue
                if a[0] == 'l' and filled_under_validsegs(P, g, a):
                    continue
                # segment found by name: guarded by a ValidSegs membership test
                def want(a2):
                    return a2[0] == 'nz' and mentions(a2[1], lambda m: var_is(m, {'ValidSegs'}))
                ok2, w2 = g.guarded(b2, i2, lambda l: edge_has_atom(l, want))
                if not ok2:
                    good, det = False, '%s passes %s without ValidSegs test' % (g.loc(ln2), show(a))
            chk.ob('C03-R7', key, good, f.loc(ln), det or 'all callers pass constants or ValidSegs-checked segments')
        else:
            # restored value: must be kept out of StructSeg unless a structure is open
            def want(a):
                if a[0] == 'nz' and a[1] == ('g', 'StructStack'):
                    return True
                if a[0] == 'cmp' and a[1] == '!=' and a[2] == rhs and a[3][:2] == ('e', 'StructSeg'):
                    return True
                return False
            ok, w = f.guarded(bid, i, lambda l: edge_has_atom(l, want))
            chk.ob('C03-R7', key, ok, f.loc(ln), 'guarded' if ok else
                   'a saved segment is restored into ActPC without excluding the structure pseudo segment when no '
                   'structure is open (SAVE inside STRUCT, RESTORE after ENDSTRUCT, then code: WriteCode dereferences '
                   'StructStack==NULL); path ' + ' '.join(w[-5:]))


def rule_r10(chk, facts):
    chk.rule('C03-R10', 'input-tag clean-up procedures are re-entrant: EXITM runs the current tag\'s Cleanup and marks the '
             'tag empty, GetNextLine() then runs Cleanup again before unlinking it; so no function stored in a Cleanup '
             'slot dereferences a list head that the same function empties (ClearStringList(&tag->X) or tag->X = NULL) '
             'unless the path established that it is non-NULL', min_instances=3)
    P = facts.program('asl')
    cl = set()
    for key, fs in P.slots().items():
        if key.endswith('.Cleanup') and 'InputTag' in key:
            cl |= set(fs)
    if len(cl) < 4:
        raise AnalysisBroken('only %d clean-up procedures found in the Cleanup slot' % len(cl))
    # precondition: two invocation sites of the slot, one of which leaves the tag linked and marks it empty
    ex = facts.func('as.c', 'ExpandEXITM')
    gn = facts.func('as.c', 'GetNextLine')

    def slot_call(f):
        return [(b, i, ln) for b, i, ln, n in f.nodes() if n[0] == 'call' and isinstance(n[1], (list, tuple)) and
                strip(n[1])[0] == 'm' and strip(n[1])[2].endswith('.Cleanup')]
    twice = bool(slot_call(ex)) and bool(slot_call(gn)) and any(
        is_assign(m) and strip(m[2])[0] == 'm' and strip(m[2])[2].endswith('.IsEmpty') for b, i, ln, m in ex.nodes())
    if not twice:
        chk.note('C03-R10: EXITM no longer runs Cleanup itself; the re-entrancy obligation is vacuous')
    for f in sorted(cl, key=lambda x: x.name):
        if not f.params:
            continue
        tag = ('p', f.params[0]['name'])
        cleared = set()
        for b, i, ln, n in f.nodes():
            if n[0] == 'call' and callee_name(n) in ('ClearStringList', 'ClearStringEntry') and n[2]:
                a = nocast(n[2][0])
                if a[0] == 'u' and a[1] == '&':
                    t = strip(a[2])
                    if t[0] == 'm' and strip(t[1]) == tag:
                        cleared.add(t)
            if is_assign(n) and n[1] == '=' and const_val(n[3]) == 0:
                t = strip(n[2])
                if t[0] == 'm' and strip(t[1]) == tag and f.unit.records.get(t[2].split('.')[0]) is not None:
                    cleared.add(t)
        for fld in sorted(cleared, key=str):
            # aliases: locals assigned from the field
            al = {fld}
            for b, i, ln, n in f.nodes():
                if is_assign(n) and n[1] == '=' and strip(n[3]) == fld and strip(n[2])[0] == 'l':
                    al.add(strip(n[2]))
            bad = None
            for b, i, ln, n in f.nodes():
                q = None
                if n[0] == 'm' and n[3] == 1:
                    q = strip(n[1])
                elif n[0] == 'u' and n[1] == '*':
                    q = strip(n[2])
                elif n[0] == 'i':
                    q = strip(n[1])
                if q not in al:
                    continue
                g1 = nz_guard(fld)
                g2 = nz_guard(q)
                okp, w = f.guarded(b, i, lambda l: g1(l) or g2(l))
                if not okp and twice:
                    bad = (ln, q, w)
                    break
            ok = bad is None
            chk.ob('C03-R10', '%s:%s:%s' % (f.unit.name, f.name, show(fld)), ok, f.loc(bad[0] if bad else None),
                   'emptied list head not dereferenced unguarded' if ok else
                   '%s() dereferences %s, which holds the list head %s that this clean-up empties, without a NULL test: '
                   'the second Cleanup call after EXITM (ExpandEXITM, then GetNextLine) crashes' % (f.name, show(bad[1]), show(fld)))


def rule_r12(chk, facts):
    chk.rule('C03-R12', 'the IRPN group count (a signed expression result that becomes the stride InputTag.ParIter of the '
             'parameter walk and a divisor) is accepted only when positive: in ProcessIRPNArgs() every path from the '
             'evaluation to the exit on which no edge established count > 0 sets ErrFlag, and ExpandIRPN() stores the '
             'count into the tag only with ErrFlag clear', min_instances=2)
    P = facts.program('asl')
    g = facts.func('as.c', 'ProcessIRPNArgs')
    f = facts.func('as.c', 'ExpandIRPN')

    def sets_flag(ex):
        for m in walk_own(ex):
            if is_assign(m) and strip(m[2])[0] == 'm' and strip(m[2])[2].endswith('.ErrFlag') and const_val(m[3]) == 1:
                return True
        return False
    n = 0
    for b2, i2, ln, node in g.nodes():
        if is_assign(node) and node[1] == '=' and strip(node[2])[0] == 'm' and strip(node[2])[2].endswith('.ParamCnt'):
            tgt = strip(node[2])
            n += 1

            def positive(a, tgt=tgt):
                if a[0] == 'cmp' and a[2] == tgt and const_val(a[3]) is not None:
                    c = const_val(a[3])
                    return (a[1] == '>' and c >= 0) or (a[1] == '>=' and c >= 1) or (a[1] == '==' and c >= 1)
                return False
            ok, w = g.must_pass(b2, i2, sets_flag, edge_ok=lambda s_, d_, l: not (l is not None and edge_has_atom(l, positive)))
            chk.ob('C03-R12', 'as.c:ProcessIRPNArgs:count>0', ok, g.loc(ln), 'non-positive counts set ErrFlag' if ok else
                   'a path on which the count was not shown to be positive leaves ProcessIRPNArgs() without ErrFlag (%s): '
                   '"irpn -1,x,1,2" is accepted and the expansion never ends' % ' '.join(w[-5:]))
    if not n:
        raise AnalysisBroken('store to ParamCnt not found in ProcessIRPNArgs')
    m_ = 0
    for b, i, ln, node in f.nodes():
        if is_assign(node) and strip(node[2])[0] == 'm' and strip(node[2])[2].endswith('.ParIter'):
            m_ += 1
            ok, w = f.guarded(b, i, lambda l: edge_has_atom(l, lambda a: a[0] == 'z' and a[1][0] == 'm' and a[1][2].endswith('.ErrFlag')))
            chk.ob('C03-R12', 'as.c:ExpandIRPN:ParIter=', ok, f.loc(ln), 'stored only with ErrFlag clear' if ok else
                   'the group count is stored into the tag on a path that did not test ErrFlag')
    if not m_:
        raise AnalysisBroken('store to ParIter not found in ExpandIRPN')


def rule_r15(chk, facts):
    chk.rule('C03-R15', 'no function of the assembler core or of the tools contains a cycle in its control flow graph whose '
             'blocks evaluate conditions only (no assignment, no ++/--, no call): once entered, nothing the cycle does can '
             'change the conditions that keep it going (a "goto" back to a label in front of the statement that jumps)',
             min_instances=1)
    seen = set()
    n = 0
    for exe in ('asl', 'plist', 'pbind', 'p2bin', 'p2hex', 'alink', 'dasl'):
        P = facts.program(exe)
        for f in P.all_funcs():
            if f.qname in seen or f.entry is None:
                continue
            seen.add(f.qname)
            succ = f.succs()
            # Tarjan SCC
            index, low, onst, st, comps = {}, {}, set(), [], []
            sys_stack = [(f.entry, iter([t for t, l in succ.get(f.entry, ())]))]
            index[f.entry] = low[f.entry] = 0
            cnt = 1
            st.append(f.entry)
            onst.add(f.entry)
            while sys_stack:
                v, it = sys_stack[-1]
                adv = False
                for w in it:
                    if w is None or w < 0:
                        continue
                    if w not in index:
                        index[w] = low[w] = cnt
                        cnt += 1
                        st.append(w)
                        onst.add(w)
                        sys_stack.append((w, iter([t for t, l in succ.get(w, ())])))
                        adv = True
                        break
                    elif w in onst:
                        low[v] = min(low[v], index[w])
                if adv:
                    continue
                sys_stack.pop()
                if sys_stack:
                    u_ = sys_stack[-1][0]
                    low[u_] = min(low[u_], low[v])
                if low[v] == index[v]:
                    comp = []
                    while True:
                        w = st.pop()
                        onst.discard(w)
                        comp.append(w)
                        if w == v:
                            break
                    comps.append(comp)
            for comp in comps:
                cs = set(comp)
                if len(comp) == 1 and not any(t in cs for t, l in succ.get(comp[0], ())):
                    continue
                n += 1
                effect = any((is_assign(m) or is_incdec(m) or m[0] == 'call' or m[0] in ('decl',))
                             for bb in comp for ln, ex in f.blocks[bb]['elems'] for m in walk_own(ex))
                if effect:
                    continue
                ln = min([e[0] for bb in comp for e in f.blocks[bb]['elems']] or [0])
                chk.ob('C03-R15', '%s:%s:effect-free-cycle@%d' % (f.unit.name, f.name, ln), False, f.loc(ln),
                       'the blocks %s form a cycle that only evaluates conditions: entered once, it never ends' %
                       ' '.join('B%d' % x for x in sorted(comp)))
    # every cycle with an effect is one held instance (reported in bulk)
    chk.ob('C03-R15', 'all-other-cycles', True, '', '%d cycles examined' % n)
    chk.extra['cfg_cycles'] = n
    if n < 400:
        raise AnalysisBroken('only %d control flow cycles found' % n)


def rule_r14(chk, facts):
    chk.rule('C03-R14', 'a copy loop whose remaining count is reduced by the number of bytes fread() returned leaves the loop '
             'when fread() returns less than requested: at end of file fread() keeps returning 0, the count no longer '
             'shrinks and the loop would never end (BINCLUDE with an offset behind the end of the file)', min_instances=1)
    seen = set()
    n = 0
    for exe in ('asl', 'plist', 'pbind', 'p2bin', 'p2hex', 'alink', 'dasl'):
        P = facts.program(exe)
        for f in P.all_funcs():
            if f.qname in seen or f.entry is None:
                continue
            seen.add(f.qname)
            for (h, s0) in f.loops():
                body = f.loop_body(h, s0)
                rvars = set()
                for bb in body:
                    for ln, ex in f.blocks[bb]['elems']:
                        for m in walk_own(ex):
                            if is_assign(m) and m[1] == '=' and nocast(m[3])[0] == 'call' and callee_name(nocast(m[3])) in ('fread', 'read') \
                                    and strip(m[2])[0] == 'l':
                                rvars.add(strip(m[2]))
                for r in sorted(rvars):
                    dec = [m for bb in body for ln, ex in f.blocks[bb]['elems'] for m in walk_own(ex)
                           if is_assign(m) and m[1] in ('-=',) and nocast(m[3]) == r]
                    if not dec:
                        continue
                    n += 1
                    exits = [1 for s_, d_, l in f.edges() if s_ in body and d_ not in body and l is not None and l[0] in ('T', 'F') and
                             mentions(l[1], lambda x: isinstance(x, (list, tuple)) and len(x) == 2 and x[0] == 'l' and strip(x) == r)]
                    ok = bool(exits)
                    chk.ob('C03-R14', '%s:%s:%s-=%s' % (f.unit.name, f.name, show(strip(dec[0][2])), r[1]), ok, f.loc(),
                           'loop is left on a short read' if ok else
                           'the loop continues while %s != 0 and reduces it by the result of fread(), but has no exit that '
                           'looks at that result: once fread() returns 0 (seek position behind the end of the file) it never ends' %
                           show(strip(dec[0][2])))
    if n < 1:
        raise AnalysisBroken('no fread() copy loop with a result-driven counter found')


def rule_r11(chk, facts):
    chk.rule('C03-R11', 'the name validators ChkSymbName() and ChkMacSymbName() return False for the empty string (constant '
             'propagation through the validator and its helpers with the argument bound to ""): an empty macro/IRP '
             'parameter name would reach ReplaceLine() as a zero-length search string, whose scan loop then never '
             'advances', min_instances=2)
    from .absint import Eval
    P = facts.program('asl')
    ev = Eval(P)
    for fn in ('ChkSymbName', 'ChkMacSymbName'):
        f = facts.func('asmsub.c', fn)
        v = ev.call(f, [('ptr', '', 0)])
        if v is None:
            raise AnalysisBroken('%s(""): value not determined by constant propagation' % fn)
        ok = v == 0
        chk.ob('C03-R11', 'asmsub.c:%s:rejects-empty' % fn, ok, f.loc(), '%s("") == False' % fn if ok else
               '%s("") evaluates to %r: the empty name is accepted as a parameter name; expanding a body line then loops '
               'forever in ReplaceLine() (zero-length pattern) while the line buffer grows' % (fn, v))
    # the consumers: every parameter-name list that feeds ReplaceLine is filled behind such a validator
    n = 0
    for f in P.all_funcs():
        if f.unit.name != 'as.c':
            continue
        for b, i, ln, c in f.calls('ChkMacSymbName'):
            n += 1
    if n < 4:
        raise AnalysisBroken('parameter-name validations in as.c not found')


def run(chk, facts, info):
    rule_r1(chk, facts)
    from . import round8_small
    round8_small.c03_r35(chk, facts)
    round8_small.c03_r36(chk, facts)
    rule_r2(chk, facts)
    rule_r7(chk, facts)
    from . import c03_bounds, c08
    c03_bounds.run(chk, facts)
    c08.rule_funcargs(chk, facts, rule='C03-R8')
    from . import c03_nullbelief
    c03_nullbelief.run(chk, facts)
    rule_r10(chk, facts)
    rule_r11(chk, facts)
    rule_r12(chk, facts)
    rule_r14(chk, facts)
    rule_r15(chk, facts)
    from . import c03_optfield
    c03_optfield.run(chk, facts)
    from . import c03_counted
    c03_counted.run(chk, facts)
    from . import c03_nullret
    c03_nullret.run(chk, facts)
    c03_nullret.run_ptr_offsets(chk, facts)
    c03_nullret.run_inplace_growth(chk, facts)
    from . import c03_variant
    c03_variant.run(chk, facts)
    from . import c03_late
    c03_late.run(chk, facts)
    from . import c03_recursion
    c03_recursion.run(chk, facts)
    c03_recursion.run_chain_stores(chk, facts)
    c03_recursion.run_counted_stores(chk, facts)
    from . import c03_lastchar
    c03_lastchar.run(chk, facts)
    chk.rule('C03-R13', 'in p2bin, p2hex, alink and dasl every ChkIO() call stands directly under a failure test of the '
             'operation it checks or is preceded on every path by errno = 0: a well-formed input is not rejected with '
             'an I/O error because of a stale errno', min_instances=100)
    n13 = errno_rule(chk, facts, 'C03-R13', ['p2bin', 'p2hex', 'alink', 'dasl'])
    if n13 < 100:
        raise AnalysisBroken('only %d ChkIO call sites found in the tools' % n13)
    chk.note('Decided: divisor non-zero (R1), stack-head null guards (R2), external integer bounds (R3), '
             'string-copy capacities (R4). Not decided: hangs, heap lifetime, code generators\' private buffers.')
    chk.assumptions.append('malloc results are non-null; zero-initialised globals with a non-zero default are '
                           'read only after their initialiser ran')
