"""C16 — spelling the manual declares irrelevant does not change the code
(letter-case and line-end clauses).

R1 within one code-generator function operand text is compared consistently:
   no exact comparison with a letter literal next to case-insensitive
   comparisons of the same text (or after up-casing it)
R2 the mnemonic is up-cased at one point that dominates every instruction
   table lookup and keyword comparison of the line decoder
R3 ReadLnCont(): the CR of a CR-LF line end is stripped before the line is
   tested for a continuation backslash, in every iteration
"""
import re
from core import *
from .common import *
from .reset import is_gen

EXACT = {'strcmp', 'strncmp'}
NOCASE = {'as_strcasecmp', 'as_strncasecmp', 'strcasecmp', 'strncasecmp'}


def rule_r1(chk, facts, P):
    chk.rule('C16-R1', 'in every code-generator function that compares operand text with keyword literals, the '
             'comparison style is uniform per text: either case-insensitive functions, or exact comparison after the '
             'text was up-cased; an exact comparison of a text that the same function also compares '
             'case-insensitively (and has not up-cased) makes one spelling of a keyword fail', min_instances=200)
    nfun = 0
    for f in P.all_funcs():
        if not is_gen(f.unit.name):
            continue
        ci, ex = {}, {}
        for b, i, ln, n in f.calls(EXACT | NOCASE):
            a0, a1 = nocast(n[2][0]), nocast(n[2][1])
            lit = a1 if a1[0] == 's' else (a0 if a0[0] == 's' else None)
            txt = a0 if lit is a1 else a1
            if lit is None or not re.search('[A-Za-z]', lit[1]):
                continue
            r = lv_root(txt)
            if not r:
                continue
            (ex if callee_name(n) in EXACT else ci).setdefault(r[:2], []).append((b, i, ln, lit[1]))
        if not ci and not ex:
            continue
        nfun += 1
        bad = []
        for k, sites in ex.items():
            if k not in ci:
                continue
            for (b, i, ln, lit) in sites:
                def up(e2, k=k):
                    for m in walk_own(e2):
                        if m[0] == 'call' and callee_name(m) in ('NLS_UpString', 'UpString'):
                            r = lv_root(m[2][0])
                            if r and r[:2] == k:
                                return True
                    return False
                ok, w = f.guarded(b, i, lambda l: False, up)
                if not ok:
                    bad.append('"%s" at line %d' % (lit, ln))
        chk.ob('C16-R1', '%s:%s' % (f.unit.name, f.name), not bad, f.loc(),
               'uniform comparison style' if not bad else
               'the keyword(s) %s are compared exactly although the same operand text is matched case-insensitively '
               'elsewhere in %s: the lower-case spelling is not recognised' % (', '.join(bad), f.name))
    if nfun < 200:
        raise AnalysisBroken('only %d comparing functions found' % nfun)


def rule_r2(chk, facts, P):
    chk.rule('C16-R2', 'as.c Produce_Code(): NLS_UpString(OpPart) is executed on every path before the macro lookup, the '
             'conditional dispatcher, every Memo() keyword test and the pseudo/machine instruction decoding',
             min_instances=8)
    f = facts.func('as.c', 'Produce_Code')

    def up(ex):
        for m in walk_own(ex):
            if m[0] == 'call' and callee_name(m) == 'NLS_UpString' and mentions(m[2][0], lambda x: var_is(x, {'OpPart'})):
                return True
        return False
    n = 0
    for b, i, ln, c in f.calls():
        cn = callee_name(c)
        is_lookup = cn in ('CodeIFs', 'CodeGlobalPseudo', 'FoundMacro', 'ExpandIRP', 'ExpandREPT', 'ExpandWHILE', 'ReadMacro',
                           'ExpandEXITM', 'ExpandSHIFT', 'ExpandINCLUDE')
        if cn is None and nocast(c[1]) == ('g', 'MakeCode'):
            is_lookup, cn = True, 'MakeCode'
        if cn == 'strcmp' and mentions(c[2][0], lambda x: var_is(x, {'OpPart'})) and nocast(c[2][1])[0] == 's':
            is_lookup, cn = True, 'Memo(%s)' % nocast(c[2][1])[1]
        if not is_lookup:
            continue
        n += 1
        ok, w = f.guarded(b, i, lambda l: False, up)
        chk.ob('C16-R2', 'as.c:Produce_Code:%s' % cn, ok, f.loc(ln), 'mnemonic up-cased first' if ok else
               '%s is reached on a path on which the mnemonic has not been up-cased: lower-case spelling fails' % cn)
    if n < 8:
        raise AnalysisBroken('Produce_Code: only %d lookups found' % n)


def rule_r3(chk, facts):
    chk.rule('C16-R3', 'strutil.c ReadLnCont(): on every path from the start of a physical-line iteration to the test '
             'for a trailing continuation backslash, the line end was examined for a carriage return (or no line '
             'terminator was read at all)', min_instances=1)
    f = facts.func('strutil.c', 'ReadLnCont')
    # outer loop = the one that contains the backslash test
    bs = None
    for b, blk in f.blocks.items():
        c = blk.get('cond')
        if c is not None and any(m[0] == 'b' and m[1] in ('==', '!=') and const_val(m[3]) == 92 for m in walk(c)):
            bs = b
    if bs is None:
        raise AnalysisBroken('ReadLnCont: continuation test not found')
    outer = None
    for (h, s0) in f.loops():
        body = f.loop_body(h, s0)
        if bs in body and (outer is None or len(body) > len(outer[2])):
            outer = (h, s0, body)
    if outer is None:
        raise AnalysisBroken('ReadLnCont: outer loop not found')

    def cr_test(ex):
        return any(m[0] == 'b' and m[1] in ('==', '!=') and const_val(m[3]) == 13 for m in walk_own(ex))

    # "nothing (more) was read": the result of fgets() is NULL - tested directly or through a local - or the local
    # that records whether a line terminator was seen is false
    from_fgets, term_flags = set(), set()
    for b, i, ln, m in f.nodes():
        if is_assign(m) and m[1] == '=' and nocast(m[2])[0] == 'l':
            r = nocast(m[3])
            if r[0] == 'call' and callee_name(r) == 'fgets':
                from_fgets.add(nocast(m[2]))
            if any(isinstance(x, (list, tuple)) and x and x[0] == 'b' and x[1] == '==' and const_val(x[3]) == 10 for x in walk(m[3])):
                term_flags.add(nocast(m[2]))

    def is_fgets(x):
        x = nocast(x)
        return x in from_fgets or (x[0] == 'call' and callee_name(x) == 'fgets')

    def no_terminator(l):
        return edge_has_atom(l, lambda a: (a[0] == 'z' and (is_fgets(a[1]) or a[1] in term_flags)) or
                             (a[0] == 'cmp' and a[1] == '==' and is_fgets(a[2]) and const_val(a[3]) == 0) or
                             (a[0] == 'cmp' and a[1] == '<=' and a[2][0] == 'l' and const_val(a[3]) == 0))
    ok, w = f.guarded(bs, 0, no_terminator, cr_test, start=outer[1])
    # the CR test must itself be in the per-chunk loop, i.e. inside the outer iteration
    chk.ob('C16-R3', 'strutil.c:ReadLnCont:cr-before-continuation', ok, f.loc(f.blocks[bs]['term'][1] if f.blocks[bs].get('term') else None),
           'CR stripped before the backslash test' if ok else
           'the continuation backslash is tested before a trailing CR was removed: in CR-LF files a line ending in '
           '"\\\\" is not continued; path %s' % ' '.join(w[-6:]))


def rule_r4(chk, facts, P):
    chk.rule('C16-R4', 'blank, comment-only and label-only lines do not age the state a code generator carries from one '
             'statement to the next: the copy "working = carrier" at the top of a line decoder (pending prefix, pipeline '
             'hazard, delay slot, repeat flag) is executed only behind the test that the statement has a mnemonic '
             '(!Memo("") / *OpPart.str.p_str != 0)', min_instances=5)
    S = P.slots()

    def root(e):
        e = strip(e)
        while e[0] == 'i':
            e = strip(e[1])
        return e

    def nonempty(a):
        e = a[1] if a[0] in ('z', 'nz') else None
        if a[0] == 'nz' and isinstance(e, tuple) and e and e[0] == 'call' and e[1] in (('fn', 'strcmp'), ('fn', 'as_strcasecmp')) and \
                any(nocast(x) == ('s', '') for x in e[2]):
            return True
        if a[0] == 'nz' and isinstance(e, tuple) and e and e[0] == 'u' and e[1] == '*' and mentions(e, lambda x: var_is(x, {'OpPart'})):
            return True
        if a[0] == 'cmp' and a[1] == '!=' and mentions(a[2], lambda x: var_is(x, {'OpPart'})) and const_val(a[3]) == 0:
            return True
        return False
    n = 0
    for u in P.units:
        if not is_generator_unit(u.name):
            continue
        for m in sorted({f for f in S.get('g:MakeCode', ()) if f.unit is u}, key=lambda x: x.name):
            for b, i, ln, nd in m.nodes():
                if not (is_assign(nd) and nd[1] == '='):
                    continue
                v, w = root(nd[2]), root(nd[3])
                if not (v[0] == 'gs' and w[0] == 'gs' and v != w):
                    continue
                kw = u.name + ':' + w[1]
                # a carrier: also written by the decode functions of the module
                if not any(f is not m and f.file == u.name and any(k == kw and how in ('=', 'op', 'elem') for k, how, *_r in P.writes(f))
                           for f in u.funcs.values()) and \
                        not any(k == kw and how in ('=', 'op', 'elem') for k, how, *_r in P.writes(m)):
                    continue
                if not any(k == kw for k, how, *_r in P.writes(m)) and not any(
                        f.file == u.name and f.name.startswith('Decode') and any(k == kw for k, how, *_r in P.writes(f)) for f in u.funcs.values()):
                    continue
                n += 1
                ok = m.guarded(b, i, lambda l: edge_has_atom(l, nonempty))[0]
                chk.ob('C16-R4', '%s:%s:%s<-%s' % (u.name, m.name, v[1], w[1]), ok, m.loc(ln),
                       'only for statements with a mnemonic' if ok else
                       '%s = %s is executed for every line that reaches %s(), also blank, comment-only and label-only ones: a '
                       'comment line between a prefix/flag-setting statement and the instruction it applies to changes the code' %
                       (v[1], w[1], m.name))
    if n < 5:
        raise AnalysisBroken('only %d carrier copies found in the line decoders' % n)


def rule_r5(chk, facts, P):
    chk.rule('C16-R5', 'field separators: no string literal of the program has characters behind an embedded NUL (an octal '
             'escape such as "\\009" ends the string after "\\00"), and every DivideChars setting that makes the blank an '
             'argument divider makes the tab one, too (the manual treats blanks and tabs alike)', min_instances=90)
    n = 0
    for f in P.all_funcs():
        if f.entry is None:
            continue
        for b, i, ln, m in f.nodes():
            if m[0] == 's' and '\x00' in m[1] and m[1].strip('\x00') != '' and '\x00' in m[1].rstrip('\x00'):
                n += 1
                chk.ob('C16-R5', '%s:%s:literal@%d' % (f.unit.name, f.name, ln), False, f.loc(ln),
                       'the string literal %r continues behind a NUL character: everything after it is invisible to the '
                       'string functions (a "\\009" meant as a tab is NUL followed by the digit 9)' % m[1])
            if is_assign(m) and m[1] == '=' and nocast(m[2]) in (('g', 'DivideChars'), ('gs', 'DivideChars')):
                n += 1
                v = nocast(m[3])
                if v[0] != 's':
                    chk.ob('C16-R5', '%s:%s:DivideChars' % (f.unit.name, f.name), True, f.loc(ln), 'not a literal')
                    continue
                eff = v[1].split('\x00')[0]
                ok = not (' ' in eff and '\t' not in eff)
                chk.ob('C16-R5', '%s:%s:DivideChars' % (f.unit.name, f.name), ok, f.loc(ln),
                       'dividers %r' % eff if ok else
                       'the argument dividers are %r: a blank separates the fields but a tab does not, so replacing the '
                       'blank between two fields by a tab changes the result' % eff)
    return n


def rule_r6(chk, facts):
    chk.rule('C16-R6', 'strutil.c ReadLnCont(): the carriage return of a CR-LF pair is looked for in the line collected so '
             'far, not only in the chunk fgets() just delivered: from every branch that finds the chunk empty after the '
             'LF was removed a test for CR is still reachable inside the chunk loop', min_instances=1)
    f = facts.func('strutil.c', 'ReadLnCont')
    lens = set()
    for b, i, ln, m in f.nodes():
        if is_assign(m) and m[1] == '=' and nocast(m[2])[0] == 'l' and nocast(m[3])[0] == 'call' and callee_name(nocast(m[3])) == 'strlen':
            lens.add(nocast(m[2]))
    if not lens:
        raise AnalysisBroken('ReadLnCont: chunk length variable not found')

    def cr_test_block(bb):
        c = f.blocks[bb].get('cond')
        return c is not None and any(m[0] == 'b' and m[1] in ('==', '!=') and const_val(m[3]) == 13 for m in walk(c))
    crs = [b for b in f.blocks if cr_test_block(b)]
    if not crs:
        raise AnalysisBroken('ReadLnCont: no test for a carriage return found')
    # the chunk loop: innermost loop containing the CR tests
    loops = [(h, s0, f.loop_body(h, s0)) for h, s0 in f.loops()]
    reads = [b for b, i, ln, c in f.calls('fgets')]
    inner = [x for x in loops if reads and all(r in x[2] for r in reads)]
    if not inner:
        raise AnalysisBroken('ReadLnCont: chunk loop (fgets) not found')
    h, s0, body = min(inner, key=lambda x: len(x[2]))
    crs = [c for c in crs if c in body]
    if not crs:
        chk.ob('C16-R6', 'strutil.c:ReadLnCont:cr-independent-of-chunk-length', True, f.loc(),
               'no CR test inside the chunk loop: the CR is looked for in the complete line (R3 decides whether early enough)')
        return
    n = 0
    guarded_by_len = False
    for s_, t, l in f.edges():
        if s_ not in body or l is None or l[0] not in ('T', 'F'):
            continue
        ats = atoms(l[1], l[0] == 'T')
        if any(a[0] == 'nz' and a[1] in lens for a in ats) or any(a[0] == 'cmp' and a[1] == '>' and a[2] in lens and const_val(a[3]) == 0 for a in ats):
            if t in crs or any(c in f.reach_forward([t], block_stop=lambda x: x == h) for c in crs):
                guarded_by_len = True
    for s_, t, l in f.edges():
        if s_ not in body or l is None or l[0] not in ('T', 'F'):
            continue
        ats = atoms(l[1], l[0] == 'T')
        empty = any(a[0] == 'z' and a[1] in lens for a in ats) or \
            any(a[0] == 'cmp' and a[1] in ('<=', '==') and a[2] in lens and const_val(a[3]) == 0 for a in ats)
        if not empty:
            continue
        # only branches behind the removal of the LF (the length was decremented) matter
        dec, _ = f.guarded(s_, 0, lambda e: False, lambda ex: any(is_incdec(m) and nocast(m[2]) in lens for m in walk_own(ex)), start=s0)
        if not dec:
            continue
        n += 1
        reach = f.reach_forward([t], block_stop=lambda x: x == h)
        ok = t in crs or any(c in reach for c in crs)
        chk.ob('C16-R6', 'strutil.c:ReadLnCont:empty-chunk@%d' % (f.blocks[s_]['term'][1] if f.blocks[s_].get('term') else s_), ok,
               f.loc(f.blocks[s_]['term'][1] if f.blocks[s_].get('term') else None),
               'a CR test follows' if ok else
               'when the chunk holds nothing but the LF no CR is looked for: a CR that fgets() delivered as the last '
               'character of the previous chunk (line length = buffer size - 2) stays in the line')
    if n == 0:
        ok = not guarded_by_len
        chk.ob('C16-R6', 'strutil.c:ReadLnCont:cr-independent-of-chunk-length', ok, f.loc(),
               'the CR test does not depend on the chunk length' if ok else
               'every CR test requires a non-empty chunk: a CR that fgets() delivered as the last character of the previous '
               'chunk (line length = buffer size - 2) stays in the line')


def run(chk, facts, info):
    P = facts.program('asl')
    # wrapping a text in a parameterless macro makes its labels local to the expansion: statements that define a
    # symbol globally (EQU, SET, labels with GLOBALSYMBOLS, ...) must evaluate their operands before they switch
    # the local symbol space off (rule C13-R6, claimed here for the "macro wrapping" clause)
    chk.rule('C16-R7', 'between PushLocHandle(-1) and its PopLocHandle() only definitions are made - no expression is '
             'evaluated while the labels local to a macro expansion are invisible (C13-R6, applied to "wrapping the text '
             'in a parameterless macro")', min_instances=30)
    from . import c13
    from .c12 import _Sub
    c13.rule_r6(_Sub(chk, 'C16-R7', lambda key: True), facts, P)
    rule_r5(chk, facts, P)
    rule_r6(chk, facts)
    from . import c16_blanktab
    c16_blanktab.run(chk, facts)
    rule_r1(chk, facts, P)
    rule_r2(chk, facts, P)
    rule_r3(chk, facts)
    rule_r4(chk, facts, P)
    chk.note('Decided: uniform comparison style per operand text in every code generator function, up-casing of the '
             'mnemonic before all lookups, CR stripping before the continuation test. Not decided: blanks, comments, '
             'label colon, INCLUDE/macro wrapping.')
