"""C03-R31: recursion is bounded.

"Never killed by a signal" includes the stack: a recursion whose depth the
input chooses (a parenthesis level, an operand of an operator, a call of a
user FUNCTION that names itself, an `@` of an addressing mode) ends in SIGSEGV
when the line is long enough.  Instances are the cycles (strongly connected
components) of the direct call graph of every program.  Each must be one of

  guard       a member F compares a file-level counter, which F itself steps
              up and down, with a limit; the recursive calls of F lie on the
              side of that comparison where the limit is not reached, the
              other side reaches no member; and without F the component has
              no cycle left (every round passes the guard);
  flag        a member F makes its in-cycle calls only while a parameter P is
              non-zero, and every in-cycle call of F hands the constant 0 for
              P: the second level cannot recurse (SysString's byte width,
              `@file` inside a key file);
  structure   a self-recursive function whose every recursive call descends a
              field of one of its pointer parameters: depth = depth of a data
              structure the program built itself (symbol trees, include and
              section lists), one level per source line at most;
  listed      BOUNDED below, with the reason the depth is limited.

Indirect calls (built-in functions of the expression evaluator) are not edges;
they only ever re-enter through EvalStrExpression(), whose guard counts them
at run time."""
from core import *
from .common import *

PROGRAMS = ('asl', 'plist', 'alink', 'p2bin', 'p2hex', 'pbind', 'dasl')

# keyed by one member of the component
BOUNDED = {
    'asmstructs.c:ExpandStruct_One': 'every level appends a separator and an element name to the two prefix buffers and '
                                     'recurses only while STRINGSIZE - 3 - length > 1: at most STRINGSIZE/2 levels',
    'intpseudo.c:DecodeIntelPseudo_LayoutMult': 'works on a copy of its argument in a String (256 bytes) and recurses into a '
                                                'proper part of that copy behind "n DUP (": at most 256/6 levels',
    'asmpars.c:PrintSectionList_PSection': 'one level per nested SECTION statement, i.e. per source line, like the descent of a data '
                                           'structure (the function walks the section list by handle, not by pointer)',
    'asmerr.c:WrErrorString': 'the way back (WrLstLine -> ChkIO -> WrXError) is taken only when writing the listing fails, '
                              'which is a fatal error: the second level ends the program',
}


def _sccs(G):
    idx, low, st, on, out, c = {}, {}, [], set(), [], [0]
    for root in list(G):
        if root in idx:
            continue
        work = [(root, iter(sorted(G.get(root, ()), key=lambda x: x.qname)))]
        idx[root] = low[root] = c[0]
        c[0] += 1
        st.append(root)
        on.add(root)
        while work:
            v, it = work[-1]
            adv = False
            for w in it:
                if w not in idx:
                    idx[w] = low[w] = c[0]
                    c[0] += 1
                    st.append(w)
                    on.add(w)
                    work.append((w, iter(sorted(G.get(w, ()), key=lambda x: x.qname))))
                    adv = True
                    break
                elif w in on:
                    low[v] = min(low[v], idx[w])
            if adv:
                continue
            work.pop()
            if work:
                low[work[-1][0]] = min(low[work[-1][0]], low[v])
            if low[v] == idx[v]:
                comp = []
                while True:
                    w = st.pop()
                    on.discard(w)
                    comp.append(w)
                    if w is v:
                        break
                if len(comp) > 1 or v in G.get(v, ()):
                    out.append(comp)
    return out


def _acyclic_without(G, comp, F):
    S = set(comp) - {F}
    sub = {v: {w for w in G.get(v, ()) if w in S} for v in S}
    return not _sccs(sub)


def _incalls(P, f, S):
    """[(b, i, ln, call, callee)] of calls in f to members of S"""
    out = []
    for b, i, ln, c in f.calls():
        n = callee_name(c)
        if n:
            g = P.resolve(f.unit, n)
            if g in S:
                out.append((b, i, ln, c, g))
    return out


def _guard(P, f, S):
    """(counter, line) when f has a depth guard in the sense of the module text"""
    ins = _incalls(P, f, S)
    if not ins:
        return None
    stepped = set()
    for b, i, ln, m in f.nodes():
        if is_incdec(m) or (is_assign(m) and m[1] in ('+=', '-=')):
            t = nocast(m[2])
            if t[0] in GLOBKINDS:
                stepped.add(tuple(t))
    if not stepped:
        return None
    callblocks = {b for b, i, ln, c, g in ins}
    for bb, blk in f.blocks.items():
        cnd = blk.get('cond')
        if cnd is None or len(blk['succ']) != 2:
            continue
        cs = [a for a in atoms(cnd, True) if a[0] == 'cmp' and a[1] in ('<', '<=', '>', '>=') and
              any(tuple(nocast(x)) in stepped for x in (a[2], a[3]) if isinstance(x, (list, tuple)))]
        if not cs:
            continue
        G = [tuple(nocast(x)) for x in (cs[0][2], cs[0][3]) if isinstance(x, (list, tuple)) and tuple(nocast(x)) in stepped][0]
        st, sf = blk['succ']
        for bail, go, lab in ((st, sf, 'F'), (sf, st, 'T')):
            if bail is None or bail < 0:
                continue
            r = f.reach_forward([bail], block_stop=lambda x, go=go: x == go)
            if (r | {bail}) & callblocks and go not in r:
                continue
            if any(x in callblocks for x in (r | {bail}) if x != go):
                continue
            # every in-cycle call lies behind the other edge of this very condition

            def fact(l, cnd=cnd, lab=lab):
                return l is not None and l[0] == lab and l[1] is cnd
            if all(f.guarded(b, i, fact)[0] for b, i, ln, c, g in ins):
                return G, blk.get('line') or f.line
    return None


def _flag(P, f, S, comp):
    """parameter name when f recurses only under a parameter that every in-cycle caller clears"""
    ins = _incalls(P, f, S)
    if not ins:
        return None
    for pi, q in enumerate(f.params):
        if q['type'].get('ptr'):
            continue
        pv = ('p', q['name'])
        if any(is_assign(m) and tuple(nocast(m[2])) == pv for b, i, ln, m in f.nodes()):
            continue
        if not all(f.guarded(b, i, nz_guard(pv))[0] for b, i, ln, c, g in ins):
            continue
        ok = True
        n = 0
        for h in comp:
            for b, i, ln, c, g in _incalls(P, h, {f}):
                n += 1
                if pi >= len(c[2]) or const_val(nocast(c[2][pi])) != 0:
                    ok = False
        if ok and n:
            return q['name']
    return None


def _structure(P, f, S):
    """self-recursion that descends a field of a pointer parameter in every recursive call"""
    if len(S) != 1:
        return None
    ins = _incalls(P, f, S)
    pp = {('p', q['name']) for q in f.params if q['type'].get('ptr')}
    if not ins or not pp:
        return None
    hit = None
    for b, i, ln, c, g in ins:
        found = None
        for a in c[2]:
            a = nocast(a)
            if a[0] == 'u' and a[1] == '&':
                a = nocast(a[2])
            # p->field, (*p)->field, p->a.b ...
            x = a
            seen_field = False
            while isinstance(x, (list, tuple)) and x and x[0] in ('m', 'u', 'i'):
                if x[0] == 'm':
                    seen_field = True
                    x = nocast(x[1])
                elif x[0] == 'u' and x[1] == '*':
                    x = nocast(x[2])
                elif x[0] == 'i':
                    x = nocast(x[1])
                else:
                    break
            if seen_field and isinstance(x, (list, tuple)) and tuple(x) in pp:
                found = tuple(x)
        if found is None:
            # a local that is only ever loaded from such a field (Lauf = p->Next; f(Lauf))
            for a in c[2]:
                a = nocast(a)
                if a[0] == 'l':
                    ds = [m for b2, i2, l2, m in f.nodes() if is_assign(m) and tuple(nocast(m[2])) == tuple(a)]
                    if ds and all(any(isinstance(y, (list, tuple)) and y and y[0] == 'm' for y in walk(d[3])) and
                                  any(isinstance(y, (list, tuple)) and len(y) == 2 and (tuple(y) in pp or tuple(y) == tuple(a))
                                      for y in walk(d[3])) for d in ds):
                        found = tuple(a)
        if found is None:
            return None
        hit = found
    return hit[1]


def run(chk, facts, rule='C03-R31'):
    chk.rule(rule, 'every cycle of the direct call graph (asl and the tools) bounds its depth: a counter compared with a limit '
             'that every round passes, a flag parameter cleared in the recursive call, descent of a data structure the '
             'program built, or a listed reason; a recursion whose depth is the nesting depth of one source line otherwise '
             'ends in a stack overflow (SIGSEGV)', min_instances=15)
    seen = set()
    n = 0
    for exe in PROGRAMS:
        P = facts.program(exe)
        G = {}
        for f in P.all_funcs():
            if f.entry is None:
                continue
            s = set()
            for b, i, ln, c in f.calls():
                nm = callee_name(c)
                if nm:
                    g = P.resolve(f.unit, nm)
                    if g is not None and g.entry is not None:
                        s.add(g)
            G[f] = s
        for comp in _sccs(G):
            names = sorted('%s:%s' % (f.unit.name, f.name) for f in comp)
            key = '+'.join(names) if len(names) <= 3 else '%s+%d' % (names[0], len(names) - 1)
            if key in seen:
                continue
            seen.add(key)
            n += 1
            S = set(comp)
            how = None
            for f in sorted(comp, key=lambda x: x.qname):
                g = _guard(P, f, S)
                if g and _acyclic_without(G, comp, f):
                    how = 'guard: %s() counts its depth in %s and leaves at the limit; no cycle avoids it' % (f.name, g[0][1])
                    break
            if how is None:
                for f in sorted(comp, key=lambda x: x.qname):
                    p = _flag(P, f, S, comp)
                    if p and _acyclic_without(G, comp, f):
                        how = 'flag: %s() recurses only while %s is set and every recursive call clears it' % (f.name, p)
                        break
            if how is None and len(comp) == 1:
                p = _structure(P, comp[0], S)
                if p:
                    how = 'structure: every recursive call descends a field of %s' % p
            if how is None:
                for nm in names:
                    if nm in BOUNDED:
                        how = 'listed: ' + BOUNDED[nm]
                        chk.exception(rule, key, BOUNDED[nm])
                        break
            f0 = sorted(comp, key=lambda x: x.qname)[0]
            chk.ob(rule, key, how is not None, f0.loc(),
                   how or 'the functions %s call each other without a depth counter, a cleared flag or a data structure that '
                   'bounds the depth: nesting the construct they parse a few thousand times in one line overflows the '
                   'stack and the program dies of SIGSEGV instead of ending with a documented status' % ', '.join(names[:6]))
    return n


def run_chain_stores(chk, facts, rule='C03-R32'):
    """A loop whose trip count the operand chooses (it walks a list built from
    the operand) stores into a fixed-size array at an index derived from a
    counter that the same loop steps up."""
    chk.rule(rule, 'inside a loop, a store into a fixed-size array whose subscript is a local loaded from a counter that the '
             'same loop steps up (extension words of a chained addressing mode) lies behind a comparison of that counter '
             'with a bound - the comparison itself or a helper of the unit that makes it; a store at subscript + k (k > 0) '
             'needs such a test after the last step of the counter', min_instances=8)
    from .c03_bounds import array_size
    P = facts.program('asl')
    n = 0
    for f in P.all_funcs():
        if f.entry is None:
            continue
        succ = None
        for h, s0 in f.loops():
            body = f.loop_body(h, s0)
            stepped = {}
            for b in sorted(body):
                for i, (ln, e) in enumerate(f.blocks[b]['elems']):
                    for m in walk_own(e):
                        if (is_incdec(m) and '+' in str(m[1])) or (is_assign(m) and m[1] == '+='):
                            t = nocast(m[2])
                            if t[0] != 'l':
                                stepped.setdefault(repr(t), (t, []))[1].append((b, i))
            if not stepped:
                continue
            derived = {}
            defsites = {}
            for b in sorted(body):
                for i, (ln, e) in enumerate(f.blocks[b]['elems']):
                    for m in walk_own(e):
                        if is_assign(m) and m[1] == '=' and nocast(m[2])[0] == 'l':
                            for x in walk(m[3]):
                                if isinstance(x, (list, tuple)) and repr(nocast(x)) in stepped:
                                    derived[tuple(nocast(m[2]))] = repr(nocast(x))
                                    defsites.setdefault(tuple(nocast(m[2])), set()).add((b, i))
            if not derived:
                continue
            if succ is None:
                succ = f.succs()
            sites = []
            for b in sorted(body):
                for i, (ln, e) in enumerate(f.blocks[b]['elems']):
                    for m in walk_own(e):
                        if is_assign(m) or is_incdec(m):
                            t = nocast(m[2])
                            if t[0] != 'i' or array_size(P, f, t[1]) is None:
                                continue
                            idx = nocast(t[2])
                            k = 0
                            if idx[0] == 'b' and idx[1] == '+' and const_val(nocast(idx[3])) is not None:
                                k = const_val(nocast(idx[3]))
                                idx = nocast(idx[2])
                            if tuple(idx) in derived:
                                sites.append((ln, b, i, t, k, derived[tuple(idx)], tuple(idx)))
            for ordn, (ln, b, i, t, k, ckey, ixl) in enumerate(sorted(sites, key=lambda s: (s[0], s[4]))):
                ctr, steps = stepped[ckey]
                base = ctr
                while base[0] == 'i':
                    base = nocast(base[1])
                helpers = set()
                for g in P.all_funcs():
                    if g.unit is not f.unit or g.entry is None or g is f:
                        continue
                    for bb, blk in g.blocks.items():
                        c = blk.get('cond')
                        if c is not None and any(a[0] == 'cmp' and any(isinstance(y, (list, tuple)) and tuple(y) == tuple(base)
                                                                        for x in (a[2], a[3]) if isinstance(x, (list, tuple))
                                                                        for y in walk(x)) for a in atoms(c, True)):
                            helpers.add(g.name)

                def fact(lab, base=base, helpers=helpers):
                    def at(a):
                        if a[0] == 'cmp':
                            return any(isinstance(y, (list, tuple)) and tuple(y) == tuple(base)
                                       for x in (a[2], a[3]) if isinstance(x, (list, tuple)) for y in walk(x))
                        if a[0] in ('nz', 'z'):
                            x = nocast(a[1])
                            return x[0] == 'call' and callee_name(x) in helpers
                        return False
                    return edge_has_atom(lab, at)
                if k == 0:
                    # the slot was tested when the subscript was taken: every loading of the subscript from the counter
                    # inside the loop lies behind the test (a store may use the slot of an earlier round)
                    ok, w = True, []
                    for (db, di) in sorted(defsites[ixl]):
                        o2, w2 = f.guarded(db, di, fact, start=h)
                        if not o2:
                            ok, w = False, w2
                            break
                else:
                    ok, w = True, []
                    for (sb, si) in steps:
                        if sb == b and si < i:
                            ok, w = False, ['counter stepped at line %d in the same block' % f.blocks[sb]['elems'][si][0]]
                            break
                        for t2, l in succ.get(sb, ()):
                            if l is not None and fact(l):
                                continue
                            o2, w2 = f.guarded(b, i, fact, start=t2)
                            if not o2:
                                ok, w = False, w2
                                break
                        if not ok:
                            break
                n += 1
                chk.ob(rule, '%s:%s:%s#%d' % (f.unit.name, f.name, show(t), ordn + 1), ok, f.loc(ln),
                       'behind a bound test of %s' % show(ctr) if ok else
                       '%s is stored in a loop at a subscript taken from %s, which the loop steps up, and no comparison of '
                       'that counter with a bound lies on the way (%s): a chain with enough levels writes behind the array' % (
                           show(t), show(ctr), ' '.join(str(x) for x in w[-4:])))
    return n


R33_LISTED = {
    'asmpars.c:EvalStrExpression:FOps': 'one entry per row of the constant operator table at most; the table has fewer rows '
                                        'than OPERATOR_MAXCNT (a compile-time fact)',
    'code78k4.c:DecodeAdr:AdrVals': 'at most three rounds (z <= OpSize < 3) on a freshly cleared address record',
    'strutil.c:vsprcatf_core:Arg': 'the format strings are the program\'s own: at most three arguments per conversion',
    'strutil.c:vsprcatf_core:ArgState': 'as for Arg',
    'cmdarg.c:DecodeLine:EnvStr': 'one entry per blank-separated word of a line that was read into a String (255 characters): '
                                  'at most 128 words for 256 entries',
}


def run_counted_stores(chk, facts, rule='C03-R33'):
    chk.rule(rule, 'inside a loop, a store into a fixed-size array at a subscript that contains a counter the same loop steps '
             'up lies behind a comparison of that counter (loop condition, explicit test, or the condition of a do-while '
             'whose counter starts at a small constant): the number of rounds is chosen by the input (arguments of a '
             'function call, components of an operand), the array is not', min_instances=45)
    from .c03_bounds import array_size
    n = 0
    seen = set()
    for exe in PROGRAMS:
        P = facts.program(exe)
        for f in P.all_funcs():
            if f.entry is None or f.qname in seen:
                continue
            seen.add(f.qname)
            per = {}
            for h, s0 in f.loops():
                body = f.loop_body(h, s0)
                stepped = {}
                for b in body:
                    for i, (ln, e) in enumerate(f.blocks[b]['elems']):
                        for m in walk_own(e):
                            if (is_incdec(m) and '+' in m[1]) or (is_assign(m) and m[1] == '+='):
                                stepped[repr(nocast(m[2]))] = nocast(m[2])
                if not stepped:
                    continue
                for b in sorted(body):
                    for i, (ln, e) in enumerate(f.blocks[b]['elems']):
                        for m in walk_own(e):
                            if not (is_assign(m) or is_incdec(m)):
                                continue
                            t = nocast(m[2])
                            if t[0] != 'i':
                                continue
                            sz = array_size(P, f, t[1])
                            if sz is None:
                                continue
                            cs = [x for x in walk(nocast(t[2])) if isinstance(x, (list, tuple)) and repr(nocast(x)) in stepped]
                            if not cs:
                                continue
                            c = nocast(cs[0])

                            def fact(lab, c=c):
                                return edge_has_atom(lab, lambda a: a[0] == 'cmp' and any(
                                    isinstance(y, (list, tuple)) and tuple(nocast(y)) == tuple(c)
                                    for x in (a[2], a[3]) if isinstance(x, (list, tuple)) for y in walk(x)))
                            ok, w = f.guarded(b, i, fact)
                            if not ok:
                                # do-while: every later round comes through the loop condition; the first one starts
                                # at a constant below the size
                                o2, w2 = f.guarded(b, i, fact, start=h)
                                inits = []
                                if c[0] == 'l':
                                    for d in f.reaching_defs(b, i, tuple(c)):
                                        if is_incdec(d) or (is_assign(d) and d[1] != '='):
                                            continue          # the steps of the loop itself
                                        inits.append(const_val(nocast(d[3] if is_assign(d) else d[2])))
                                if o2 and inits and all(v is not None and 0 <= v < sz for v in inits):
                                    ok = True
                            if not ok and c[0] == 'l' and is_assign(m) and m[1] == '=':
                                # compaction in place: A[c++] = A[v] with v a compared index of the same array and c
                                # starting at 0 and stepped only here: c <= v
                                rd = [x for x in walk(m[3]) if isinstance(x, (list, tuple)) and x and x[0] == 'i' and
                                      nocast(x[1]) == nocast(t[1]) and nocast(x[2]) != nocast(t[2])]
                                steps = [d for b2, i2, l2, d in f.nodes() if (is_incdec(d) or (is_assign(d) and d[1] != '='))
                                         and nocast(d[2]) == c]
                                zero = [d for d in f.reaching_defs(b, i, tuple(c)) if not (is_incdec(d) or (is_assign(d) and d[1] != '='))]
                                if rd and len(steps) == 1 and is_incdec(steps[0]) and any(steps[0] is y for y in walk(m[2])) and \
                                        zero and all(const_val(nocast(d[3] if is_assign(d) else d[2])) == 0 for d in zero):
                                    v = nocast(rd[0][2])

                                    def factv(lab, v=v):
                                        return edge_has_atom(lab, lambda a: a[0] == 'cmp' and any(
                                            isinstance(y, (list, tuple)) and nocast(y) == v
                                            for x in (a[2], a[3]) if isinstance(x, (list, tuple)) for y in walk(x)))
                                    if f.guarded(b, i, factv)[0]:
                                        ok = True
                            base = t[1]
                            while isinstance(base, (list, tuple)) and base and nocast(base)[0] == 'i':
                                base = nocast(base)[1]
                            base = nocast(base)
                            nm = base[2].rsplit('.', 1)[-1] if base[0] == 'm' else (base[1] if len(base) > 1 else show(base))
                            key = '%s:%s:%s' % (f.unit.name, f.name, nm)
                            cur = per.get(key)
                            if cur is None or (cur[0] and not ok):
                                per[key] = (ok, ln, show(t), sz, show(c), w)
            for key, (ok, ln, st, sz, sc, w) in sorted(per.items()):
                n += 1
                why = 'the counter %s is compared on the way to the store' % sc
                if not ok and key in R33_LISTED:
                    ok = True
                    why = 'listed: ' + R33_LISTED[key]
                    chk.exception(rule, key, R33_LISTED[key])
                chk.ob(rule, key, ok, f.loc(ln), why if ok else
                       '%s (%d elements) is stored at a subscript that %s steps up in a loop, and nothing on the way (%s) '
                       'compares %s with a bound: one round more than the array has elements writes behind it' % (
                           st, sz, sc, ' '.join(str(x) for x in w[-4:]), sc))
    return n
