"""C07 — PBIND conserves records and PLIST reports them truthfully
(structural clauses, analysis A8 reader/writer conformance).

R1 pbind.c ProcessFile: on the kept-record path every field that is read is
   written with the same width from the same, unmodified variable, in order;
   the payload copy loop writes what it read
R2 WriteRecordHeader() chooses the short header exactly under the condition
   under which ReadRecordHeader() reconstructs the omitted fields
R3 printf-family format/argument agreement in plist.c, pbind.c, alink.c
R4 plist.c: the family, segment, address and length that are printed are the
   variables bound to the record header / field reads
R5 plist.c: per-segment totals are accumulated with += from the record length
   under the record's segment and nowhere else
"""
from core import *
from .common import *

RW = {'Read2': 2, 'Read4': 4, 'Write2': 2, 'Write4': 4}


def addr_var(a):
    a = strip(a)
    if isinstance(a, tuple) and a and a[0] == 'u' and a[1] == '&':
        return a[2]
    return None


def call_pred(name, argpred=None):
    def pred(ex):
        for m in walk_own(ex):
            if m[0] == 'call' and callee_name(m) == name and (argpred is None or argpred(m)):
                return True
        return False
    return pred


def modifies(var):
    def pred(ex):
        for m in walk_own(ex):
            if (is_assign(m) or is_incdec(m)) and strip(m[2]) == var:
                return True
        return False
    return pred


def reach_avoiding(f, b0, i0, target_b, target_i, stop_elem, stop_blocks=()):
    """Is (target_b, target_i) reachable from just after (b0, i0) without
    passing an element satisfying stop_elem and without entering stop_blocks?"""
    succ = f.succs()
    # remainder of the start block
    el = f.blocks[b0]['elems']
    for j in range(i0 + 1, len(el)):
        if b0 == target_b and j == target_i:
            return True
        if stop_elem(el[j][1]):
            return False
    seen = set()
    work = [t for t, l in succ.get(b0, ())]
    while work:
        b = work.pop()
        if b in seen or b in stop_blocks:
            continue
        seen.add(b)
        el = f.blocks[b]['elems']
        stopped = False
        for j in range(len(el)):
            if b == target_b and j == target_i:
                return True
            if stop_elem(el[j][1]):
                stopped = True
                break
        if stopped:
            continue
        for t, l in succ.get(b, ()):
            work.append(t)
    return False


def record_loop(f):
    """Body entry of the outermost loop containing the ReadRecordHeader call."""
    best = None
    for b, i, ln, n in f.calls('ReadRecordHeader'):
        for (h, s0) in f.loops():
            body = f.loop_body(h, s0)
            if b in body and (best is None or len(body) > len(best[2])):
                best = (h, s0, body)
    if best is None:
        raise AnalysisBroken('%s: record loop not found' % f.qname)
    return best


def rule_r1(chk, facts):
    chk.rule('C07-R1', 'pbind.c ProcessFile: each WriteN(target, &V) is dominated within the record iteration by '
             'ReadN(source, &V) of the same width with V unmodified in between; every field read before a '
             'WriteRecordHeader() is written after it; header variables are the ones ReadRecordHeader() filled, in '
             'the same positions; the payload loop writes the buffer and length it read', min_instances=8)
    f = facts.func('pbind.c', 'ProcessFile')
    h, s0, body = record_loop(f)
    rrh = list(f.calls('ReadRecordHeader'))
    hdr_vars = [addr_var(a) for a in rrh[0][3][2][:4]]
    nW = 0
    for b, i, ln, n in f.calls({'Write2', 'Write4'}):
        w = RW[callee_name(n)]
        v = addr_var(n[2][1])
        key = 'pbind.c:ProcessFile:%s(&%s)' % (callee_name(n), show(v) if v else '?')
        nW += 1
        if v is None:
            chk.ob('C07-R1', key, False, f.loc(ln), 'written value is not a variable read from the source')
            continue
        rd = call_pred('Read%d' % w, lambda m, v=v: addr_var(m[2][1]) == v)
        ok, wit = f.guarded(b, i, lambda l: False, rd, start=s0)
        det = ''
        if not ok:
            other = [callee_name(m) for bb, ii, l2, m in f.calls({'Read2', 'Read4'}) if addr_var(m[2][1]) == v]
            det = ('%s(&%s) is not preceded in the record iteration by Read%d(&%s)%s; path %s' %
                   (callee_name(n), show(v), w, show(v),
                    (' (the variable is read with %s: width mismatch)' % other[0]) if other else '', ' '.join(wit[-5:])))
        else:
            # unmodified between read and write
            for bb, ii, l2, ex in f.elems():
                if modifies(v)(ex) and bb in body:
                    if reach_avoiding(f, bb, ii, b, i, rd, stop_blocks=()):
                        ok = False
                        det = '%s is modified at line %d between its read and its write' % (show(v), l2)
        chk.ob('C07-R1', key, ok, f.loc(ln), det or 'same variable, same width, unmodified')
    # completeness: reads before a WriteRecordHeader are written after it
    for b, i, ln, n in f.calls('WriteRecordHeader'):
        wv = [addr_var(a) for a in n[2][:4]]
        key = 'pbind.c:ProcessFile:WriteRecordHeader@%s' % ('entry' if not any(
            f.guarded(b, i, lambda l: False, call_pred('Read2'), start=s0)[0:1]) else 'data')
        ok = wv == hdr_vars
        chk.ob('C07-R1', key + ':binding', ok, f.loc(ln),
               'header variables (%s) are those filled by ReadRecordHeader, same order' % ', '.join(show(x) for x in wv if x)
               if ok else 'WriteRecordHeader receives %s but ReadRecordHeader filled %s' %
               ([show(x) for x in wv if x], [show(x) for x in hdr_vars if x]))
        for hv in hdr_vars:
            if hv is None:
                continue
            for bb, ii, l2, ex in f.elems():
                if modifies(hv)(ex) and bb in body and reach_avoiding(f, bb, ii, b, i, call_pred('ReadRecordHeader')):
                    chk.ob('C07-R1', key + ':unmodified:' + show(hv), False, f.loc(l2),
                           '%s is modified at line %d before the header is written' % (show(hv), l2))
        widths = []
        for bb, ii, l2, m in f.calls({'Read2', 'Read4'}):
            if bb not in body:
                continue
            ok2, _ = f.guarded(b, i, lambda l: False, lambda ex, m=m: any(x is m for x in walk_own(ex)), start=s0)
            if ok2:
                v = addr_var(m[2][1])
                wname = 'Write%d' % RW[callee_name(m)]
                wr = call_pred(wname, lambda x, v=v: addr_var(x[2][1]) == v)
                # every path from the header write back to the loop header passes the field write
                missing = reach_avoiding(f, b, i, h, 0, wr) or reach_avoiding(f, b, i, f.exit, 0, wr)
                chk.ob('C07-R1', '%s:field:%s' % (key, show(v)), not missing, f.loc(l2),
                       'read before the header write and written after it' if not missing else
                       'field %s is read for a kept record but a path from WriteRecordHeader to the end of the iteration '
                       'does not write it with %s' % (show(v), wname))
                widths.append((l2, RW[callee_name(m)]))
    # payload copy
    nc = 0
    for b, i, ln, n in f.calls('fwrite'):
        if b not in body:
            continue
        nc += 1
        buf, cnt = nocast(n[2][0]), nocast(n[2][2])
        rd = call_pred('fread', lambda m: nocast(m[2][0]) == buf and nocast(m[2][2]) == cnt)
        inner = [(hh, ss) for (hh, ss) in f.loops() if b in f.loop_body(hh, ss) and (hh, ss) != (h, s0)]
        st = min(inner, key=lambda x: len(f.loop_body(*x)))[1] if inner else s0
        ok, wit = f.guarded(b, i, lambda l: False, rd, start=st)
        chk.ob('C07-R1', 'pbind.c:ProcessFile:payload-copy', ok, f.loc(ln),
               'fwrite(%s, 1, %s) follows fread of the same buffer and length in the same iteration' % (show(buf), show(cnt))
               if ok else 'payload fwrite(%s,1,%s) is not preceded by an fread of the same buffer and length' % (show(buf), show(cnt)))
    if nW < 1 or not nc:
        raise AnalysisBroken('pbind.c ProcessFile: expected field writes/copy loop not found')


def rule_r2(chk, facts):
    chk.rule('C07-R2', 'toolutils.c: WriteRecordHeader() emits the one-byte short header only when segment == CODE, '
             'granularity == Granularity(cpu, segment) and cpu < $80, and ReadRecordHeader() reconstructs exactly those '
             'values for a header byte <= $7f', min_instances=6)
    w = facts.func('toolutils.c', 'WriteRecordHeader')
    r = facts.func('toolutils.c', 'ReadRecordHeader')
    wp = [p['name'] for p in w.params]
    rp = [p['name'] for p in r.params]

    def D(fp, idx):
        return ('u', '*', ('p', fp[idx]))
    # writer: find the short-form write: a block where CPU is written and Header is not, under Header == DataRec
    short_sites = []
    for b, i, ln, n in w.calls('fwrite'):
        if nocast(n[2][0]) == ('p', wp[1]):
            # is Header written on every path to here?  short form = not dominated by fwrite(Header)
            dom, _ = w.guarded(b, i, lambda l: False, call_pred('fwrite', lambda m: nocast(m[2][0]) == ('p', wp[0])))
            if not dom:
                short_sites.append((b, i, ln))
    data_short = []
    for (b, i, ln) in short_sites:
        def is_data(a):
            return a[0] == 'cmp' and a[1] == '==' and a[2] == D(wp, 0) and const_val(a[3]) in (0x81, 0x82)
        ok, _ = w.guarded(b, i, lambda l: edge_has_atom(l, is_data))
        if ok:
            data_short.append((b, i, ln))
    if not data_short:
        chk.ob('C07-R2', 'toolutils.c:WriteRecordHeader:short-form', False, w.loc(), 'short-form write not found')
        return

    def granexpr(fp):
        return ('call', ('fn', 'Granularity'), (D(fp, 1), D(fp, 2)))
    for (b, i, ln) in data_short:
        conds = {
            'segment==CODE': lambda a: a[0] == 'cmp' and a[1] == '==' and a[2] == D(wp, 2) and a[3][:2] == ('e', 'SegCode'),
            'gran==Granularity(cpu,seg)': lambda a: a[0] == 'cmp' and a[1] == '==' and a[2] == D(wp, 3) and nocast(a[3]) == granexpr(wp),
            'cpu<$80': lambda a: a[0] == 'cmp' and a[2] == D(wp, 1) and (
                (a[1] == '<' and const_val(a[3]) == 0x80) or (a[1] == '<=' and const_val(a[3]) == 0x7f)),
        }
        for name, pr in conds.items():
            ok, wit = w.guarded(b, i, lambda l, pr=pr: edge_has_atom(l, pr))
            chk.ob('C07-R2', 'toolutils.c:WriteRecordHeader:short-form:' + name, ok, w.loc(ln),
                   'short header only under ' + name if ok else
                   'the short record header is written on a path where %s is not established (reader would reconstruct '
                   'a different record): %s' % (name, ' '.join(wit[-5:])))
    # reader side
    recon = {'cpu=header': (D(rp, 1), lambda v: v == D(rp, 0)),
             'segment=CODE': (D(rp, 2), lambda v: v[:2] == ('e', 'SegCode')),
             'gran=Granularity(cpu,seg)': (D(rp, 3), lambda v: v == granexpr(rp))}
    for name, (tgt, vp) in recon.items():
        found = False
        for b, i, ln, n in r.nodes():
            if is_assign(n) and n[1] == '=' and strip(n[2]) == tgt:
                v = nocast(n[3])
                if not vp(v):
                    chk.ob('C07-R2', 'toolutils.c:ReadRecordHeader:' + name, False, r.loc(ln),
                           'short header reconstructs %s as %s' % (show(tgt), show(v)))
                    found = True
                    continue

                def le7f(a):
                    return a[0] == 'cmp' and a[2] == D(rp, 0) and (
                        (a[1] == '<=' and const_val(a[3]) == 0x7f) or (a[1] == '<' and const_val(a[3]) == 0x80))
                ok, wit = r.guarded(b, i, lambda l: edge_has_atom(l, le7f))
                chk.ob('C07-R2', 'toolutils.c:ReadRecordHeader:' + name, ok, r.loc(ln),
                       'reconstructed under header <= $7f' if ok else 'reconstruction not limited to header <= $7f')
                # every reconstructed field this value reads must have been reconstructed before
                for other, (tgt2, vp2) in recon.items():
                    if tgt2 != tgt and any(strip(m) == tgt2 for m in walk(n[3]) if m[0] == 'u'):
                        dom, w2 = r.guarded(b, i, lambda l: False,
                                            lambda ex, tgt2=tgt2: any(is_assign(m) and strip(m[2]) == tgt2 for m in walk_own(ex)))
                        chk.ob('C07-R2', 'toolutils.c:ReadRecordHeader:%s:uses-reconstructed-%s' % (name, show(tgt2)),
                               dom, r.loc(ln), 'operand %s is reconstructed first' % show(tgt2) if dom else
                               '%s is computed from %s before the short-header branch has set it: the value left over '
                               'from the previous record is used' % (show(tgt), show(tgt2)))
                # the header byte must still hold the cpu id when it is copied
                if name == 'cpu=header':
                    def hdr_over(ex):
                        return any(is_assign(m) and strip(m[2]) == D(rp, 0) for m in walk_own(ex))
                    clobbered = not r.guarded(b, i, lambda l: False, hdr_over)[0] is False
                    before = r.guarded(b, i, lambda l: False, hdr_over)[0]
                    chk.ob('C07-R2', 'toolutils.c:ReadRecordHeader:cpu-copied-before-header-rewrite', not before, r.loc(ln),
                           'cpu id taken before *Header is rewritten' if not before else
                           '*Header is overwritten before its value is copied to *CPU')
                found = True
        if not found:
            chk.ob('C07-R2', 'toolutils.c:ReadRecordHeader:' + name, False, r.loc(),
                   'the short header branch never sets ' + show(tgt))


def rule_r6(chk, facts):
    chk.rule('C07-R6', 'in the code-file I/O of the tools the error handler ChkIO()/FormatError() is reached from an '
             'fread/fwrite call only on the edge on which the call\'s result differs from the requested element '
             'count (never on the edge on which it succeeded)', min_instances=20)
    seenf = set()
    n = 0
    for exe in ('pbind', 'plist', 'p2bin', 'p2hex', 'alink'):
        P = facts.program(exe)
        for f in P.all_funcs():
            if f.qname in seenf or f.unit.name not in ('toolutils.c', 'pbind.c', 'plist.c', 'p2bin.c', 'p2hex.c', 'alink.c'):
                continue
            seenf.add(f.qname)
            for s_, d_, l in f.edges():
                if l is None or l[0] not in ('T', 'F'):
                    continue
                c = nocast(l[1])
                calls = [m for m in walk(c) if m[0] == 'call' and callee_name(m) in ('fwrite', 'fread')]
                if not calls:
                    continue
                tgt = f.blocks[d_]
                if not any(m[0] == 'call' and callee_name(m) in ('ChkIO', 'FormatError') for ln, ex in tgt['elems'] for m in walk_own(ex)):
                    continue
                n += 1
                call = calls[0]
                cnt = nocast(call[2][2])
                def same_count(x):
                    if x == cnt:
                        return True
                    if x[0] == 'l':
                        ds = [nocast(m[3]) for bb, ii, ll, m in f.nodes() if is_assign(m) and m[1] == '=' and strip(m[2]) == x]
                        return len(ds) == 1 and ds[0] == cnt
                    return False
                good = any(a[0] == 'cmp' and a[1] == '!=' and a[2][0] == 'call' and a[2][1] == ('fn', callee_name(call))
                           and same_count(a[3]) for a in atoms(l[1], l[0] == 'T'))
                ln = f.blocks[s_]['term'][1] if f.blocks[s_].get('term') else f.line
                key = '%s:%s:%s(%s)' % (f.unit.name, f.name, callee_name(call), show(call[2][0]))
                chk.ob('C07-R6', key, good, f.loc(ln), 'error handler on result != count' if good else
                       'ChkIO() is reached when %s(...) returns non-zero, i.e. after a successful transfer: a stale errno '
                       'aborts the tool (pbind -q ...: "No such file or directory") and real write errors go unnoticed'
                       % callee_name(call))
    if n < 10:
        raise AnalysisBroken('only %d checked fread/fwrite results found' % n)


def rule_r45(chk, facts):
    chk.rule('C07-R4', 'plist.c ProcessSingle: the family is looked up by the CPU variable, the segment name by the '
             'segment variable, and the printed start/length are the variables filled by Read4/Read2, each bound by '
             'ReadRecordHeader / the field reads of the same iteration', min_instances=4)
    chk.rule('C07-R5', 'plist.c: Sums[] is zeroed only outside the record loop and accumulated only as '
             'Sums[segment] += length with the record\'s own segment and length variables', min_instances=2)
    f = facts.func('plist.c', 'ProcessSingle')
    h, s0, body = record_loop(f)
    rrh = list(f.calls('ReadRecordHeader'))[0][3]
    hv = [addr_var(a) for a in rrh[2][:4]]   # Header, CPU, Segment, Gran
    for b, i, ln, n in f.calls('FindFamilyById'):
        a = nocast(n[2][0])
        chk.ob('C07-R4', 'plist.c:ProcessSingle:family-lookup', a == hv[1], f.loc(ln),
               'FindFamilyById(%s)' % show(a) if a == hv[1] else
               'family looked up by %s instead of the CPU id variable %s' % (show(a), show(hv[1])))
    nseg = 0
    for b, i, ln, n in f.nodes():
        if n[0] == 'i' and nocast(n[1])[:2] in (('g', 'SegNames'),):
            nseg += 1
            a = nocast(n[2])
            chk.ob('C07-R4', 'plist.c:ProcessSingle:segment-name', a == hv[2], f.loc(ln),
                   'SegNames[%s]' % show(a) if a == hv[2] else 'segment name indexed by %s, not by %s' % (show(a), show(hv[2])))
    # printed start / length
    reads = {}
    for b, i, ln, n in f.calls({'Read2', 'Read4'}):
        if b in body:
            reads[addr_var(n[2][1])] = (callee_name(n), b, i)
    for b, i, ln, n in f.calls('printf'):
        if b not in body:
            continue
        for a in n[2][1:]:
            for m in walk(a):
                if m[0] == 'l' and strip(m) in reads:
                    v = strip(m)
                    rd = call_pred(reads[v][0], lambda x, v=v: addr_var(x[2][1]) == v)
                    ok, wit = f.guarded(b, i, lambda l: False, rd, start=s0)
                    chk.ob('C07-R4', 'plist.c:ProcessSingle:print:%s' % show(v), ok, f.loc(ln),
                           'printed after being read in this iteration' if ok else
                           '%s is printed on a path on which it was not read for this record: %s' % (show(v), ' '.join(wit[-5:])))
    if not nseg:
        raise AnalysisBroken('plist.c: SegNames[] use not found')
    P = facts.program('plist')
    ws = P.write_index().get('Sums', []) + P.write_index().get('plist.c:Sums', [])
    if not ws:
        raise AnalysisBroken('plist.c: Sums[] writers not found')
    lenvar = [v for v, (nm, b, i) in reads.items() if nm == 'Read2']
    for (g, how, ln, node, b, i) in ws:
        key = 'plist.c:%s:Sums' % g.name
        if g is f:
            tgt = strip(node[2])
            ok = (is_assign(node) and node[1] == '+=' and tgt[0] == 'i' and nocast(tgt[2]) == hv[2]
                  and nocast(node[3]) in lenvar)
            if ok:
                rd = call_pred('Read2', lambda x: addr_var(x[2][1]) == nocast(node[3]))
                ok, wit = f.guarded(b, i, lambda l: False, rd, start=s0)
            chk.ob('C07-R5', key + ':accumulate', ok, g.loc(ln),
                   'Sums[%s] += %s' % (show(hv[2]), show(node[3])) if ok else
                   'per-segment total updated as %s (expected Sums[%s] += <length read for this record>)' % (show(node), show(hv[2])))
        else:
            ok = is_assign(node) and node[1] == '=' and const_val(node[3]) == 0
            chk.ob('C07-R5', key + ':reset', ok, g.loc(ln), 'reset to 0 outside the record loop' if ok else
                   'Sums written by %s' % show(node))


def rule_r8(chk, facts):
    chk.rule('C07-R8', 'short-header records carry no granularity: the tools take it from Granularity(header id, CODE) in '
             'toolutils.c (doc/file-formats.md, doc/modifying-as.md).  For every code generator whose SwitchTo_* assigns a '
             'constant HeaderID and a constant Grans[SegCode], that table returns the same value (constant propagation '
             'through the switch)', min_instances=40)
    from . import prove
    from .absint import Eval
    A = facts.program('asl')
    T = facts.program('plist')
    gf = facts.func('toolutils.c', 'Granularity')
    segcode = gf.unit.enums.get('SegCode')
    if segcode is None:
        raise AnalysisBroken('SegCode enumerator not found')
    segcode = int(segcode)
    ev = Eval(T)
    n = 0
    for (f, how, ln, node, b, i) in A.write_index().get('HeaderID', []):
        if how != '=':
            continue
        hs = prove.cvals(A, f, node[3])
        if not hs:
            continue
        gr = set()
        for b2, i2, l2, m in f.nodes():
            if is_assign(m) and m[1] == '=':
                t = strip(m[2])
                if t[0] == 'i' and strip(t[1]) == ('g', 'Grans') and const_val(t[2]) == segcode:
                    v = prove.cvals(A, f, m[3])
                    gr |= set(v) if v else {None}
        if not gr or None in gr or len(gr) != 1:
            continue
        g = next(iter(gr))
        for h in sorted(hs):
            if h >= 0x80:
                continue
            n += 1
            tv = ev.call(gf, [h, segcode])
            if tv is None:
                raise AnalysisBroken('Granularity(%#x, CODE) not determined by constant propagation' % h)
            ok = tv == g
            chk.ob('C07-R8', 'toolutils.c:Granularity:%#04x' % h, ok, f.loc(ln),
                   '%s assembles with %d bytes per address, tools agree' % (f.name, g) if ok else
                   '%s assembles the code segment with %d bytes per address, Granularity(%#x, CODE) returns %d: PLIST '
                   'reports a wrong end address for short-header records of this family, PBIND turns a long header with '
                   'granularity %d into a short one' % (f.name, g, h, tv, tv))
    if n < 40:
        raise AnalysisBroken('only %d (header id, granularity) pairs determined' % n)


def run(chk, facts, info):
    rule_r1(chk, facts)
    rule_r2(chk, facts)
    chk.rule('C07-R3', 'every printf-family call in plist.c, pbind.c and alink.c has a conversion for each argument '
             '(clang format checker, -fsyntax-only)', min_instances=40)
    format_rule(chk, facts, 'C07-R3', ['plist.c', 'pbind.c', 'alink.c'])
    rule_r45(chk, facts)
    rule_r6(chk, facts)
    rule_r8(chk, facts)
    chk.rule('C07-R7', 'in plist, pbind and alink (and the shared tool library), every ChkIO() call stands under a '
             'failure test of the operation it checks or is preceded on every path by errno = 0', min_instances=40)
    n7 = errno_rule(chk, facts, 'C07-R7', ['plist', 'pbind', 'alink'])
    if n7 < 40:
        raise AnalysisBroken('only %d ChkIO call sites found in the tools' % n7)
    chk.note('Decided: field-by-field reader/writer conformance of PBIND, short/long header agreement, bindings of '
             'PLIST\'s printed values and totals, format/argument agreement. Not decided: per-record listing values.')
