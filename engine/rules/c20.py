"""C20 — diagnostics point at the offending source position (structural
clauses: slots, ordering, save/restore pairing of the input-tag chain).

R1 every input-tag constructor fills the processor, clean-up and position
   reporter slots on all paths
R2 every line processor updates the current-line counter before returning
R3 EXPECT filtering precedes counting; ENDEXPECT reports every leftover
R4 what a tag's restorer copies back into the position state was saved from
   that same state by the constructor that installed the restorer
R5 the error position is assembled from the GetPos callback of every tag on
   the chain
"""
from core import *
from .common import *

SLOTS = ('Processor', 'Cleanup', 'GetPos')


def tag_field(e, name=None):
    e = strip(e)
    return isinstance(e, tuple) and e and e[0] == 'm' and e[2].split('.')[0] in ('TInputTag', 'tag_TInputTag', 'sInputTag', 'TInputTag_') \
        and (name is None or e[2].endswith('.' + name)) or (
            isinstance(e, tuple) and e and e[0] == 'm' and name is not None and e[2].endswith('.' + name) and 'InputTag' in e[2])


def constructors(u):
    """functions of as.c that call GenerateProcessor() and link the new tag"""
    out = []
    for f in u.funcs.values():
        if f.file != 'as.c' or f.name == 'GenerateProcessor':
            continue
        gp = [(b, i, ln, n) for b, i, ln, n in f.nodes() if is_assign(n) and callee_name(nocast(n[3])) == 'GenerateProcessor']
        if gp:
            out.append((f, gp))
    return out


def field_stores(f, fld):
    for b, i, ln, n in f.nodes():
        if is_assign(n) and n[1] == '=':
            t = strip(n[2])
            if t[0] == 'm' and t[2].endswith('.' + fld) and 'InputTag' in t[2]:
                yield b, i, ln, n


def rule_r1(chk, facts, u, P):
    chk.rule('C20-R1', 'every function of as.c that obtains a fresh input tag from GenerateProcessor() assigns its '
             'Processor, Cleanup and GetPos slots on every path from the allocation to the function\'s exit',
             min_instances=15)
    cons = constructors(u)
    if len(cons) < 6:
        raise AnalysisBroken('only %d input-tag constructors found' % len(cons))
    for f, gp in cons:
        for (b, i, ln, n) in gp:
            for slot in SLOTS:
                def sets(ex, slot=slot):
                    for m in walk_own(ex):
                        if is_assign(m) and strip(m[2])[0] == 'm' and strip(m[2])[2].endswith('.' + slot) and 'InputTag' in strip(m[2])[2]:
                            return True
                    return False
                ok, w = f.must_pass(b, i, sets)
                # a tag that is freed again on an error path needs no slots
                if not ok:
                    def freed(ex):
                        return any(m[0] == 'call' and callee_name(m) == 'free' for m in walk_own(ex))
                    ok, w = f.must_pass(b, i, lambda ex: sets(ex) or freed(ex))
                chk.ob('C20-R1', 'as.c:%s:%s' % (f.name, slot), ok, f.loc(ln),
                       'slot set on all paths' if ok else
                       '%s leaves the %s slot of a new input tag unset on path %s: errors inside that construct are '
                       'reported without (or with a stale) position' % (f.name, slot, ' '.join(w[-5:])))
    return cons


def rule_r2(chk, facts, u, P):
    chk.rule('C20-R2', 'every function stored in an input tag\'s Processor slot assigns CurrLine on every path to its '
             'return (file lines: from the physical line counter advanced by the number of lines read; body lines: '
             'from the tag)', min_instances=5)
    procs = set()
    for key in P.slots():
        if key.endswith('.Processor') and 'InputTag' in key:
            procs |= P.slots()[key]
    procs = {p for p in procs if p.unit.name == 'as.c'}
    if len(procs) < 5:
        raise AnalysisBroken('only %d line processors found' % len(procs))

    def sets_line(ex):
        for m in walk_own(ex):
            if is_assign(m) and strip(m[2]) == ('g', 'CurrLine'):
                return True
        return False
    for f in sorted(procs, key=lambda x: x.name):
        ok, w = f.must_pass(f.entry, -1, sets_line)
        chk.ob('C20-R2', 'as.c:%s:CurrLine' % f.name, ok, f.loc(), 'CurrLine updated on every path' if ok else
               '%s can deliver a line without updating CurrLine: diagnostics name the previous line; path %s' % (f.name, ' '.join(w[-5:])))
    inc = facts.func('as.c', 'INCLUDE_Processor')
    ok = False
    for b, i, ln, n in inc.nodes():
        if is_assign(n) and strip(n[2]) == ('g', 'CurrLine'):
            r = nocast(n[3])
            if mentions(r, lambda m: var_is(m, {'MomLineCounter'})) and mentions(r, lambda m: m[0] == 'l'):
                # the local must be the result of ReadLnCont
                lv = [m for m in walk(r) if m[0] == 'l']
                for m in lv:
                    if any(is_assign(x) and strip(x[2]) == strip(m) and callee_name(nocast(x[3])) == 'ReadLnCont' for b2, i2, l2, x in inc.nodes()):
                        ok = True
    chk.ob('C20-R2', 'as.c:INCLUDE_Processor:physical-lines', ok, inc.loc(),
           'line counter advanced by the number of physical lines ReadLnCont() consumed' if ok else
           'the file line counter is not advanced by ReadLnCont()\'s line count: continuation lines shift every later position')
    # ReadLnCont: the count it returns is advanced once per physical line, whether or not the line is terminated
    rl = facts.func('strutil.c', 'ReadLnCont')
    rv = None
    for b, i, ln, n in rl.nodes():
        if n[0] == 'ret' and n[1] is not None and strip(n[1])[0] == 'l':
            rv = strip(n[1])
    if rv is None:
        raise AnalysisBroken('ReadLnCont does not return a local counter')

    def incr(ex):
        return any((is_incdec(m) or (is_assign(m) and m[1] == '+=')) and strip(m[2]) == rv for m in walk_own(ex))
    tests = []
    for bid, bl in rl.blocks.items():
        c = bl.get('cond')
        if c is not None and len(bl['succ']) == 2 and any(const_val(m) == 92 for m in walk(c) if m[0] in ('c', 'cast')):
            tests.append(bid)
    if not tests:
        raise AnalysisBroken('continuation test of ReadLnCont not found')
    for bid in tests:
        bl = rl.blocks[bid]
        idx = len(bl['elems']) - 1
        ok1, w1 = rl.guarded(bid, idx, lambda l: False, incr)
        ok2, w2 = True, []
        t = bl['succ'][0]
        if t is not None and t >= 0:
            ok2, w2 = rl.guarded(bid, idx, lambda l: False, incr, start=t)
        ok = ok1 and ok2
        chk.ob('C20-R2', 'strutil.c:ReadLnCont:count-per-physical-line', ok, rl.loc(),
               'the returned line count is advanced before every continuation test' if ok else
               'a physical line can be consumed (%s) without advancing the returned line count %s: every later position in '
               'the file is reported one line early; path %s' % ('first line' if not ok1 else 'continued line', rv[1], ' '.join((w1 or w2)[-6:])))


def rule_r3(chk, facts):
    chk.rule('C20-R3', 'WrXErrorPos(): the lookup of an EXPECTed message number precedes the emitter on every path and a '
             'match returns without emitting; CodeENDEXPECT reports every entry that is still pending and empties '
             'the list', min_instances=3)
    f = facts.func('asmerr.c', 'WrXErrorPos')

    def lookup(ex):
        return any(m[0] == 'call' and callee_name(m) == 'FindAndTakeExpectError' for m in walk_own(ex))
    for b, i, ln, n in f.calls('WrErrorString'):
        ok, w = f.guarded(b, i, lambda l: False, lookup)
        chk.ob('C20-R3', 'asmerr.c:WrXErrorPos:lookup-before-emit', ok, f.loc(ln), 'EXPECT list consulted first' if ok else
               'a diagnostic is emitted on a path that did not consult the EXPECT list')
        # emitter only on the "not expected" edge
        recv = None
        for b2, i2, l2, m in f.nodes():
            if is_assign(m) and callee_name(nocast(m[3])) == 'FindAndTakeExpectError':
                recv = strip(m[2])
        ok2 = recv is not None and f.guarded(b, i, lambda l: edge_has_atom(l, lambda a: a[0] == 'z' and a[1] == recv))[0]
        chk.ob('C20-R3', 'asmerr.c:WrXErrorPos:expected=>suppressed', ok2, f.loc(ln),
               'announced messages are suppressed' if ok2 else 'an announced (EXPECTed) message is emitted anyway')
    g = facts.func('asmerr.c', 'CodeENDEXPECT')
    ok = False
    for (h, s0) in g.loops():
        body = g.loop_body(h, s0)
        hb = g.blocks[h]
        if mentions(hb.get('cond'), lambda m: m[0] in ('gs', 'g') and m[1] == 'pExpectErrors'):
            rep = any(m[0] == 'call' and (callee_name(m) or '').startswith('WrXError') for bb in body for l2, ex in g.blocks[bb]['elems'] for m in walk_own(ex))
            adv = any(is_assign(m) and strip(m[2])[0] in ('gs', 'g') and strip(m[2])[1] == 'pExpectErrors' for bb in body for l2, ex in g.blocks[bb]['elems'] for m in walk_own(ex))
            ok = rep and adv
    chk.ob('C20-R3', 'asmerr.c:CodeENDEXPECT:reports-leftovers', ok, g.loc(),
           'every pending expectation is reported and removed' if ok else
           'ENDEXPECT does not report every announced message that did not occur')


POSITION_STATE = {'MomLineCounter', 'CurrLine', 'CurrFileName', 'CurrIncludeLevel', 'DoLst', 'IncDepth'}


def rule_r4(chk, facts, u, P, cons):
    chk.rule('C20-R4', 'for every input-tag constructor: each global of the position state that the installed Restorer '
             '(or Cleanup) copies back from a tag field was saved from that same global into that field by the '
             'constructor (or by GenerateProcessor()) on every path before the tag is linked', min_instances=6)
    gen = facts.func('as.c', 'GenerateProcessor')

    def saves(f, fld, glob):
        """elements in f that store global `glob` into tag field `fld` (assignment or string copy)"""
        def pred(ex):
            for m in walk_own(ex):
                if is_assign(m) and m[1] == '=':
                    t = strip(m[2])
                    if t[0] == 'm' and t[2].endswith('.' + fld) and 'InputTag' in t[2] and nocast(m[3]) == ('g', glob):
                        return True
                if m[0] == 'call' and callee_name(m) in ('strmaxcpy', 'strcpy') and len(m[2]) >= 2:
                    d, s_ = strip(m[2][0]), nocast(m[2][1])
                    if d[0] == 'm' and d[2].endswith('.' + fld) and s_ == ('g', glob):
                        return True
            return False
        return pred
    n = 0
    for f, gp in cons:
        # callbacks installed by this constructor
        cbs = set()
        for slot in ('Restorer', 'Cleanup'):
            for b, i, ln, m in field_stores(f, slot):
                r = nocast(m[3])
                if r[0] == 'fn':
                    t = P.resolve(f.unit, r[1])
                    if t is not None:
                        cbs.add(t)
        for cb in sorted(cbs, key=lambda x: x.name):
            for b, i, ln, m in cb.nodes():
                pairs = []
                if is_assign(m) and m[1] == '=' and strip(m[2])[0] == 'g' and strip(m[2])[1] in POSITION_STATE:
                    r = nocast(m[3])
                    if r[0] == 'm' and 'InputTag' in r[2]:
                        pairs.append((strip(m[2])[1], r[2].split('.')[-1]))
                if m[0] == 'call' and callee_name(m) in ('strmaxcpy', 'strcpy') and len(m[2]) >= 2:
                    d, s_ = nocast(m[2][0]), nocast(m[2][1])
                    if d[0] == 'g' and d[1] in POSITION_STATE and s_[0] == 'm' and 'InputTag' in s_[2]:
                        pairs.append((d[1], s_[2].split('.')[-1]))
                for glob, fld in pairs:
                    n += 1
                    ok = False
                    for (gb, gi, gl, gn) in gp:
                        # saved by the constructor after the allocation on all paths ...
                        ok1, w = f.must_pass(gb, gi, saves(f, fld, glob))
                        # ... or by GenerateProcessor itself, with no later overwrite from something else
                        ok2 = any(saves(gen, fld, glob)(ex) for l2, ex in ((l3, e3) for bb in gen.blocks.values() for (l3, e3) in bb['elems']))
                        if ok2:
                            overwritten = any(True for b3, i3, l3, m3 in field_stores(f, fld) if nocast(m3[3]) != ('g', glob))
                            ok2 = not overwritten
                        ok = ok1 or ok2
                    chk.ob('C20-R4', 'as.c:%s:%s<-%s.%s' % (f.name, glob, cb.name, fld), ok, cb.loc(ln),
                           'saved by the constructor' if ok else
                           '%s() restores %s from the tag field %s, but %s() does not save %s into that field: after the '
                           'construct ends the position state is set to an unrelated value (later diagnostics name wrong '
                           'lines)' % (cb.name, glob, fld, f.name, glob))
    if n < 3:
        raise AnalysisBroken('only %d restore pairs found' % n)


def rule_r5(chk, facts):
    chk.rule('C20-R5', 'GetErrorPos() calls the GetPos callback of the tags on the input chain (walking via ->Next), '
             'so every enclosing include/expansion contributes to the reported position', min_instances=1)
    f = facts.func('as.c', 'GetErrorPos')
    calls = [n for b, i, ln, n in f.nodes() if n[0] == 'call' and callee_name(n) is None and strip(n[1])[0] == 'm' and strip(n[1])[2].endswith('.GetPos')]
    walks = any(is_assign(n) and mentions(n[3], lambda m: m[0] == 'm' and m[2].endswith('.Next')) for b, i, ln, n in f.nodes())
    ok = bool(calls) and walks
    chk.ob('C20-R5', 'as.c:GetErrorPos:chain', ok, f.loc(), '%d GetPos dispatches over the chain' % len(calls) if ok else
           'GetErrorPos() no longer walks the whole input-tag chain')


def rule_r6(chk, facts, u):
    chk.rule('C20-R6', 'as.c: the group size of an IRP/IRPN tag (ParIter, where 0 stands for the plain IRP) is normalised the '
             'same way wherever it is used: every "x->ParIter == 0 ? A : B" that yields a number has A = 1 and B = '
             'x->ParIter - the position reporter steps back by the same group size by which the line processor advances',
             min_instances=3)
    n = 0
    for f in u.funcs.values():
        if f.file != 'as.c':
            continue
        seen = set()
        for b, i, ln, m in ((b, i, ln, m) for b, i, ln, ex in f.elems() for m in walk(ex) if isinstance(m, (list, tuple)) and m and m[0] == '?'):
            if (ln, repr(m)) in seen:
                continue
            seen.add((ln, repr(m)))
            c = nocast(m[1])
            if not (c[0] == 'b' and c[1] == '==' and const_val(c[3]) == 0 and strip(c[2])[0] == 'm' and strip(c[2])[2].endswith('.ParIter')):
                continue
            a, bb = nocast(m[2]), nocast(m[3])
            if a[0] == 's' or bb[0] == 's':
                continue            # selects a text ("IRP"/"IRPN"), not the group size
            n += 1
            ok = const_val(a) == 1 and strip(bb) == strip(c[2])
            chk.ob('C20-R6', 'as.c:%s:ParIter-normalisation' % f.name, ok, f.loc(ln), '0 -> 1, else the group size' if ok else
                   'the group size is normalised as "%s ? %s : %s": for a plain IRP it becomes %s, so the reporter does not '
                   'step back to the argument the failing line was expanded with' % (show(c), show(a), show(bb), show(a)))
    if n < 3:
        raise AnalysisBroken('only %d ParIter normalisations found' % n)


def rule_r7(chk, facts, u):
    chk.rule('C20-R7', 'GetErrorPos() builds the position text of a diagnostic in a buffer it grows step by step, and the '
             'bounded append/prepend helpers cut what does not fit: every non-constant capacity it requests with '
             'ReallocStr() is the running length plus the text to add plus at least one byte for the terminator (constant '
             'part of the request, including a constant start value of the running length, >= 1). Without the byte the '
             'last character of a tag - the last digit of a line number - is dropped when the text ends exactly on the '
             'allocation granule', min_instances=3)
    f = u.funcs['GetErrorPos']
    n = 0

    def terms(e, out):
        e = nocast(e)
        if e[0] == 'ref':
            e = nocast(e[1])
        if is_assign(e) and e[1] == '=':
            return terms(e[3], out)
        if e[0] == 'b' and e[1] == '+':
            terms(e[2], out)
            terms(e[3], out)
        else:
            out.append(e)
        return out

    def const_defs(name):
        cs = []
        for b, i, ln, m in f.nodes():
            if m[0] == 'decl' and m[1] == name and m[2] is not None and const_val(nocast(m[2])) is not None:
                cs.append(const_val(nocast(m[2])))
            if is_assign(m) and m[1] == '=' and nocast(m[2]) == ('l', name) and const_val(nocast(m[3])) is not None:
                cs.append(const_val(nocast(m[3])))
        return cs
    for b, blk in f.blocks.items():
        for idx, (ln, ex) in enumerate(blk['elems']):
            if not (ex[0] == 'call' and callee_name(ex) == 'ReallocStr' and len(ex[2]) >= 2):
                continue
            size = nocast(ex[2][1])
            if const_val(size) is not None:
                continue
            n += 1
            ts = terms(size, [])
            # a bare local assigned just before in the same block: look through it once
            out = []
            for t in ts:
                if t[0] == 'l':
                    prev = None
                    for j in range(idx - 1, -1, -1):
                        m = blk['elems'][j][1]
                        if is_assign(m) and nocast(m[2]) == t:
                            prev = m
                            break
                    if prev is not None and prev[1] == '=':
                        out += terms(prev[3], [])
                        continue
                    if prev is not None and prev[1] == '+=':
                        out += [t] + terms(prev[3], [])
                        continue
                out.append(t)
            c = sum(const_val(t) for t in out if const_val(t) is not None)
            for t in out:
                if t[0] == 'l':
                    cs = const_defs(t[1])
                    if cs:
                        c += min(cs)
            ok = c >= 1
            chk.ob('C20-R7', 'as.c:GetErrorPos:ReallocStr@%d' % n, ok, f.loc(ln),
                   'request = %s, constant part %d' % (' + '.join(show(t) for t in out), c) if ok else
                   'the capacity requested is %s: no byte for the terminating NUL. strmaxprep()/as_snprcatf() then cut the '
                   'text to the capacity, so when running length + new text is a multiple of the allocation granule the last '
                   'character of the tag (a digit of the line number, or the separator) is lost'
                   % ' + '.join(show(t) for t in out))
    return n


def run(chk, facts, info):
    P = facts.program('asl')
    u = facts.unit('as.c')
    cons = rule_r1(chk, facts, u, P)
    rule_r2(chk, facts, u, P)
    rule_r3(chk, facts)
    rule_r4(chk, facts, u, P, cons)
    rule_r5(chk, facts)
    rule_r6(chk, facts, u)
    rule_r7(chk, facts, u)
    chk.note('Decided: callback slots of every input-tag constructor, CurrLine update in every line processor, EXPECT '
             'ordering, save/restore pairing of the position state, chain walk of the position reporter. Not decided: '
             'positions printed for concrete nestings.')
