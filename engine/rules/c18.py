"""C18 — files assembled in one invocation do not influence each other
(structural clauses: reset completeness, analysis A5).

R1 every core variable that the body of a pass writes is re-initialised for
   the next file (at file or pass start, or cleared at file end), or is
   classified with a supporting check
R2 every SwitchTo_* sets the whole target interface that is not reset centrally
R3 registered per-target state (ASSUME registers, ON/OFF flags, CPU arguments)
   is re-initialised
"""
from core import *
from .common import *
from . import reset


def run(chk, facts, info):
    chk.rule('C18-R1', 'every static-storage variable of the core modules that may be written while a file is assembled '
             'is assigned on every path of the per-file or per-pass initialisation or cleared at file end, or belongs to '
             'a listed class (line scratch, cache, handle, emptied list, balanced pair) whose supporting check holds',
             min_instances=180)
    reset.core_reset(chk, facts, 'C18-R1', 'file')
    chk.rule('C18-R2', 'each of the code generators\' CPU switch functions assigns MakeCode, IsDef, SwitchFrom, PCSymbol, '
             'HeaderID, NOPCode, DivideChars, HasAttrs, ValidSegs, TurnWords on every path and sets Grans, ListGrans, '
             'SegInits (and SegLimits unless it installs its own ChkPC) for its segments', min_instances=160)
    reset.switchto_interface(chk, facts, 'C18-R2')
    chk.rule('C18-R3', 'every ASSUME destination, every ON/OFF flag and every CPU argument is re-initialised at pass '
             'start or by the SwitchTo_* that registers it', min_instances=15)
    reset.registered_reset(chk, facts, 'C18-R3')
    chk.rule('C18-R4', 'a code generator reads a core scratch variable that code generators write only if the module '
             'itself or a core module assigns it; otherwise its output depends on the target that was assembled before '
             '(another file, or an earlier CPU statement)', min_instances=900)
    foreign_scratch_rule(chk, facts.program('asl'), 'C18-R4', min_instances=900)
    chk.note('Decided: reset completeness of core state, target interface exhaustiveness of all CPU switch functions, '
             'reset of registered per-target state. Not decided: equality of outputs for concrete file pairs; private '
             'statics of code generators beyond the registered ones.')
