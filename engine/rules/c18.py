"""C18 — files assembled in one invocation do not influence each other
(structural clauses: reset completeness, analysis A5).

R1 every core variable that the body of a pass writes is re-initialised for
   the next file (at file or pass start, or cleared at file end), or is
   classified with a supporting check
R2 every SwitchTo_* sets the whole target interface that is not reset centrally
R3 registered per-target state (ASSUME registers, ON/OFF flags, CPU arguments)
   is re-initialised
"""
from core import *
from .common import *
from . import reset
from . import effects as E


def run(chk, facts, info):
    chk.rule('C18-R1', 'every static-storage variable of the core modules that may be written while a file is assembled '
             'is assigned on every path of the per-file or per-pass initialisation or cleared at file end, or belongs to '
             'a listed class (line scratch, cache, handle, emptied list, balanced pair) whose supporting check holds',
             min_instances=180)
    reset.core_reset(chk, facts, 'C18-R1', 'file')
    chk.rule('C18-R2', 'each of the code generators\' CPU switch functions assigns MakeCode, IsDef, SwitchFrom, PCSymbol, '
             'HeaderID, NOPCode, DivideChars, HasAttrs, ValidSegs, TurnWords on every path and sets Grans, ListGrans, '
             'SegInits (and SegLimits unless it installs its own ChkPC) for its segments', min_instances=160)
    reset.switchto_interface(chk, facts, 'C18-R2')
    chk.rule('C18-R3', 'every ASSUME destination, every ON/OFF flag and every CPU argument is re-initialised at pass '
             'start or by the SwitchTo_* that registers it', min_instances=15)
    reset.registered_reset(chk, facts, 'C18-R3')
    chk.rule('C18-R4', 'a code generator reads a core scratch variable that code generators write only if the module '
             'itself or a core module assigns it; otherwise its output depends on the target that was assembled before '
             '(another file, or an earlier CPU statement)', min_instances=900)
    foreign_scratch_rule(chk, facts.program('asl'), 'C18-R4', min_instances=900)
    chk.rule('C18-R5', 'the active target is switched off (its SwitchFrom procedure runs, which is where targets report '
             'what they can only know at the end of the source: open execute packets, missing LTORG) inside the '
             'end-of-pass phase of the file it belongs to: every path through each PASS_EXIT root that ends the pass '
             'reaches the indirect call through SwitchFrom before the pass\'s error accounting is closed', min_instances=1)
    P = facts.program('asl')
    ph = asl_phases(facts, P)
    swf = {f for f in P.all_funcs() for b, i, ln, n in f.nodes()
           if n[0] == 'call' and isinstance(n[1], (list, tuple)) and strip(n[1]) == ('g', 'SwitchFrom')}
    if not swf:
        raise AnalysisBroken('no indirect call through SwitchFrom found')
    ex = facts.func('as.c', 'AssembleFile_ExitPass')
    if ex not in ph['PASS_EXIT']:
        raise AnalysisBroken('AssembleFile_ExitPass is no longer part of the end-of-pass phase')

    def switches_off(e):
        for m in walk_own(e):
            if m[0] == 'call' and callee_name(m):
                g = P.resolve(ex.unit, callee_name(m))
                if g is not None and (g in swf or swf & P.closure([g])):
                    return True
        return False
    ok, w = ex.must_pass(ex.entry, -1, switches_off)
    # ... and before the error accounting of the pass is closed
    ok2 = True
    for b, i, ln, n in ex.calls('AsmErrPassExit'):
        ok2 = ok2 and ex.guarded(b, i, lambda l: False, switches_off)[0]
    chk.ob('C18-R5', 'as.c:AssembleFile_ExitPass:SwitchFrom', ok and ok2, ex.loc(),
           'target switched off at the end of the pass, before AsmErrPassExit()' if ok and ok2 else
           'the end-of-pass phase %s: diagnostics a target raises when it is switched off appear in the next pass or '
           'the next file (wrong -E log, error count already reset), and a listing that is not open yet is written to' %
           ('does not run the target\'s SwitchFrom on path ' + ' '.join(w[-4:]) if not ok else 'closes the error accounting first'))
    chk.rule('C18-R6', 'asmallg.c ParseCPUArgs(): the "name=value:..." list it cuts apart (StrCompSplitRef() writes NULs into its '
             'source) is a private copy in a local buffer, never a reference to the caller\'s component: the -cpu command '
             'line value that AssembleFile_InitPass() passes for every file and pass stays intact', min_instances=2)
    pa = facts.func('asmallg.c', 'ParseCPUArgs')
    params = {('p', q['name']) for q in pa.params}
    larr = {n_ for n_, t in pa.locals.items() if not t.get('ptr') and t.get('size', 0) >= 64 and t.get('bits') is None}

    def origin(ex, var):
        for m in walk_own(ex):
            if m[0] == 'call' and callee_name(m) and m[2]:
                a0 = nocast(m[2][0])
                if not (a0[0] == 'u' and a0[1] == '&' and strip(a0[2]) == var):
                    continue
                cn = callee_name(m)
                if cn == 'StrCompMkTemp' and len(m[2]) > 1 and strip(m[2][1])[0] == 'l':
                    return 'private'
                if cn.startswith('StrCompRef') and len(m[2]) > 1 and strip(m[2][1]) in params:
                    return 'callers'
                if cn.startswith('StrCompRef') or cn == 'StrCompSplitRef':
                    return None          # derived from another local: origin unchanged
            if is_assign(m) and m[1] == '=' and strip(m[2]) == var and strip(m[3])[0] == 'l':
                return None
        return None
    k6 = 0
    for b, i, ln, c in pa.calls('StrCompSplitRef'):
        if len(c[2]) < 3:
            continue
        src = nocast(c[2][2])
        if not (src[0] == 'u' and src[1] == '&'):
            continue
        var = strip(src[2])
        # follow "var = other" / split results back to the component that was initialised
        roots = {var}
        for b2, i2, l2, m in pa.nodes():
            if is_assign(m) and m[1] == '=' and strip(m[2]) in roots and strip(m[3])[0] == 'l':
                roots.add(strip(m[3]))
            if m[0] == 'call' and callee_name(m) == 'StrCompSplitRef' and len(m[2]) >= 3:
                outs = {strip(nocast(x)[2]) for x in m[2][:2] if nocast(x)[0] == 'u'}
                if outs & roots and nocast(m[2][2])[0] == 'u':
                    roots.add(strip(nocast(m[2][2])[2]))
        k6 += 1
        lw = set()
        for r_ in roots:
            lw |= pa.last_writers(b, i, lambda ex, r_=r_: origin(ex, r_)) - {'entry'}
        ok = lw == {'private'}
        chk.ob('C18-R6', 'asmallg.c:ParseCPUArgs:split-source@%d' % k6, ok, pa.loc(ln),
               'splits a private copy' if ok else
               'the component that is cut apart can be %s: the NULs are written into the caller\'s string, so the second '
               'file (and the second pass) sees "-cpu X:arg" without "=value" and falls back to the default' %
               (', '.join(sorted(lw)) or 'uninitialised'))
    if k6 < 2:
        raise AnalysisBroken('ParseCPUArgs: split operations not found')
    chk.rule('C18-R7', 'code generators that keep "what the previous statement did" (pipeline hazards, pending prefixes, '
             'delay slots) copy a carrier variable into a working variable at the top of their line decoder (X = N_X). The '
             'carrier - the variable the decode functions write for the *next* line - is what must be reset by the '
             'module\'s init-pass procedure or switch function; resetting only the working copy has no effect', min_instances=5)
    S = P.slots()
    n7 = 0

    def root(e):
        e = strip(e)
        while e[0] == 'i':
            e = strip(e[1])
        return e
    for u in P.units:
        if not is_generator_unit(u.name):
            continue
        mk = {f for f in S.get('g:MakeCode', ()) if f.unit is u}
        if not mk:
            continue
        resetf = None
        for m in sorted(mk, key=lambda x: x.name):
            for b, i, ln, nd in m.nodes():
                if not (is_assign(nd) and nd[1] == '='):
                    continue
                v, w = root(nd[2]), root(nd[3])
                if not (v[0] == 'gs' and w[0] == 'gs' and v != w):
                    continue
                kw = u.name + ':' + w[1]
                writers = [f for f in u.funcs.values() if f.file == u.name and
                           any(k == kw and how in ('=', 'op', 'elem') for k, how, *_r in P.writes(f))]
                if resetf is None:
                    resetf = reset.unit_reset_funcs(P, u)
                    killed = set()
                    for f in resetf:
                        killed |= E.kill(P, f)
                if not [f for f in writers if f not in resetf]:
                    continue          # not written while lines are decoded: configuration, not a carrier
                n7 += 1
                ok = kw in killed
                chk.ob('C18-R7', '%s:%s:%s<-%s' % (u.name, m.name, v[1], w[1]), ok, m.loc(ln),
                       'carrier %s reset per pass / CPU switch' % w[1] if ok else
                       '%s() starts every line with %s = %s, and %s is written by %s for the next line, but no init-pass procedure '
                       'or switch function of %s assigns %s: the first statement of the next file (or pass) is decoded with the '
                       'state the previous source ended in' % (m.name, v[1], w[1], w[1],
                                                                ', '.join(sorted(f.name for f in writers if f not in resetf))[:60], u.name, w[1]))
    if n7 < 5:
        raise AnalysisBroken('only %d carrier copies found in the line decoders' % n7)
    chk.note('Decided: reset completeness of core state, target interface exhaustiveness of all CPU switch functions, '
             'reset of registered per-target state. Not decided: equality of outputs for concrete file pairs; private '
             'statics of code generators beyond the registered ones.')
