"""C16-R8: "the first blank or tab".  Where a function looks for a blank and
for a tab in the same text (two searches, character 32 and character 9) and
cuts the text at one of the results, the choice has to compare the two
positions: taking the tab whenever there is one makes ' ' and '\\t' between
two fields behave differently."""
from core import *
from .common import *

SEARCH = {'QuotPos', 'strchr', 'QuotPosQualify', 'RQuotPos'}


def run(chk, facts, rule='C16-R8'):
    chk.rule(rule, 'a function that searches the same text for a blank and for a tab decides between the two results by '
             'comparing their positions (the earlier one wins): blanks and tabs between fields are interchangeable',
             min_instances=1)
    P = facts.program('asl')
    n = 0
    for f in P.all_funcs():
        if f.entry is None:
            continue
        res = {}
        for b, i, ln, m in f.nodes():
            if is_assign(m) and m[1] == '=' and nocast(m[2])[0] == 'l':
                r = nocast(m[3])
                if r[0] == 'call' and callee_name(r) in SEARCH and len(r[2]) >= 2 and const_val(nocast(r[2][1])) in (32, 9):
                    res.setdefault(repr(nocast(r[2][0])), {})[const_val(nocast(r[2][1]))] = (nocast(m[2]), ln)
        for txt, d in res.items():
            if not (32 in d and 9 in d):
                continue
            pb, pt = d[32][0], d[9][0]
            if pb == pt:
                continue        # one variable reused (running minimum / fallback): not this idiom
            n += 1
            ok = any(m[0] == 'b' and m[1] in ('<', '>', '<=', '>=') and {nocast(m[2]), nocast(m[3])} == {pb, pt} for b, i, ln, m in f.nodes())
            chk.ob(rule, '%s:%s:%s/%s' % (f.unit.name, f.name, pb[1], pt[1]), ok, f.loc(d[32][1]),
                   'positions compared' if ok else
                   '%s (blank) and %s (tab) are never compared with each other: when both occur the choice does not depend on '
                   'which comes first, so a blank followed later by a tab cuts the text at the wrong place' % (pb[1], pt[1]))
    return n
