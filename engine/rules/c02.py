"""C02 — exit status, code file and reported errors always agree (structural
clauses).

R1 only the emitter increments the diagnostic counters; they are zeroed only
   at the start of a pass
R2 in the emitter every diagnostic increments exactly one counter, and
   -Werror can only turn a warning into an error
R3 the counters are at least as wide as the -maxerrors limit (no wrap-around
   to "zero errors")
R4 output removal, global error flag and exit status hang off one predicate
R5 exit codes per program are the documented ones; every fatal exit of the
   assembler removes its outputs first
R6 ERROR/WARNING/FATAL reach the output only through the emitter
"""
import re
from core import *
from .common import *
import docparse

COUNTERS = ('ErrorCount', 'WarnCount')


def counting_helpers(P):
    """static functions of asmerr.c that only WrErrorString() calls: counting done there is counting in the emitter"""
    rev = P.callers()
    out = set()
    for f in P.all_funcs():
        if f.unit.name == 'asmerr.c' and f.static and f.name != 'WrErrorString':
            cs = rev.get(f, set())
            if cs and all(c.name == 'WrErrorString' for c in cs):
                out.add(f)
    return out


def rule_r1(chk, facts, P):
    chk.rule('C02-R1', 'ErrorCount/WarnCount are incremented only inside the diagnostic emitter WrErrorString(), are '
             'set to 0 only by functions that run at the start of a pass, and are otherwise modified only by the '
             'documented -Y suppression of jump errors', min_instances=5)
    ph = asl_phases(facts, P)
    init_closure = ph['PASS_INIT']
    body = ph['BODY']
    for c in COUNTERS:
        ws = P.write_index().get(c, [])
        if not ws:
            raise AnalysisBroken('no writers of %s' % c)
        for (f, how, ln, node, b, i) in ws:
            key = '%s:%s:%s%s' % (f.unit.name, f.name, c, node[1] if len(node) > 1 else '')
            if is_incdec(node) and node[1] in ('x++', '++x'):
                ok = f.name == 'WrErrorString' or f in counting_helpers(P)
                chk.ob('C02-R1', key, ok, f.loc(ln), 'increment in the emitter' if ok else
                       '%s is incremented outside the diagnostic emitter: the summary no longer counts emitted diagnostics' % c)
            elif is_assign(node) and node[1] == '=' and const_val(node[3]) == 0:
                ok = f in init_closure and f not in body
                chk.ob('C02-R1', key, ok, f.loc(ln), 'zeroed at pass start' if ok else
                       '%s is reset to 0 in %s, which is reachable while a pass is running: reported errors are forgotten '
                       'and the exit status becomes 0' % (c, f.name))
            elif is_assign(node) and node[1] == '-=' and f.name == 'SymbolAdder' or (
                    is_assign(node) and node[1] == '-=' and mentions(node[3], lambda m: var_is(m, {'JmpErrors'}))):
                chk.exception('C02-R1', key, 'documented: jump-distance errors counted in JmpErrors are taken back when a '
                              'repass is forced (-Y / branch extension)')
                chk.ob('C02-R1', key, True, f.loc(ln), 'listed exception: -= JmpErrors')
            else:
                chk.ob('C02-R1', key, False, f.loc(ln), '%s modified by %s' % (c, show(node)))


def rule_r2(chk, facts, P):
    chk.rule('C02-R2', 'WrErrorString(): every path to a normal return increments exactly one of the two counters, the '
             'choice is made by the Warning flag, and the flag is only ever changed from warning to error (under '
             '-Werror)', min_instances=3)
    f = facts.func('asmerr.c', 'WrErrorString')
    helpers = counting_helpers(P)

    def dinc(ex):
        for m in walk_own(ex):
            if is_incdec(m) and strip(m[2])[0] == 'g' and strip(m[2])[1] in COUNTERS:
                return True
        return False

    def helper_counts(h):
        # every path through the helper increments a counter, selected by its first parameter
        if not h.params or not h.must_pass(h.entry, -1, dinc)[0]:
            return False
        par = ('p', h.params[0]['name'])
        for b, i, ln, ex in h.elems():
            if dinc(ex):
                tgt = [strip(m[2])[1] for m in walk_own(ex) if is_incdec(m)][0]
                pol = 'nz' if tgt == 'WarnCount' else 'z'
                if not h.guarded(b, i, lambda l, pol=pol: edge_has_atom(l, lambda a: a[0] == pol and a[1] == par))[0]:
                    return False
        return True
    via = {h.name for h in helpers if helper_counts(h)}

    def inc(ex):
        if dinc(ex):
            return True
        return any(m[0] == 'call' and callee_name(m) in via and m[2] and strip(m[2][0]) == ('p', 'Warning') for m in walk_own(ex))
    ok, w = f.must_pass(f.entry, -1, inc)
    chk.ob('C02-R2', 'asmerr.c:WrErrorString:counts-every-diagnostic', ok, f.loc(),
           'every path increments a counter' if ok else 'a diagnostic can be emitted without being counted: ' + ' '.join(w[-6:]))
    # exactly one: from an increment no other increment is reachable
    incs = [(b, i, ln) for b, i, ln, ex in f.elems() if inc(ex)]
    twice = False
    for (b, i, ln) in incs:
        blk = f.blocks[b]['elems']
        if any(inc(blk[j][1]) for j in range(i + 1, len(blk))):
            twice = True
        seen = f.reach_forward([t for t, l in f.succs().get(b, ())])
        for (b2, i2, l2) in incs:
            if b2 in seen:
                twice = True
    chk.ob('C02-R2', 'asmerr.c:WrErrorString:counts-once', not twice and (len(incs) == 2 or (len(incs) == 1 and not any(dinc(ex) for b, i, ln, ex in f.elems()))), f.loc(),
           'one increment per diagnostic' if not twice else 'a diagnostic can be counted twice')
    # the branch is on Warning
    for (b, i, ln) in incs:
        if not dinc(f.blocks[b]['elems'][i][1]):
            for tgt in ('WarnCount', 'ErrorCount'):
                chk.ob('C02-R2', 'asmerr.c:WrErrorString:%s-iff-%s' % (tgt, 'warning' if tgt == 'WarnCount' else 'error'), True, f.loc(ln),
                       'selected by the Warning flag inside the counting helper')
            continue
        tgt = [strip(m[2])[1] for m in walk_own(f.blocks[b]['elems'][i][1]) if is_incdec(m)][0]
        want_pol = 'nz' if tgt == 'WarnCount' else 'z'
        g, w = f.guarded(b, i, lambda l: edge_has_atom(l, lambda a: a[0] == want_pol and a[1] == ('p', 'Warning')))
        chk.ob('C02-R2', 'asmerr.c:WrErrorString:%s-iff-%s' % (tgt, 'warning' if tgt == 'WarnCount' else 'error'), g, f.loc(ln),
               'selected by the Warning flag' if g else '%s is incremented regardless of the Warning flag' % tgt)
    for b, i, ln, n in f.nodes():
        if is_assign(n) and strip(n[2]) == ('p', 'Warning'):
            ok = const_val(n[3]) == 0 and f.guarded(b, i, nz_guard(('g', 'TreatWarningsAsErrors')))[0]
            chk.ob('C02-R2', 'asmerr.c:WrErrorString:Warning-reclassified', ok, f.loc(ln),
                   'warning -> error only under TreatWarningsAsErrors' if ok else
                   'the Warning flag is rewritten (%s) outside the -Werror rule' % show(n))


def rule_r3(chk, facts, P):
    chk.rule('C02-R3', 'ErrorCount and WarnCount are at least 32 bits wide and at least as wide as MaxErrors: a counter '
             'that is tested against 0 for the exit status and against the -maxerrors limit must not wrap first',
             min_instances=2)
    ue = facts.unit('asmerr.c')
    ud = facts.unit('asmdef.c')
    mx = ud.globals.get('MaxErrors')
    if mx is None:
        raise AnalysisBroken('MaxErrors not found')
    for c in COUNTERS:
        g = ue.globals.get(c)
        if g is None:
            raise AnalysisBroken(c + ' not found')
        sz = g['type'].get('size', 0)
        ok = sz >= 4 and sz >= mx['type'].get('size', 0)
        chk.ob('C02-R3', 'asmerr.c:%s:width' % c, ok, '%s:%d' % (g['file'], g['line']),
               '%d bytes' % sz if ok else
               '%s is %d bytes (%s) but is compared with the %d-byte -maxerrors limit and with 0 for the exit status: '
               '65536 errors wrap to 0, the run exits 0 and keeps the code file'
               % (c, sz, g['type']['t'], mx['type'].get('size', 0)))


def unlinked_globals(f, ex):
    """names of the globals whose file an element removes: unlink(G) itself, a helper of the unit that unlinks G, or a
    helper that unlinks its parameter and is handed G"""
    out = set()
    for m in walk_own(ex):
        if m[0] != 'call':
            continue
        cn = callee_name(m)
        if cn == 'unlink' and m[2] and nocast(m[2][0])[0] in GLOBKINDS:
            out.add(nocast(m[2][0])[1])
            continue
        g = f.unit.funcs.get(cn or '')
        if g is None or g is f or g.entry is None:
            continue
        for b2, i2, l2, c2 in g.calls('unlink'):
            a = nocast(c2[2][0]) if c2[2] else None
            if a is None:
                continue
            if a[0] in GLOBKINDS:
                out.add(a[1])
            elif a[0] == 'p':
                for k, prm in enumerate(g.params):
                    if prm['name'] == a[1] and k < len(m[2]) and nocast(m[2][k])[0] in GLOBKINDS:
                        out.add(nocast(m[2][k])[1])
    return out


def rule_r4(chk, facts, P):
    chk.rule('C02-R4', 'AssembleFile(): removal of the code file and GlobErrFlag = True are both control-dependent on '
             'ErrorCount != 0 after the pass loop, every such path removes the code file when one was written, '
             'GlobErrFlag is set nowhere else, and main() returns GlobErrFlag ? 2 : 0', min_instances=5)
    f = facts.func('as.c', 'AssembleFile')

    def errs(a):
        return (a[0] == 'cmp' and a[1] == '!=' and a[2] == ('g', 'ErrorCount') and const_val(a[3]) == 0) or \
               (a[0] == 'nz' and a[1] == ('g', 'ErrorCount'))

    def is_unlink_out(ex):
        return 'OutName' in unlinked_globals(f, ex)
    n_un = 0
    for b, i, ln, ex in f.elems():
        if is_unlink_out(ex):
            n_un += 1
            g, w = f.guarded(b, i, lambda l: edge_has_atom(l, errs))
            if not g:
                # inside the pass loop the file of a pass that will be repeated is removed and re-created
                g, w = f.guarded(b, i, lambda l: edge_has_atom(l, lambda a: a[0] == 'nz' and a[1] == ('g', 'Repass')))
            chk.ob('C02-R4', 'as.c:AssembleFile:unlink(OutName)', g, f.loc(ln),
                   'only when errors were counted' if g else 'the code file is removed on an error-free path: ' + ' '.join(w[-5:]))
    if not n_un:
        chk.ob('C02-R4', 'as.c:AssembleFile:unlink(OutName)', False, f.loc(), 'the code file is never removed on errors')
    ws = P.write_index().get('as.c:GlobErrFlag', [])
    for (g_, how, ln, node, b, i) in ws:
        key = 'as.c:%s:GlobErrFlag=%s' % (g_.name, show(node[3]) if is_assign(node) else how)
        v = const_val(node[3]) if is_assign(node) and node[1] == '=' else None
        if v == 1:
            g, w = g_.guarded(b, i, lambda l: edge_has_atom(l, errs))
            ok = g and g_ is f
            chk.ob('C02-R4', key, ok, g_.loc(ln), 'set under ErrorCount != 0' if ok else
                   'the global error flag is set without errors (exit status 2 for a clean run)')
        elif v == 0:
            ok = g_.name == 'main'
            chk.ob('C02-R4', key, ok, g_.loc(ln), 'cleared once at start-up' if ok else
                   'the global error flag is cleared in %s: an earlier file\'s failure is forgotten' % g_.name)
        else:
            chk.ob('C02-R4', key, False, g_.loc(ln), 'unexpected write')
    # every path from the ErrorCount != 0 edge sets the flag and (under CodeOutput) unlinks
    for s, d, l in f.edges():
        if l is not None and l[0] == 'T' and any(errs(a) for a in atoms(l[1], True)) and f.blocks[s].get('term', [''])[0] == 'IfStmt':
            def sets_flag(ex):
                return any(is_assign(m) and strip(m[2])[1:] == ('GlobErrFlag',) and const_val(m[3]) == 1 for m in walk_own(ex))
            okf, w = f.must_pass(d, -1, sets_flag) if not any(sets_flag(ex) for ln, ex in f.blocks[d]['elems']) else (True, [])
            # unlink must lie on the path on which CodeOutput is true
            def no_codeoutput_false(s2, d2, l2):
                if l2 is not None and l2[0] in ('T', 'F'):
                    for a in atoms(l2[1], l2[0] == 'T'):
                        if a[0] == 'z' and a[1][0] in GLOBKINDS and a[1][1] == 'CodeOutput':
                            return False
                return True
            oku, w2 = (True, []) if any(is_unlink_out(ex) for ln, ex in f.blocks[d]['elems']) else \
                f.must_pass(d, -1, lambda ex: is_unlink_out(ex) or sets_flag(ex) and False, edge_ok=no_codeoutput_false)
            if sets_flag is not None and okf:
                chk.ob('C02-R4', 'as.c:AssembleFile:errors=>flag+unlink', okf and oku, f.loc(),
                       'every error path sets the flag and removes the code file' if okf and oku else
                       'with ErrorCount != 0 a path keeps the code file or leaves the error flag clear')
                break
    m = facts.func('as.c', 'main')
    rets = [n for b, i, ln, n in m.nodes() if n[0] == 'ret' and n[1] is not None]
    good = False
    for r in rets:
        e = nocast(r[1])
        if e[0] == '?' and e[1][1:] == ('GlobErrFlag',) and const_val(e[2]) == 2 and const_val(e[3]) == 0:
            good = True
    chk.ob('C02-R4', 'as.c:main:exit-status', good, m.loc(), 'returns GlobErrFlag ? 2 : 0' if good else
           'main() does not return 2 exactly when the error flag is set')
    # the pass loop continues only without errors
    ok = False
    for b in f.blocks.values():
        if b.get('term', [''])[0] == 'DoStmt' and b.get('cond') is not None:
            # the && chain is split: look for Repass in this block and ErrorCount == 0 in a predecessor chain
            if mentions(b['cond'], lambda m_: var_is(m_, {'Repass'})):
                ok = True
    chk.ob('C02-R4', 'as.c:AssembleFile:pass-loop', ok, f.loc(), 'pass loop controlled by ErrorCount == 0 && Repass')


def doc_codes_asl():
    import os
    p = os.path.join(REPO, 'doc', 'assembler-usage.md')
    txt = open(p, encoding='utf-8', errors='replace').read()
    i = txt.find('following return codes')
    if i < 0:
        raise AnalysisBroken('return code list not found in doc/assembler-usage.md')
    codes = set()
    for ln in txt[i:i + 2000].splitlines()[1:]:
        m = re.match(r'(\d+) \S', ln)
        if m:
            codes.add(int(m.group(1)))
        elif codes and ln.strip() and not re.match(r'\d', ln):
            break
    return codes


def rule_r5(chk, facts):
    chk.rule('C02-R5', 'the constants passed to exit() or returned from main() are, per program, a subset of the '
             'manual\'s return-code tables; in the assembler every exit(3) is preceded by EmergencyStop(), which '
             'removes each output it closes', min_instances=30)
    asl_codes = doc_codes_asl()
    hdr, rows = docparse.table('utility-programs.md', '.*')
    tool_codes = set()
    for h2, r2 in [(hdr, rows)]:
        pass
    import os
    for title, h2, r2 in docparse.md_tables(os.path.join(REPO, 'doc', 'utility-programs.md')):
        if h2 and h2[0].lower().startswith('return code'):
            tool_codes = {int(r[0]) for r in r2 if r[0].isdigit()}
    if not tool_codes or not asl_codes:
        raise AnalysisBroken('return-code tables not found in the manual')
    EXC = {10: 'internal-consistency abort in the MSP430 operand decoder (instruction table row without PC distance); '
                'reached only by a defective table, not by any input',
           42: 'internal table-overflow assertion while a code generator builds its instruction tables; the counts are '
                'compile-time constants, no input reaches it'}
    for exe in ('asl',):
        P = facts.program(exe)
        allowed = asl_codes if exe in ('asl', 'dasl') else tool_codes
        mainf = P.gfuncs.get('main')
        reach = P.closure([mainf])
        for f in reach:
            for b, i, ln, n in f.nodes():
                code = None
                if n[0] == 'call' and callee_name(n) == 'exit':
                    code = const_val(n[2][0])
                    what = 'exit'
                elif n[0] == 'ret' and f is mainf and n[1] is not None:
                    vs = set()
                    e = nocast(n[1])
                    if e[0] == '?':
                        vs = {const_val(e[2]), const_val(e[3])}
                    else:
                        vs = {const_val(e)}
                    for v in vs:
                        chk.ob('C02-R5', '%s:main:return %s' % (exe, v), v in allowed, f.loc(ln), 'documented' if v in allowed else
                               'main returns %s, not in the manual\'s table %s' % (v, sorted(allowed)))
                    continue
                else:
                    continue
                key = '%s:%s:%s:exit(%s)' % (exe, f.unit.name, f.name, code)
                ok = code in allowed
                if not ok and code in EXC:
                    chk.exception('C02-R5', key, EXC[code])
                    ok = True
                chk.ob('C02-R5', key, ok, f.loc(ln), 'documented' if ok else
                       '%s exits with %s, not in the manual\'s table %s' % (exe, code, sorted(allowed)))
                if exe == 'asl' and code == 3:
                    g, w = f.guarded(b, i, lambda l: False, lambda ex: any(m[0] == 'call' and callee_name(m) == 'EmergencyStop' for m in walk_own(ex)))
                    chk.ob('C02-R5', 'asl:%s:%s:fatal-cleanup' % (f.unit.name, f.name), g, f.loc(ln),
                           'EmergencyStop() precedes exit(3)' if g else 'fatal exit without removing the outputs')
    es = facts.func('asmerr.c', 'EmergencyStop')
    closed, unlinked = [], []
    for b, i, ln, n in es.calls({'fclose', 'CloseFile', 'CloseIfOpen', 'unlink'}):
        if callee_name(n) == 'unlink':
            unlinked.append(show(n[2][0]))
        else:
            closed.append((callee_name(n), show(n[2][0]) if n[2] else '', ln))
    for b, i, ln, ex in es.elems():
        for gname in unlinked_globals(es, ex):
            unlinked.append(gname)
    ok = 'OutName' in unlinked
    chk.ob('C02-R5', 'as.c:EmergencyStop:removes-code-file', ok, es.loc(), 'unlinks %s' % unlinked if ok else
           'EmergencyStop() does not remove the code file')


def rule_r6(chk, facts, P):
    chk.rule('C02-R6', 'the ERROR, WARNING and FATAL pseudo instructions report through the diagnostic emitter (so they '
             'are counted and positioned like every other diagnostic)', min_instances=3)
    em = facts.func('asmerr.c', 'WrErrorString')
    for hn, fatal in (('CodeERROR', False), ('CodeWARNING', False), ('CodeFATAL', True)):
        f = P.resolve(facts.unit('asmallg.c'), hn)
        if f is None:
            raise AnalysisBroken(hn + ' not found')
        reach = P.closure([f])
        ok = em in reach
        direct_out = [ln for b, i, ln, n in f.calls({'printf', 'fprintf', 'puts', 'fputs', 'WrLstLine', 'WrConsoleLine'})]
        chk.ob('C02-R6', 'asmallg.c:%s' % hn, ok and not direct_out, f.loc(),
               'routes through WrErrorString' if ok and not direct_out else
               '%s writes its message directly (line %s) instead of through the emitter' % (hn, direct_out))


def rule_r7(chk, facts, P):
    chk.rule('C02-R7', '-Werror is decided inside the diagnostic emitter: in the function that increments WarnCount, a test '
             'of TreatWarningsAsErrors lies on every path to that increment, so that no caller of the emitter (the '
             'WARNING statement calls it directly) can have a warning counted as a warning under -Werror', min_instances=1)
    n = 0
    for f in P.all_funcs():
        for b, i, ln, m in f.nodes():
            if (is_incdec(m) or (is_assign(m) and m[1] == '+=')) and strip(m[2]) == ('g', 'WarnCount'):
                n += 1
                twae = lambda l: l is not None and l[0] in ('T', 'F') and mentions(l[1], lambda x: var_is(x, {'TreatWarningsAsErrors'}))
                ok, w = f.guarded(b, i, twae)
                if not ok and f in counting_helpers(P):
                    # counted in a helper of the emitter: the test lies on every path to the helper call
                    em = [g for g in P.all_funcs() if g.name == 'WrErrorString'][0]
                    sites = list(em.calls(f.name))
                    ok = bool(sites) and all(em.guarded(b2, i2, twae)[0] for b2, i2, l2, c2 in sites)
                chk.ob('C02-R7', '%s:%s:WarnCount++' % (f.unit.name, f.name), ok, f.loc(ln),
                       'promotion tested in the emitter' if ok else
                       'a warning is counted as a warning on a path that never looked at TreatWarningsAsErrors (%s): callers '
                       'that do not promote themselves (WARNING statement) escape -Werror' % ' '.join(w[-4:]))
    if not n:
        raise AnalysisBroken('no increment of WarnCount found')


def rule_r8(chk, facts, P):
    chk.rule('C02-R8', 'the diagnostics log (-E): outside the fatal-error exit, ErrorFile is closed only under a test of '
             'ErrorPath - per source file when no common log was named, once at the end of the run when one was. The '
             'emitter opens the log for writing on its first use, so a close in between truncates what earlier source '
             'files reported while exit status and summary still count it', min_instances=2)
    n = 0
    for f in P.all_funcs():
        if f.entry is None or f.unit.name not in ('as.c', 'asmerr.c', 'asmsub.c'):
            continue
        for b, i, ln, c in f.calls(('CloseIfOpen', 'fclose')):
            a = nocast(c[2][0]) if c[2] else None
            if a is None or not any(isinstance(m, (list, tuple)) and len(m) > 1 and m[0] in GLOBKINDS and m[1] == 'ErrorFile' for m in walk(a)):
                continue
            # the fatal exit closes everything and leaves
            if f.exit not in f.reach_forward([b]) and not any(True for _ in []):
                pass
            leaves = f.exit not in f.reach_forward([b])
            if not leaves:
                # a clean-up helper all of whose callers leave the program right after it
                sites = [(g, bb) for g in P.all_funcs() if g.entry is not None for bb, ii, l2, c2 in g.calls(f.name)
                         if P.resolve(g.unit, f.name) is f]
                leaves = bool(sites) and all(g.exit not in g.reach_forward([bb]) for g, bb in sites)
            n += 1
            if leaves:
                chk.ob('C02-R8', '%s:%s:close-ErrorFile' % (f.unit.name, f.name), True, f.loc(ln), 'on the way out of the program')
                continue
            conds = [blk['cond'] for blk in f.blocks.values() if blk.get('cond') is not None and len(blk['succ']) == 2 and any(
                isinstance(m, (list, tuple)) and len(m) > 1 and m[0] in GLOBKINDS and m[1] == 'ErrorPath' for m in walk(blk['cond']))]
            ok, w = False, []
            for c_ in conds:
                for pol in ('T', 'F'):
                    g_, w_ = f.guarded(b, i, lambda l, c_=c_, pol=pol: l is not None and l[0] == pol and l[1] is c_)
                    ok = ok or g_
                    w = w or w_
            chk.ob('C02-R8', '%s:%s:close-ErrorFile' % (f.unit.name, f.name), ok, f.loc(ln),
                   'under a test of ErrorPath' if ok else
                   'ErrorFile is closed without looking at ErrorPath: with "-E file" and several sources the log is reopened '
                   '(truncated) by the next diagnostic, so errors of earlier files vanish from it')
    if n < 2:
        raise AnalysisBroken('closes of ErrorFile not found')


def rule_r9(chk, facts, P):
    chk.rule('C02-R9', 'the -maxerrors limit is compared with the number of errors only: every comparison with MaxErrors has '
             'ErrorCount (or a local that only ever holds ErrorCount) on the other side - warnings never stop the assembly '
             'or remove the code file', min_instances=1)
    n = 0
    for f in P.all_funcs():
        if f.entry is None or f.unit.name not in ('asmerr.c', 'as.c', 'asmsub.c'):
            continue
        for b, blk in f.blocks.items():
            c = blk.get('cond')
            if c is None:
                continue
            for m in walk(c):
                if not (isinstance(m, (list, tuple)) and m and m[0] == 'b' and m[1] in ('<', '<=', '>', '>=', '==', '!=')):
                    continue
                l, r = nocast(m[2]), nocast(m[3])
                other = r if (l[0] in GLOBKINDS and l[1] == 'MaxErrors') else (l if (r[0] in GLOBKINDS and r[1] == 'MaxErrors') else None)
                if other is None or const_val(other) is not None:
                    continue
                n += 1

                def only_errors(e, depth=0):
                    e = nocast(e)
                    if e[0] in GLOBKINDS:
                        return e[1] == 'ErrorCount'
                    if e[0] == 'u' and e[1] in ('++x', 'x++'):
                        return only_errors(e[2], depth)
                    if e[0] == 'l' and depth < 3:
                        ds = [d for bb, ii, ll, d in f.nodes() if is_assign(d) and nocast(d[2]) == e]
                        return bool(ds) and all(d[1] == '=' and only_errors(d[3], depth + 1) for d in ds)
                    if e[0] == '?':
                        return only_errors(e[2], depth) and only_errors(e[3], depth)
                    return False
                ok = only_errors(other)
                chk.ob('C02-R9', '%s:%s:MaxErrors-vs-%s' % (f.unit.name, f.name, show(other)[:30]), ok,
                       f.loc(blk['term'][1] if blk.get('term') else None),
                       'compared with the error count' if ok else
                       'the limit is compared with %s, which can hold the warning count: with -maxerrors N the N-th warning ends '
                       'the assembly with status 3 and removes the code file although no error was reported' % show(other))
    if not n:
        raise AnalysisBroken('no comparison with MaxErrors found')


def rule_r10(chk, facts, P):
    chk.rule('C02-R10', 'JmpErrors (the number of questionable jump errors that -Y later subtracts from ErrorCount) only '
             'counts diagnostics that are counted in ErrorCount as well: every path from an increment of JmpErrors to the '
             'exit of its function passes the counting emitter WrErrorString() (or an increment of ErrorCount). An '
             'increment ahead of the EXPECT / suppression filters makes "ErrorCount -= JmpErrors" cancel a genuine error '
             'or wrap the counter', min_instances=1)
    n = 0
    for f in P.all_funcs():
        if f.entry is None:
            continue
        for b, i, ln, m in f.nodes():
            t = None
            if is_incdec(m) and '++' in m[1]:
                t = nocast(m[2])
            elif is_assign(m) and m[1] == '+=':
                t = nocast(m[2])
            if t is None or not (t[0] in ('g', 'gs') and t[1] == 'JmpErrors'):
                continue
            n += 1

            def through(ex):
                for x in walk_own(ex):
                    if x[0] == 'call' and callee_name(x) == 'WrErrorString':
                        return True
                    if (is_incdec(x) and '++' in x[1]) or (is_assign(x) and x[1] == '+='):
                        tt = nocast(x[2])
                        if tt[0] in ('g', 'gs') and tt[1] == 'ErrorCount':
                            return True
                return False
            ok, w = f.must_pass(b, i, through)
            chk.ob('C02-R10', '%s:%s:JmpErrors++' % (f.unit.name, f.name), ok, f.loc(ln),
                   'the diagnostic is emitted and counted on every path after the increment' if ok else
                   'after JmpErrors is incremented the function can return without emitting (and counting) the diagnostic '
                   '(path %s): with -Y the later "ErrorCount -= JmpErrors" subtracts an error that was never counted'
                   % ' '.join(str(x) for x in w[-6:]))
    return n


def run(chk, facts, info):
    P = facts.program('asl')
    rule_r8(chk, facts, P)
    rule_r9(chk, facts, P)
    rule_r1(chk, facts, P)
    rule_r2(chk, facts, P)
    rule_r3(chk, facts, P)
    rule_r4(chk, facts, P)
    rule_r5(chk, facts)
    rule_r6(chk, facts, P)
    rule_r7(chk, facts, P)
    rule_r10(chk, facts, P)
    chk.note('Decided: counter discipline, counter width, single predicate for output removal / error flag / exit '
             'status, documented exit codes, fatal clean-up, routing of ERROR/WARNING/FATAL. Not decided: message text, '
             '-E routing.')
