"""C19 — listing, debug map and share file state the facts of the code file
(structural clauses: ordering and bindings).

R1 MakeList() undoes its byte swap of the line buffer on every path
R2 the use-list / debug bookkeeping records the physical load address and the
   line's code length, and runs before the counter is advanced
R3 in the line loop the listing call follows code production on every path
R4 the symbol table, debug info and section list are printed after the last
   pass, and the debug info only for an error-free run
"""
from core import *
from .common import *


def rule_r1(chk, facts):
    chk.rule('C19-R1', 'asmlist.c MakeList() and asmcode.c WriteBytes() (which runs before the line is listed): the byte '
             'swap applied to the line buffer is undone on every path (both DreheCodes() calls sit under the same '
             'condition on unmodified operands), so that the listing dumps the bytes in the order the code file holds',
             min_instances=2)
    for un, fn, what in (('asmlist.c', 'MakeList', 'the code file receives swapped bytes'),
                         ('asmcode.c', 'WriteBytes', 'the listing (produced afterwards) shows the words of this line byte-swapped')):
        f = facts.func(un, fn)
        dre = sorted(((b, i, ln) for b, i, ln, n in f.calls('DreheCodes')), key=lambda x: x[2])
        ok = len(dre) >= 2
        w = []
        if ok:
            first = dre[0]
            guards = []
            for s_, d_, l in f.edges():
                if l is not None and l[0] == 'T' and f.guarded(first[0], first[1], lambda l2, l=l: l2 is l)[0]:
                    guards.append(nocast(l[1]))
            written = written_after(f, first[0], first[1])

            def eok(s_, d_, l):
                if l is not None and l[0] == 'F' and nocast(l[1]) in guards and \
                        not any(mentions(l[1], lambda x, wv=wv: strip(x) == wv) for wv in written):
                    return False
                return True

            def is_dr(ex):
                return any(m[0] == 'call' and callee_name(m) == 'DreheCodes' for m in walk_own(ex))
            ok, w = f.must_pass(first[0], first[1], is_dr, edge_ok=eok)
        chk.ob('C19-R1', '%s:%s:swap-parity' % (un, fn), ok, f.loc(),
               'swap undone on every path' if ok else
               'the line buffer stays byte-swapped on path %s: %s' % (' '.join(w[-5:]), what))


def rule_r2(chk, facts):
    chk.rule('C19-R2', 'BookKeeping() passes ProgCounter() (the physical load address, as written to the code file) '
             'and CodeLen to AddChunk(), AddSectionUsage() and AddLineInfo(), AddLineInfo() gets the current line, '
             'file and segment, and WriteCode() calls BookKeeping() before it advances PCs[ActPC]', min_instances=5)
    f = facts.func('asmsub.c', 'BookKeeping')
    spec = {'AddChunk': {1: 'ProgCounter', 2: 'CodeLen'}, 'AddSectionUsage': {0: 'ProgCounter', 1: 'CodeLen'},
            'AddLineInfo': {1: 'CurrLine', 2: 'CurrFileName', 3: 'ActPC', 4: 'ProgCounter', 5: 'CodeLen'}}
    for cn, args in spec.items():
        calls = list(f.calls(cn))
        if not calls:
            chk.ob('C19-R2', 'asmsub.c:BookKeeping:%s' % cn, False, f.loc(), '%s is no longer called' % cn)
            continue
        for b, i, ln, n in calls:
            for ai, want in args.items():
                a = nocast(n[2][ai]) if ai < len(n[2]) else None
                if want == 'ProgCounter':
                    ok = a is not None and a[0] == 'call' and callee_name(a) == 'ProgCounter'
                    if not ok and a is not None and a[0] == 'l':
                        # a local that only ever holds ProgCounter()
                        defs = [nocast(m[3]) for bb, ii, l2, m in f.nodes() if is_assign(m) and strip(m[2]) == ('l', a[1])]
                        ok = bool(defs) and all(m[1] == '=' for bb, ii, l2, m in f.nodes() if is_assign(m) and strip(m[2]) == ('l', a[1])) \
                            and all(d[0] == 'call' and callee_name(d) == 'ProgCounter' for d in defs)
                else:
                    ok = a is not None and a[0] in ('g', 'gs') and a[1] == want
                chk.ob('C19-R2', 'asmsub.c:BookKeeping:%s#%d' % (cn, ai + 1), ok, f.loc(ln),
                       show(a) if ok else
                       '%s() records %s where %s is required: the report names an address/length/line the code file does '
                       'not have (e.g. the PHASE-shifted address)' % (cn, show(a) if a else '?', want))
    wc = facts.func('as.c', 'WriteCode')
    IDX = ('i', ('g', 'PCs'), ('g', 'ActPC'))
    for b, i, ln, n in wc.calls('BookKeeping'):
        def adv(ex):
            return any(is_assign(m) and strip(m[2]) == IDX for m in walk_own(ex))
        before, _ = wc.guarded(b, i, lambda l: False, adv)
        chk.ob('C19-R2', 'as.c:WriteCode:bookkeeping-before-advance', not before, wc.loc(ln),
               'bookkeeping sees the line\'s start address' if not before else
               'BookKeeping() runs after the counter was advanced: every recorded address is one line too far')
    if not list(wc.calls('BookKeeping')):
        chk.ob('C19-R2', 'as.c:WriteCode:bookkeeping-before-advance', False, wc.loc(), 'WriteCode() no longer calls BookKeeping()')


def rule_r3(chk, facts):
    chk.rule('C19-R3', 'ProcessFile(): in every iteration of the line loop MakeList() is called after the line was '
             'split and processed, on every path', min_instances=2)
    f = facts.func('as.c', 'ProcessFile')

    def is_ml(ex):
        return any(m[0] == 'call' and callee_name(m) == 'MakeList' for m in walk_own(ex))
    for cn in ('Produce_Code', 'Preprocess'):
        for b, i, ln, n in f.calls(cn):
            ok, w = f.must_pass(b, i, is_ml)
            chk.ob('C19-R3', 'as.c:ProcessFile:%s=>MakeList' % cn, ok, f.loc(ln), 'listed on every path' if ok else
                   'a processed line can leave the loop iteration without being listed')


def rule_r4(chk, facts):
    chk.rule('C19-R4', 'AssembleFile(): the symbol table and the debug information are produced after the pass loop '
             '(final values), the debug information only when no error was counted', min_instances=2)
    P = facts.program('asl')
    ph = asl_phases(facts, P)
    af = ph['AssembleFile']
    h, s0, body = ph['loop']
    for cn in ('PrintSymbolList', 'DumpDebugInfo'):
        cs = list(af.calls(cn))
        if not cs:
            chk.ob('C19-R4', 'as.c:AssembleFile:%s' % cn, False, af.loc(), '%s is no longer called' % cn)
        for b, i, ln, n in cs:
            ok = b not in body
            det = 'after the last pass'
            if ok and cn == 'DumpDebugInfo':
                ok, w = af.guarded(b, i, lambda l: edge_has_atom(l, lambda a: (a[0] == 'cmp' and a[1] == '==' and a[2] == ('g', 'ErrorCount') and const_val(a[3]) == 0) or (a[0] == 'z' and a[1] == ('g', 'ErrorCount'))))
                det = 'after the last pass, error-free runs only'
            chk.ob('C19-R4', 'as.c:AssembleFile:%s' % cn, ok, af.loc(ln), det if ok else
                   '%s runs inside the pass loop or regardless of errors: values of an earlier pass are reported' % cn)


def rule_r5(chk, facts):
    chk.rule('C19-R5', 'the debug (MAP/NoICE/Atmel) writers format addresses and symbol values in a fixed radix: no function '
             'reachable from DumpDebugInfo() that writes the debug file reads the listing radix ListRadixBase, and every '
             'StrSym() call there passes a constant radix (the MAP file has no radix marker; its line:address entries '
             'are hexadecimal)', min_instances=3)
    P = facts.program('asl')
    root = facts.func('asmdebug.c', 'DumpDebugInfo')
    n = 0
    for f in sorted(P.closure([root]), key=lambda x: x.qname):
        if not (f.name.startswith('PrintDeb') or f.name.startswith('DumpDebugInfo') or f.name.startswith('PrintNoI') or f.name.startswith('PrNoI')):
            continue
        n += 1
        rd = [(ln) for (k, ln, nd, b, i) in P.reads(f) if k.split(':')[-1] == 'ListRadixBase']
        bad = None
        for b, i, ln, c in f.calls('StrSym'):
            if len(c[2]) >= 4 and const_val(c[2][3]) is None:
                bad = (ln, show(c[2][3]))
        ok = not rd and bad is None
        chk.ob('C19-R5', '%s:%s:fixed-radix' % (f.unit.name, f.name), ok, f.loc(rd[0] if rd else (bad[0] if bad else None)),
               'fixed radix' if ok else
               'the debug output is formatted with %s: with -LISTRADIX the symbol values in the MAP file are no longer the '
               'hexadecimal values the rest of the file uses' % ('ListRadixBase' if rd else bad[1]))
    if n < 3:
        raise AnalysisBroken('debug info writers not found')


def run(chk, facts, info):
    rule_r1(chk, facts)
    rule_r2(chk, facts)
    rule_r3(chk, facts)
    rule_r4(chk, facts)
    rule_r5(chk, facts)
    # line:address entries of the listing and the debug files name the line the file counter stands at: the counter is saved
    # and restored around INCLUDE and expansions exactly (same rule as C20-R4)
    chk.rule('C19-R6', 'the physical line counter that listing lines and MAP/NoICE line:address entries are numbered with is '
             'restored by every input-tag restorer from a field the constructor saved it into (C20-R4, applied to the '
             'report outputs)', min_instances=6)
    from . import c20
    from .c12 import _Sub
    P = facts.program('asl')
    u = facts.unit('as.c')
    cons = c20.rule_r1(_Sub(chk, 'C19-R6', lambda key: False), facts, u, P)
    c20.rule_r4(_Sub(chk, 'C19-R6', lambda key: True), facts, u, P, cons)
    clear_functions_rule(chk, facts, P, 'C19-R7')
    chk.note('Decided: byte-swap parity of the listing, arguments and position of the debug/use-list bookkeeping, listing '
             'after code production, reports after the last pass. Not decided: rendered listing/MAP/share text.')
