"""C14-R11: making room at the front of the code buffer.

Several generators put a prefix or a NOP in front of an instruction that is
already encoded: move the code up, store the new byte(s) at index 0, lengthen
CodeLen.  The move has to go towards higher indices (destination = buffer +
k, source = buffer); the other direction drops the first byte, reads one byte
behind the code (whatever an earlier line left there, different from run to
run) and the store at index 0 then overwrites what was just moved."""
from core import *
from .common import *

CODE = {'BAsmCode', 'WAsmCode', 'DAsmCode'}


def _off(e):
    e = nocast(e)
    if e[0] in GLOBKINDS and e[1] in CODE:
        return (e[1], 0)
    if e[0] == 'b' and e[1] == '+':
        l, r = nocast(e[2]), nocast(e[3])
        if l[0] in GLOBKINDS and l[1] in CODE:
            return (l[1], const_val(r) if const_val(r) is not None else r)
    if e[0] == 'u' and e[1] == '&' and nocast(e[2])[0] == 'i':
        bse = nocast(nocast(e[2])[1])
        if bse[0] in GLOBKINDS and bse[1] in CODE:
            ix = nocast(nocast(e[2])[2])
            return (bse[1], const_val(ix) if const_val(ix) is not None else ix)
    return None


def run(chk, facts, rule='C14-R11'):
    chk.rule(rule, 'a generator that stores a byte at index 0 of the code buffer after an overlapping memmove() inside that '
             'buffer (prefix or NOP put in front of encoded code) moves the code up: the destination of the move is not '
             'the start of the buffer', min_instances=3)
    P = facts.program('asl')
    n = 0
    for f in P.all_funcs():
        if f.entry is None:
            continue
        for b, i, ln, c in f.calls(('memmove', 'memcpy')):
            d, s = _off(c[2][0]), _off(c[2][1])
            if not (d and s and d[0] == s[0]):
                continue
            # a store to index 0 (or a copy to the buffer start) after the move
            def front_store(ex, buf=d[0]):
                for m in walk_own(ex):
                    if is_assign(m) and m[1] == '=':
                        t = nocast(m[2])
                        if t[0] == 'i' and nocast(t[1])[0] in GLOBKINDS and nocast(t[1])[1] == buf and const_val(nocast(t[2])) == 0:
                            return True
                    if m[0] == 'call' and callee_name(m) in ('memcpy', 'memmove') and m is not c:
                        dd = _off(m[2][0])
                        if dd and dd[0] == buf and dd[1] == 0:
                            return True
                return False
            later = any(front_store(ex) for bb in f.reach_forward([b]) for l2, ex in f.blocks[bb]['elems']) or \
                any(front_store(ex) for l2, ex in f.blocks[b]['elems'][i + 1:])
            if not later:
                continue
            n += 1
            ok = d[1] != 0
            chk.ob(rule, '%s:%s:front-insert' % (f.unit.name, f.name), ok, f.loc(ln),
                   'code moved up by %s' % (show(d[1]) if not isinstance(d[1], int) else d[1]) if ok else
                   'the move copies %s+%s down to the start of the buffer and the following store at index 0 overwrites it: '
                   'the first code byte is lost, one byte behind the code (left over from an earlier line) is appended - the '
                   'encoding is wrong and differs from run to run' % (d[0], show(s[1]) if not isinstance(s[1], int) else s[1]))
    return n
