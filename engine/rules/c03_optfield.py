"""C03-R16: optional record fields (inter-procedural contradiction rule).

A pointer field F of a record is believed optional when the program itself
says so three times: a constructor stores NULL into it as the alternative to a
fresh value (if/else), some function tests it against NULL, and it is
dereferenced (x->F->...).  Every dereference must then be
  (a) behind a non-NULL test of the same expression, or
  (b) behind an assignment of a non-NULL value in the same function, or
  (c) behind the same record-kind test that made the constructor fill the
      field, provided the consumer walks the constructor's list in step: each
      record kind for which the constructor appends an element advances the
      consumer's cursor on every path to the next iteration.
(c) is the shape of the tools that read a code file twice (collect, then
process): the second pass relies on the n-th record of the file belonging to
the n-th list element."""
from core import *
from .common import *

OTHER = '<other>'


def _kind_consts(f, var):
    ks = set()
    for s, t, l in f.edges():
        if l is None:
            continue
        if l[0] in ('T', 'F'):
            c = nocast(l[1])
            if c[0] == 'b' and c[1] in ('==', '!=') and nocast(c[2]) == var and const_val(c[3]) is not None:
                ks.add(const_val(c[3]))
        elif l[0] == 'case' and nocast(l[2]) == var:
            ks.update(v for v in l[1] if v is not None)
    return ks


def kinds_at(f, var):
    """Forward dataflow: the set of values `var` can have at the entry of each
    block, over the universe of constants it is compared with plus OTHER."""
    U = frozenset(_kind_consts(f, var)) | {OTHER}

    def redefines(ex):
        for n in walk_own(ex):
            if (is_assign(n) or is_incdec(n)) and nocast(n[2]) == var:
                return True
            if n[0] == 'call':
                for a in n[2]:
                    a = nocast(a)
                    if a[0] == 'u' and a[1] == '&' and nocast(a[2]) == var:
                        return True
        return False
    # state: (live, frozen).  `live` are the values the variable can still have and tests refine it.  When the variable
    # is re-read after tests already narrowed it (a follow-up record inside the same iteration), the narrowed set is
    # kept as `frozen`: it still names the kind of record the iteration started with, and later tests (which look
    # at the follow-up value) no longer refine it.
    def step(st, elems):
        live, frozen = st
        for ln, ex in elems:
            if redefines(ex):
                if live and live != U:
                    frozen = frozen | live
                    live = frozenset()
                else:
                    # nothing known yet: the read that starts an iteration
                    live = U
                    frozen = frozenset()
        return (live, frozen)
    inn = {f.entry: (U, frozenset())}
    work = [f.entry]
    succ = f.succs()
    it = 0
    while work:
        it += 1
        if it > 50000:
            raise AnalysisBroken('kind dataflow did not converge in ' + f.qname)
        b = work.pop()
        live, frozen = step(inn[b], f.blocks[b]['elems'])
        for t, l in succ.get(b, ()):
            o = live
            if l is not None and l[0] in ('T', 'F'):
                c = nocast(l[1])
                if c[0] == 'b' and c[1] in ('==', '!=') and nocast(c[2]) == var and const_val(c[3]) is not None:
                    eq = (c[1] == '==') == (l[0] == 'T')
                    k = const_val(c[3])
                    o = (o & {k}) if eq else (o - {k})
            elif l is not None and l[0] == 'case' and nocast(l[2]) == var:
                o = o & set(l[1])
            elif l is not None and l[0] == 'default' and nocast(l[1]) == var:
                o = o - set(l[2])
            if not o and not frozen and live:
                continue                   # infeasible edge
            old = inn.get(t)
            if old is None or not (o <= old[0] and frozen <= old[1]):
                inn[t] = ((old[0] if old else frozenset()) | o, (old[1] if old else frozenset()) | frozen)
                work.append(t)
    return inn, U, redefines, step


def kinds_at_site(f, var, b, i):
    inn, U, redef, step = kinds_at(f, var)
    if b not in inn:
        return set(), U
    live, frozen = step(inn[b], f.blocks[b]['elems'][:i])
    return set(live | frozen), U


def discriminators(f):
    """Locals/params that the function compares with at least two distinct
    constants (record-kind variables)."""
    out = []
    cand = set()
    for s, t, l in f.edges():
        if l is not None and l[0] in ('T', 'F'):
            c = nocast(l[1])
            if c[0] == 'b' and c[1] in ('==', '!=') and nocast(c[2])[0] in ('l', 'p') and const_val(c[3]) is not None:
                cand.add(nocast(c[2]))
        elif l is not None and l[0] == 'case' and nocast(l[2])[0] in ('l', 'p'):
            cand.add(nocast(l[2]))
    for v in cand:
        if len(_kind_consts(f, v)) >= 2:
            out.append(v)
    return out


def discover(P):
    """fields with the three beliefs; returns {field: {'ctor': [(f, nonnull sites, null sites)], 'tests': n}}"""
    opt = {}
    tested = {}
    arrow = set()
    for f in P.all_funcs():
        nul, non = {}, {}
        for b, i, ln, m in f.nodes():
            if is_assign(m) and m[1] == '=':
                t = nocast(m[2])
                if t[0] == 'm':
                    (nul if const_val(nocast(m[3])) == 0 else non).setdefault(t, []).append((b, i, ln))
            if m[0] == 'm' and m[3]:
                q = nocast(m[1])
                if q[0] == 'm':
                    arrow.add(q[2])
        for t in nul:
            if t in non and any(b1 != b2 for b1, _, _ in nul[t] for b2, _, _ in non[t]):
                opt.setdefault(t[2], []).append((f, t, non[t], nul[t]))
        for s, t, l in f.edges():
            if l is not None and l[0] in ('T', 'F'):
                for a in atoms(l[1], True):
                    if a[0] in ('nz', 'z') and isinstance(a[1], tuple) and a[1] and a[1][0] == 'm':
                        tested[a[1][2]] = tested.get(a[1][2], 0) + 1
    return {k: v for k, v in opt.items() if k in tested and k in arrow}


def run(chk, facts, rule='C03-R16'):
    chk.rule(rule, 'a record field that a constructor fills with either a fresh object or NULL and that some function '
             'tests against NULL is dereferenced only behind a non-NULL test, behind an assignment of a fresh value, or '
             'behind the record-kind test under which the constructor filled it; in the last case the consumer advances '
             'its cursor for exactly the record kinds for which the constructor appended an element (two-pass tools: '
             'alink collects parts, then processes the same records)', min_instances=5)
    seen = set()
    n = 0
    for exe in ('alink', 'plist', 'pbind', 'p2bin', 'p2hex', 'dasl', 'asl'):
        P = facts.program(exe)
        cand = discover(P)
        for f in P.all_funcs():
            if f.qname in seen or f.entry is None:
                continue
            seen.add(f.qname)
            agg = {}
            for b, i, ln, m in f.nodes():
                base = None
                if m[0] == 'm' and m[3]:
                    base = nocast(m[1])
                elif m[0] == 'u' and m[1] == '*':
                    base = nocast(m[2])
                if base is None or base[0] != 'm' or base[2] not in cand:
                    continue
                key = '%s:%s:%s' % (f.unit.name, f.name, show(base))
                if key in agg and not agg[key][0]:
                    continue

                def fresh(ex, base=base):
                    return any(is_assign(x) and x[1] == '=' and nocast(x[2]) == base and const_val(nocast(x[3])) != 0
                               for x in walk_own(ex))
                ok, w = f.guarded(b, i, nz_guard(base), fresh)
                why = 'behind a non-NULL test or a fresh value'
                if not ok:
                    ok, why = kind_guard(chk, rule, P, f, b, i, ln, base, cand[base[2]])
                    if not ok:
                        why = '%s is dereferenced at line %d on a path (%s) without a non-NULL test, although %s stores NULL ' \
                              'into this field for some records: %s' % (show(base), ln, ' '.join(w[-4:]),
                                                                      cand[base[2]][0][0].name, why)
                agg[key] = (ok, why, f.loc(ln))
            for key, (ok, why, loc) in agg.items():
                n += 1
                chk.ob(rule, key, ok, loc, why)
    return n


def kind_guard(chk, rule, P, f, b, i, ln, base, ctors):
    """(c): deref under the constructor's own record-kind test, with cursor pairing."""
    for (g, target, non, nul) in ctors:
        if g is f:
            continue
        for dv in discriminators(f):
            kd, Ud = kinds_at_site(f, dv, b, i)
            if OTHER in kd:
                continue
            for gv in discriminators(g):
                kc = set()
                for (b2, i2, l2) in non:
                    k, U = kinds_at_site(g, gv, b2, i2)
                    kc |= k
                kn = set()
                for (b2, i2, l2) in nul:
                    k, U = kinds_at_site(g, gv, b2, i2)
                    kn |= k
                if OTHER in kc or not kd <= kc or (kd & kn):
                    continue
                ok, why = pairing(f, dv, g, gv, base, target, b)
                if ok:
                    return True, 'record kinds %s: the constructor %s() filled the field for these kinds; %s' % (
                        sorted(kd), g.name, why)
                return False, why
    return False, 'no record-kind test in common with the constructor'


def pairing(f, dv, g, gv, base, target, site):
    """Constructor g appends an element for the kinds Kp; consumer f advances
    the cursor (root of `base`) for exactly those kinds in every iteration."""
    # constructor: the record is a local that receives malloc() and is stored into a global / ->Next
    rec = nocast(target[1])
    if rec[0] != 'l':
        return False, 'constructor record is not a local'
    kp = set()
    na = 0
    def stores_param(h, idx):
        if idx >= len(h.params):
            return False
        pv = ('p', h.params[idx]['name'])
        return any(is_assign(m2) and m2[1] == '=' and nocast(m2[3]) == pv and nocast(m2[2])[0] in ('g', 'gs', 'm')
                   for b2, i2, l2, m2 in h.nodes())
    for b, i, ln, m in g.nodes():
        hit = is_assign(m) and m[1] == '=' and nocast(m[3]) == rec and nocast(m[2])[0] in ('g', 'gs', 'm')
        if not hit and m[0] == 'call' and callee_name(m):
            # the append may live in a helper of the unit that receives the record
            h = g.unit.funcs.get(callee_name(m))
            if h is not None and h is not g and h.entry is not None:
                hit = any(nocast(a) == rec and stores_param(h, ai) for ai, a in enumerate(m[2]))
        if hit:
            k, U = kinds_at_site(g, gv, b, i)
            kp |= k
            na += 1
    if not na or OTHER in kp:
        return False, 'the kinds for which %s() appends an element could not be determined' % g.name
    cur = nocast(base[1])
    if cur[0] not in ('l', 'p'):
        return False, 'consumer cursor is not a local'

    def advance(ex):
        for x in walk_own(ex):
            if is_assign(x) and x[1] == '=' and nocast(x[2]) == cur:
                r = nocast(x[3])
                if r[0] == 'm' and nocast(r[1]) == cur:
                    return True
        return False
    # the loop in which the cursor is advanced
    loops = [(h, s0, f.loop_body(h, s0)) for h, s0 in f.loops()]
    inn, U, redef, _step = kinds_at(f, dv)
    cands = [(h, s0, body) for h, s0, body in loops if site in body
             and any(redef(ex) for bb in body for ln, ex in f.blocks[bb]['elems'])]
    if not cands:
        return False, 'record loop of %s() not found' % f.name
    h, s0, body = min(cands, key=lambda x: len(x[2]))
    if not any(advance(ex) for bb in body for ln, ex in f.blocks[bb]['elems']):
        return False, '%s() never advances %s in its record loop' % (f.name, show(cur))
    succ = f.succs()
    adv_kinds = set()
    for k in sorted(U - {OTHER}) + [OTHER]:
        # blocks of the body reachable in an iteration in which dv == k
        # start: blocks after the (re)definition of dv
        def feasible(s, t, l):
            if l is not None and l[0] in ('T', 'F'):
                c = nocast(l[1])
                if c[0] == 'b' and c[1] in ('==', '!=') and nocast(c[2]) == dv and const_val(c[3]) is not None:
                    eq = (c[1] == '==') == (l[0] == 'T')
                    return (const_val(c[3]) == k) if eq else (const_val(c[3]) != k)
                # cursor == NULL: nothing left to advance
                for a in atoms(l[1], l[0] == 'T'):
                    if a[0] == 'z' and a[1] == cur:
                        return False
            elif l is not None and l[0] == 'case' and nocast(l[2]) == dv:
                return k in l[1]
            elif l is not None and l[0] == 'default' and nocast(l[1]) == dv:
                return k not in l[2]
            return True
        starts = []
        for b0 in body:
            if b0 not in inn:
                continue
            st = inn[b0]
            for j, (ln0, ex0) in enumerate(f.blocks[b0]['elems']):
                if redef(ex0):
                    if not (st[0] and st[0] != U):
                        starts.append(b0)      # a read that starts an iteration (nothing known about the value)
                    break
        # only the definitions that start an iteration: those from which the kind tests are reached
        seen = set()
        work = list(starts)
        reaches_head = False
        advanced_somewhere = False
        while work:
            b = work.pop()
            if b in seen:
                continue
            seen.add(b)
            if b not in starts and any(advance(ex) for ln, ex in f.blocks[b]['elems']):
                advanced_somewhere = True
                continue
            for t, l in succ.get(b, ()):
                if not feasible(b, t, l):
                    continue
                if t == h:
                    reaches_head = True
                    continue
                if t in body and t not in starts:
                    work.append(t)
        if k in kp:
            if reaches_head:
                return False, 'for record kind %s %s() appends a list element, but %s() can finish the iteration ' \
                              'without advancing %s: every later record is paired with the wrong element' % (
                                  k, g.name, f.name, show(cur))
            adv_kinds.add(k)
        else:
            if advanced_somewhere:
                return False, 'for record kind %s %s() appends no list element, but %s() advances %s' % (
                    k, g.name, f.name, show(cur))
    return True, 'cursor %s advances once for each of the kinds %s' % (show(cur), sorted(kp))
