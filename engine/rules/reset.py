"""A5 reset completeness, shared by C01 (per pass), C18 (per file) and C10.

core_reset(chk, facts, rule, scope):   scope 'pass' or 'file'
registered_reset(chk, facts, rule):    ASSUME destinations, ON/OFF flags, CPU arguments
switchto_interface(chk, facts, rule):  every SwitchTo_* sets the whole target interface
"""
from core import *
from .common import *
from . import effects as E


def is_gen(un):
    return (un.startswith('code') and un not in ('codechunks.c', 'codepseudo.c', 'codevars.c', 'codeallg.c')) \
        or un.startswith('deco')


# Classification of core globals that the body of a pass writes and the pass
# initialisation does not assign (DESIGN appendix A).  class -> meaning:
#  LINE     scratch of one source line, assigned by the per-line driver before it is read
#  CACHE    capacity / lazily built constant table / static result buffer: value independent of the program
#  HANDLE   stream handle, written here only by the fatal-exit path
#  EXIT     list emptied at the end of the pass / in the repass clean-up
#  BALANCED every write is half of an open/close pair; an unbalanced pass ends with an error, so no pass follows
#  CARRIED  carried from pass to pass by design (symbol tables), cleared per file
#  TARGET   per-segment target interface arrays, set by every SwitchTo_* (checked by the interface rule)
CLASS = {}


def _c(cls, names, reason):
    for n in names.split():
        CLASS[n] = (cls, reason)


_c('LINE', 'ActListGran ArgCnt ArgPart ArgStr AttrPart AttrPartOpSize AttrSplit CodeLen CommPart LabPart '
   'ListLine OneLine OpPart Retracted StopfZahl WasIF WasMACRO asmif.c:ActiveIF InMacroFlag NextDoLst NextIncDepth '
   'asmlist.c:list_buf DontPrint',
   'assigned by ProcessFile/GetNextLine/SplitLine/Produce_Code/CodeIFs for every line before any read')
_c('CACHE', 'AllocArgCnt BAsmCode DAsmCode WAsmCode MaxCodeLen IntFormatList bpemu.c:FExpand::CurrentDir '
   'intformat.c:GetIntConstIBMPrefix::Result intformat.c:GetIntConstIntelSuffix::Result '
   'intformat.c:GetIntConstMotoPrefix::Result intpseudo.c:DecodeIntelPseudo::InstTables '
   'motpseudo.c:DecodeMotoPseudo::InstTable natpseudo.c:DecodeNatPseudo::InstTable tipseudo.c:DecodeTIPseudo::InstTable '
   'ioerrs.c:MsgCat nlmessages.c:DefaultCatalog nlmessages.c:catgetmessage::umess '
   'stringlists.c:GetAndCutStringList::Result strutil.c:Blanks::BlkStrLen strutil.c:SysString::SystemByteLen '
   'console.c:WrConsoleLine::LastLength asmpars.c:RegistersDefined',
   'buffer capacity, lazily built constant table or static result buffer; independent of the assembled program')
_c('HANDLE', 'Debug ErrorFile LstFile MacProFile MacroFile ShareFile PrgFile',
   'stream handle; inside a pass only the fatal-exit path (EmergencyStop) touches it')
_c('EXIT', 'FirstDefine asminclist.c:Root asminclist.c:Curr PatchList PatchLast '
   'ExportList ExportLast asmerr.c:pExpectErrors asmfnums.c:FirstFile asmfnums.c:FileCount',
   'list emptied at the end of every pass (clean-up in the pass loop / AsmErrPassExit / CloseFile)')
_c('OPTION', 'LineInfoRoot',
   'written only under the command line option DebugMode != DebugNone and emptied in the pass loop under the same test')
OPTION_OF = {'LineInfoRoot': ('DebugMode', 'AddLineInfo', 'ClearLineInfo')}
_c('BALANCED', 'IfAsm CurrIncludeLevel asmpars.c:DoRefs asmpars.c:FirstLocHandle',
   'every write in the body is one half of an open/close pair; an unbalanced pass ends with an error and no pass follows')
_c('CARRIED', 'asmpars.c:FirstSymbol asmpars.c:FirstLocSymbol asmmac.c:MacroRoot StructRoot asmpars.c:FirstFunction '
   'FirstSection asmpars.c:FirstStack asmpars.c:MomSection MomSectionHandle',
   'carried into the next pass by design (symbol values / definitions of the previous pass), cleared per file')
_c('TARGET', 'Grans ListGrans SegInits SegLimits PCs SegChunks StructSaveSeg MomFPUIdent MomPMMUIdent '
   'intpseudo.c:Z80SyntaxName',
   'per-segment target parameters: every element that is read is set by the active SwitchTo_* (interface rule) or '
   'by SetNSeg on first use of the segment')

_c('REPORT', 'as.c:MacroNestLevel as.c:LineZ',
   'only feeds the listing annotation "(MACRO-n)" / the paging of the help screen, never code, symbols or diagnostics')
_c('COUNTED', 'asmallg.c:ONOFFList',
   'only the first ONOFFCnt entries are valid and ONOFFCnt is cut back by ClearONOFF() whenever a target is left')
_c('COUNTED', 'TmpSymLog',
   'only the first TmpSymLogDepth entries are read and TmpSymLogDepth is reset at every pass start')
COUNT_OF = {'TmpSymLog': 'TmpSymLogDepth'}
_c('GENLINE', 'AdrCnt motpseudo.c:M16Turn',
   'scratch of one instruction: assigned by the operand decoder / pseudo-op decoder before each use')
_c('GUARDED', 'StartAdr', 'read only when StartAdrPresent is set, which is reset at every pass start')

# per-pass state that must be reset and is not: genuine findings are reported
# as violations unless repaired; nothing is listed here.


def phase_kills(facts, P):
    ph = asl_phases(facts, P)
    KP, KF, KX = set(), set(), set()
    for f in ph['PASS_INIT']:
        KP |= E.kill(P, f)
    for f in ph['FILE_INIT']:
        KF |= E.kill(P, f)
    for f in ph['FILE_EXIT'] | ph['PASS_EXIT']:
        KX |= E.kill(P, f)
    # assignments made by AssembleFile() itself before the line loop starts
    af = ph['AssembleFile']
    h, s0, body = ph['loop']
    pf = ph['pf']
    for b, i, ln, ex in af.elems():
        ks = E.direct_kills(P, af, ex)
        if not ks:
            continue
        def is_this(e2, ex=ex):
            return e2 is ex
        dom_pass, _ = af.guarded(pf[0], pf[1], lambda l: False, is_this, start=s0)
        dom_file, _ = af.guarded(pf[0], pf[1], lambda l: False, is_this)
        if dom_pass and b in body:
            KP |= ks
        elif dom_file:
            KF |= ks
    return ph, KP, KF, KX


_kxm = {}


def exit_must_kills(facts, P):
    """Globals that are assigned (or found NULL on a loop-exit edge) on every path of a function that AssembleFile()
    calls on every path after ProcessFile(), or by the per-pass initialisation roots that are always called."""
    if id(P) in _kxm:
        return _kxm[id(P)]
    ph = asl_phases(facts, P)
    af = ph['AssembleFile']
    h, s0, body = ph['loop']
    pf = ph['pf']
    K = set()
    for b, i, ln, n in af.calls():
        cn = callee_name(n)
        t = P.resolve(af.unit, cn) if cn else None
        if t is None or t not in (ph['FILE_EXIT_roots'] | ph['PASS_EXIT_roots']):
            continue
        ok, w = af.must_pass(pf[0], pf[1], lambda ex, n=n: any(m is n for m in walk_own(ex)))
        if ok or cn == 'CloseFile':
            # CloseFile() is called under "if (CodeOutput)", the same condition under which OpenFile() lets the
            # pass produce records at all
            K |= E.kill(P, t)
    for f in E.must_roots(af, pf, s0, P, True):
        K |= E.kill(P, f)
    _kxm[id(P)] = K
    return K


def line_kills(facts, P):
    """Globals assigned by the per-line driver (support for class LINE)."""
    pf = facts.func('as.c', 'ProcessFile')
    ks = set()
    funcs = {pf}
    for b, i, ln, n in pf.calls():
        t = P.resolve(pf.unit, callee_name(n) or '')
        if t is not None:
            funcs.add(t)
    for f in list(funcs):
        for b, i, ln, n in f.calls():
            t = P.resolve(f.unit, callee_name(n) or '')
            if t is not None and t.unit.name in ('as.c', 'asmif.c', 'asmlist.c'):
                funcs.add(t)
    for f in funcs:
        for (k, how, ln, n, b, i) in P.writes(f):
            if how in ('=', 'addr', 'elem', 'ptr'):
                ks.add(k)
    return ks


_bal = {}


def balanced_counter(P, k):
    """The name of the one function that steps global k up and down, when every write of k in the program is an
    increment or decrement in that function and every increment is followed by a decrement on all paths to the
    function's exit: k has its entry value again whenever the function returns, nothing is carried anywhere."""
    if (id(P), k) in _bal:
        return _bal[(id(P), k)]
    res = None
    sites = []
    for f in P.all_funcs():
        if f.entry is None:
            continue
        for (k2, how, ln, n, b, i) in P.writes(f):
            if k2 == k:
                sites.append((f, how, n, b, i))
    fs = {s[0] for s in sites}
    if len(fs) == 1 and sites and all(is_incdec(s[2]) and s[1] == 'op' for s in sites):
        f = sites[0][0]
        ups = [s for s in sites if '+' in s[2][1]]
        downs = [s for s in sites if '-' in s[2][1]]
        if ups and downs:
            var = nocast(ups[0][2][2])

            def is_down(ex, var=var):
                return any(is_incdec(m) and '-' in m[1] and nocast(m[2]) == var for m in walk_own(ex))
            if all(f.must_pass(s[3], s[4], is_down)[0] for s in ups):
                res = f.name
    _bal[(id(P), k)] = res
    return res


def core_reset(chk, facts, rule, scope):
    P = facts.program('asl')
    ph, KP, KF, KX = phase_kills(facts, P)
    mod = E.mod_body(P, ph['BODY'])
    du = E.def_units(P)
    lk = line_kills(facts, P)
    killed = KP if scope == 'pass' else (KP | KF | KX)
    n = 0
    for k in sorted(mod):
        if k not in du or is_gen(du[k][0]):
            continue
        n += 1
        f0, how0, ln0 = mod[k][0]
        loc = '%s:%d' % (du[k][1]['file'], du[k][1]['line'])
        cls = CLASS.get(k)
        if cls is None and k not in killed:
            bf = balanced_counter(P, k)
            if bf:
                chk.ob(rule, k, True, loc, 'depth counter: every write is ++/-- in %s(), and every ++ is followed by a -- on '
                       'all paths to the return: the value is the same after each call' % bf)
                continue
        if k in killed and not (cls is not None and cls[0] == 'EXIT'):
            chk.ob(rule, k, True, loc, 'assigned on every path of the %s initialisation' % scope)
            continue
        if cls is not None:
            ok = True
            why = '%s: %s' % cls
            if cls[0] == 'LINE' and k not in lk:
                ok = False
                why = 'classified as line scratch, but the per-line driver no longer assigns it'
            if cls[0] == 'COUNTED' and k in COUNT_OF and COUNT_OF[k] not in KP:
                ok = False
                why = 'its element count %s is no longer reset per pass' % COUNT_OF[k]
            if cls[0] == 'EXIT' and k not in exit_must_kills(facts, P):
                ok = False
                why = ('%s is classified as a list emptied at the end of every pass, but no function that the pass loop '
                       'always calls after ProcessFile() empties it on every path: entries survive into the next pass or '
                       'file' % k)
            if cls[0] == 'OPTION':
                opt, writer, clearer = OPTION_OF[k]
                okw = True
                for g in P.all_funcs():
                    for b, i, ln, c in g.calls(writer):
                        if not g.guarded(b, i, lambda l: l is not None and l[0] in ('T', 'F') and mentions(l[1], lambda x: var_is(x, {opt})))[0]:
                            okw = False
                af = ph['AssembleFile']
                okc = any(b in ph['loop'][2] and af.guarded(b, i, lambda l: l is not None and l[0] in ('T', 'F') and
                                                            mentions(l[1], lambda x: var_is(x, {opt})))[0]
                          for b, i, ln, c in af.calls(clearer))
                if not (okw and okc):
                    ok = False
                    why = ('%s: %s() is no longer called only under a test of %s, or %s() is no longer called in the pass loop '
                           'under that test' % (k, writer, opt, clearer))
            if cls[0] == 'GUARDED' and 'StartAdrPresent' not in KP:
                ok = False
                why = 'its guard flag StartAdrPresent is no longer reset per pass'
            if cls[0] in ('CARRIED', 'BALANCED') and scope == 'file' and k not in (KF | KX | KP):
                # carried state must at least be cleared per file
                ok = k in file_cleared(facts, P, ph)
                why = 'carried between passes; cleared per file' if ok else \
                    ('%s is carried from pass to pass by design (%s) but is never re-initialised between files: the '
                     'next source file starts with what the previous one left behind' % (k, cls[0]))
            if ok:
                chk.exception(rule, k, why)
            chk.ob(rule, k, ok, loc, why)
            continue
        where = '%s:%d' % (f0.qname, ln0)
        if scope == 'pass' and k in (KF | KX):
            chk.ob(rule, k, False, loc,
                   '%s is written while a pass runs (%s) and is re-initialised per file only: a second pass starts with '
                   'the value the previous pass left behind' % (k, where))
        else:
            chk.ob(rule, k, False, loc,
                   '%s is written while a pass runs (%s) and is never re-initialised for the next %s'
                   % (k, where, scope))
    chk.extra.setdefault('reset', {})[rule] = {'body_written_core_globals': n, 'killed_pass_init': len(KP),
                                              'killed_file_init': len(KF)}
    return n


_fc = {}


def file_cleared(facts, P, ph):
    """Globals given a constant (NULL/0) somewhere in FILE_EXIT/FILE_INIT closures (weak: may-write)."""
    if id(P) in _fc:
        return _fc[id(P)]
    s = set()
    # functions that also run inside a pass body (symbol entry, expression evaluation ...) do not count:
    # their writes are the very writes that need a reset
    for f in (ph['FILE_EXIT'] | ph['FILE_INIT']) - ph['BODY']:
        for (k, how, ln, n, b, i) in P.writes(f):
            if how in ('=', 'addr'):
                s.add(k)
    _fc[id(P)] = s
    return s


def unit_reset_funcs(P, u):
    """Functions of unit u that run at pass start or when its CPU is selected."""
    S = P.slots()
    reg = set()
    for key in ('arg:AddInitPassProc:0', 'f:sCPUDef.SwitchProc', 'f:tCPUDef.SwitchProc', 'f:sSwitchData.Switcher'):
        reg |= {f for f in S.get(key, ()) if f.unit is u}
    for key, fs in S.items():
        if key.startswith('arg:AddCPU') or 'Switch' in key:
            reg |= {f for f in fs if f.unit is u}
    return reg


def registered_reset(chk, facts, rule):
    """ASSUME destinations and ON/OFF flags are re-initialised per pass or by
    the SwitchTo_* of the owning target."""
    P = facts.program('asl')
    ph, KP, KF, KX = phase_kills(facts, P)
    n = 0
    for u in P.units:
        # ASSUME tables: initialiser lists of record ASSUMERec
        dests = {}
        for g in u.globals.values():
            if g.get('init') is None:
                continue
            for node in walk(g['init']):
                if node[0] == 'il' and len(node) > 2 and node[2] in ('ASSUMERec', 'tag_ASSUMERec'):
                    for el in node[1]:
                        e = strip(el)
                        if e[0] == 'u' and e[1] == '&':
                            r = lv_root(e[2])
                            if r and r[0] in GLOBKINDS:
                                dests[r[1]] = r[0]
        for f in u.funcs.values():
            for b, i, ln, nd in f.nodes():
                if nd[0] in ('decl', 'sdecl') and nd[2] is not None:
                    for node in walk(nd[2]):
                        if node[0] == 'il' and len(node) > 2 and node[2] in ('ASSUMERec', 'tag_ASSUMERec'):
                            for el in node[1]:
                                e = strip(el)
                                if e[0] == 'u' and e[1] == '&':
                                    r = lv_root(e[2])
                                    if r and r[0] in GLOBKINDS:
                                        dests[r[1]] = r[0]
        if not dests:
            continue
        rf = unit_reset_funcs(P, u)
        uk = set()
        for f in rf:
            uk |= E.kill(P, f)
        for name, kind in sorted(dests.items()):
            k = name if kind == 'g' else u.name + ':' + name
            n += 1
            ok = k in uk or k in KP
            chk.ob(rule, 'ASSUME:%s:%s' % (u.name, name), ok, u.name,
                   'reset at pass start / CPU switch' if ok else
                   'ASSUME register %s keeps the value the previous pass (or file) left behind: none of %s assigns it '
                   'on all paths' % (name, sorted(f.name for f in rf) or 'the unit\'s init functions'))
    # ON/OFF flags
    flags = {}
    for f in P.all_funcs():
        for b, i, ln, nd in f.calls('AddONOFF'):
            a = strip(nd[2][1])
            if a[0] == 'u' and a[1] == '&':
                r = lv_root(a[2])
                if r and r[0] in GLOBKINDS:
                    k = P.gkey(f, r[0], r[1])
                    flags.setdefault(k, []).append((f, ln))
    for k, sites in sorted(flags.items()):
        n += 1
        ok = k in KP
        where = ''
        if not ok:
            ok = all(k in E.kill(P, f) or any(k in E.kill(P, g) for g in unit_reset_funcs(P, f.unit)) for f, ln in sites)
            where = 'by every registering SwitchTo'
        chk.ob(rule, 'ONOFF:%s' % k, ok, sites[0][0].loc(sites[0][1]),
               'reset at pass start %s' % where if ok else
               'ON/OFF flag %s (registered in %s) is never re-initialised: the setting made in one pass or file is still '
               'in force in the next' % (k, ', '.join(sorted({f.name for f, ln in sites}))[:120]))
    # CPU arguments: ParseCPUArgs resets every registered value to its default
    pa = facts.func('asmallg.c', 'ParseCPUArgs')
    ok = False
    for b, i, ln, nd in pa.nodes():
        if is_assign(nd) and nd[1] == '=':
            t = strip(nd[2])
            if t[0] == 'u' and t[1] == '*' and mentions(t, lambda m: m[0] == 'm' and m[2].endswith('.pValue')) and \
                    mentions(nd[3], lambda m: m[0] == 'm' and m[2].endswith('.DefValue')):
                # not guarded by the presence of user arguments
                g, w = pa.guarded(b, i, lambda l: edge_has_atom(l, lambda a: a[0] == 'nz' and a[1] == ('p', 'pArgs')))
                ok = not g
    n += 1
    chk.ob(rule, 'CPUARGS:ParseCPUArgs:defaults', ok, pa.loc(),
           'every CPU argument is reset to its default on each CPU selection' if ok else
           'CPU arguments are reset to their defaults only when user arguments are given')
    return n


INTERFACE = ['MakeCode', 'IsDef', 'SwitchFrom', 'PCSymbol', 'HeaderID', 'NOPCode', 'DivideChars', 'HasAttrs',
             'ValidSegs', 'TurnWords']


def switchto_interface(chk, facts, rule):
    """Every function in the CPU switch slot assigns the whole target
    interface that SetCPUCore() does not reset centrally, and per valid
    segment Grans/ListGrans/SegInits (and SegLimits unless it has its own ChkPC)."""
    P = facts.program('asl')
    S = P.slots()
    sw = set(S.get('f:sSwitchData.Switcher', set())) | set(S.get('f:sCPUDef.SwitchProc', set()))
    sw = {f for f in sw if is_gen(f.unit.name)}
    if len(sw) < 80:
        # fall back on the naming convention
        sw = {f for f in P.all_funcs() if f.name.startswith('SwitchTo_') and is_gen(f.unit.name)}
    if len(sw) < 80:
        raise AnalysisBroken('only %d CPU switch functions found' % len(sw))
    n = 0
    for f in sorted(sw, key=lambda x: x.qname):
        ks = E.kill(P, f)
        # may-writes for the per-segment arrays (element stores)
        elems = {}
        for (k, how, ln, nd, b, i) in [w for g in P.closure([f], stop=lambda x: not (x.unit is f.unit)) for w in P.writes(g)]:
            if how == 'elem' and k in ('Grans', 'ListGrans', 'SegInits', 'SegLimits'):
                t = strip(nd[2])
                idx = const_val(t[2]) if t[0] == 'i' else None
                elems.setdefault(k, set()).add(idx)
        missing = [v for v in INTERFACE if v not in ks]
        # variables only set through helper calls with out-params are accepted when the closure may-writes them
        if missing:
            mayw = {k for g in P.closure([f], stop=lambda x: not (x.unit is f.unit or x.unit.name in ('intformat.c',)))
                    for (k, how, ln, nd, b, i) in P.writes(g)}
            missing = [v for v in missing if v not in mayw]
        n += 1
        chk.ob(rule, 'interface:%s' % f.qname, not missing, f.loc(),
               'sets the whole target interface' if not missing else
               '%s never sets %s: the value of the previously selected target (another CPU statement, the previous '
               'file) stays in force' % (f.name, ', '.join(missing)))
        segs_needed = ['Grans', 'ListGrans', 'SegInits']
        own_chkpc = 'ChkPC' in ks or 'ChkPC' in {k for g in P.closure([f], stop=lambda x: x.unit is not f.unit)
                                                for (k, how, ln, nd, b, i) in P.writes(g)}
        if not own_chkpc:
            segs_needed.append('SegLimits')
        miss2 = []
        for arr in segs_needed:
            if not elems.get(arr):
                miss2.append(arr)
            elif elems.get('Grans') and None not in elems[arr] and None not in elems['Grans']:
                lack = elems['Grans'] - elems[arr]
                if lack:
                    miss2.append('%s[%s]' % (arr, ','.join(str(x) for x in sorted(lack))))
        n += 1
        chk.ob(rule, 'segments:%s' % f.qname, not miss2, f.loc(),
               'per-segment parameters set for every segment it declares' if not miss2 else
               '%s never sets %s: the segment keeps the start address/limit of the previously selected target '
               '(e.g. "address overflow" depending on the file assembled before)' % (f.name, ', '.join(miss2)))
    return n
