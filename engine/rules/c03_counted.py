"""C03-R17: counted arrays (contradiction rule over the whole program).

A pair (array field/global A, count field/global N) is a counted array when at
least three loops of the program run an index from 0 while `i < N` and
subscript A with it.  A loop that starts the same index at 0, continues while
`i <= N` and subscripts A reads (and possibly writes) the element behind the
last valid one: behind the allocation when the array is full, a stale copy
otherwise."""
from core import *
from .common import *


def _key(e):
    e = nocast(e)
    if e[0] == 'm':
        return ('m', e[2])
    if e[0] in ('g', 'gs'):
        return ('g', e[1])
    return None


def _start_value(f, h, body, iv):
    """Constant the induction variable holds when the loop is entered (the last
    assignment before the header on the entry edges), or None."""
    preds = f.preds()
    vals = set()
    for p, l in preds.get(h, ()):
        if p in body:
            continue
        # walk back through straight-line predecessors
        b = p
        found = None
        for _ in range(6):
            for ln, ex in reversed(f.blocks[b]['elems']):
                for n in walk_own(ex):
                    if is_assign(n) and n[1] == '=' and nocast(n[2]) == iv:
                        found = const_val(nocast(n[3]))
                        break
                    if (is_assign(n) or is_incdec(n)) and nocast(n[2]) == iv:
                        found = 'nc'
                        break
                if found is not None:
                    break
            if found is not None:
                break
            pp = [q for q, l2 in preds.get(b, ())]
            if len(pp) != 1:
                break
            b = pp[0]
        vals.add(found)
    if len(vals) == 1:
        v = vals.pop()
        return v if isinstance(v, int) else None
    return None


def loops_over(f):
    """(header, cond op, induction var, bound key, start value, {array keys: line})"""
    for h, s0 in f.loops():
        c = f.blocks[h].get('cond')
        if c is None:
            continue
        c = nocast(c)
        if c[0] != 'b' or c[1] not in ('<', '<='):
            continue
        iv = nocast(c[2])
        bk = _key(c[3])
        if iv[0] not in ('l', 'p') or bk is None:
            continue
        body = f.loop_body(h, s0)
        arrs = {}
        for b in body:
            for ln, ex in f.blocks[b]['elems']:
                for n in walk_own(ex):
                    if n[0] == 'i' and nocast(n[2]) == iv:
                        ak = _key(n[1])
                        if ak:
                            arrs.setdefault(ak, line_of(n) or ln)
        if arrs:
            yield h, c[1], iv, bk, _start_value(f, h, body, iv), arrs


def run(chk, facts, rule='C03-R17'):
    chk.rule(rule, 'counted arrays: where at least three loops of the program run an index from 0 while "i < N" and subscript '
             'array A with it, no loop that starts at 0 continues while "i <= N" and subscripts A (it would read and '
             'possibly modify the element behind the last valid one)', min_instances=25)
    seen = set()
    table = {}
    for un in facts.all_unit_names():
        u = facts.unit(un)
        for f in u.funcs.values():
            if f.qname in seen or f.entry is None:
                continue
            seen.add(f.qname)
            for h, op, iv, bk, start, arrs in loops_over(f):
                for ak, ln in arrs.items():
                    table.setdefault((ak, bk), []).append((f, op, start, ln))
    n = 0
    for (ak, bk), uses in sorted(table.items(), key=str):
        zero_lt = [x for x in uses if x[1] == '<' and x[2] == 0]
        if len(zero_lt) < 3:
            continue
        for f, op, start, ln in uses:
            n += 1
            bad = op == '<=' and start == 0
            chk.ob(rule, '%s:%s:%s[..%s]:%d' % (f.unit.name, f.name, ak[1], bk[1], sum(1 for x in uses if x[0] is f and x[3] < ln)),
                   not bad, f.loc(ln),
                   'index stays below the count' if not bad else
                   'the loop runs the index from 0 while it is <= %s and subscripts %s with it; %d other loops treat %s as '
                   'the number of valid elements (index < count): the element behind the last one is read and can be '
                   'modified' % (bk[1], ak[1], len(zero_lt), bk[1]))
    return n
