"""C08 — expressions evaluate to their documented value (structural clauses).

R1 operator table == manual's operator table (symbols incl. aliases, arity,
   operand types, rank order)
R2 built-in function table == manual's function table (names, argument count
   and types)
R3 each table row dispatches to the like-named handler
R4 documented domain limits have an error guard with the documented bound
R5 integer / and # exclude a zero divisor and MIN / -1
R6 no operator/function body computes a result it then ignores
R7 integer arguments of built-in functions reach subscripts / pointer offsets
   only after a two-sided bound
"""
import re
from core import *
from .common import *
from . import prove
import docparse


def table_rows(unit, name):
    g = unit.globals.get(name)
    if not g or g.get('init') is None:
        raise AnalysisBroken('%s: table %s not found' % (unit.name, name))
    ini = strip(g['init'])
    if ini[0] != 'il':
        raise AnalysisBroken('%s: table %s has no initialiser list' % (unit.name, name))
    return [r[1] for r in ini[1] if r[0] == 'il']


def sval(e):
    e = nocast(e)
    return e[1] if isinstance(e, tuple) and e and e[0] == 's' else None


def rule_operators(chk, facts):
    chk.rule('C08-R1', 'operator.c Operators[] equals the manual\'s operator table: same symbols incl. documented '
             'aliases, #operands == Dyadic, integer/float/string support == type-combination cells, rank order '
             'isomorphic to Priority', min_instances=25)
    chk.rule('C08-R3', 'each operator/function table row dispatches to the handler named after it (aliases to the '
             'handler of the operator they alias)', min_instances=60)
    u = facts.unit('operator.c')
    T = {n: int(v) for n, v in u.enums.items() if n in ('TempInt', 'TempFloat', 'TempString')}
    if len(T) != 3:
        raise AnalysisBroken('TempInt/TempFloat/TempString enumerators not found')
    rows = {}
    for r in table_rows(u, 'Operators'):
        sym = sval(r[0])
        if sym is None or sym.strip() == '':
            continue
        combos = [const_val(x) for x in strip(r[4])[1]] if strip(r[4])[0] == 'il' else []
        rows[sym] = dict(idlen=const_val(r[1]), dyadic=const_val(r[2]), prio=const_val(r[3]),
                         combos=[c for c in combos if c], func=nocast(r[5])[1] if nocast(r[5])[0] == 'fn' else None)
    hdr, drows = docparse.table('assembler-usage.md', 'Operators Predefined')
    doc = {}
    alias = {}
    for r in drows:
        sym = r[0]
        m = re.match(r'alias for `?([^`]+)`?', r[1])
        if m:
            alias[sym] = m.group(1).strip()
            continue
        doc[sym] = dict(n=int(r[2]), int=r[3].startswith('yes'), flt=r[4].startswith('yes'),
                        str=r[5].startswith('yes'), rank=int(r[6]))

    def supports(combos, dyadic, t):
        for c in combos:
            lo, hi = c & 15, (c >> 4) & 15
            if dyadic and lo == t and hi == t:
                return True
            if not dyadic and hi == t:
                return True
        return False
    for sym, d in sorted(doc.items()):
        key = 'operator:%s' % sym
        r = rows.get(sym)
        if r is None:
            chk.ob('C08-R1', key, False, 'operator.c', 'documented operator %s has no row in Operators[]' % sym)
            continue
        problems = []
        if (d['n'] == 2) != bool(r['dyadic']):
            problems.append('#operands %d vs Dyadic=%s' % (d['n'], r['dyadic']))
        if r['idlen'] != len(sym):
            problems.append('IdLen %s for a %d-character symbol' % (r['idlen'], len(sym)))
        for nm, t in (('int', 'TempInt'), ('flt', 'TempFloat'), ('str', 'TempString')):
            has = supports(r['combos'], bool(r['dyadic']), T[t])
            if has != d[nm]:
                problems.append('%s operands: manual %s, table %s' % (t, d[nm], has))
        chk.ob('C08-R1', key, not problems, 'operator.c', '; '.join(problems) or 'row agrees with the manual')
    for sym, tgt in sorted(alias.items()):
        key = 'operator-alias:%s' % sym
        r, rt = rows.get(sym), rows.get(tgt)
        if r is None:
            chk.ob('C08-R1', key, False, 'operator.c', 'documented alias %s (for %s) has no row in Operators[]: '
                   '"3 %s 4" is rejected' % (sym, tgt, sym))
            continue
        same = rt is not None and all(r[k] == rt[k] for k in ('dyadic', 'prio', 'combos'))
        chk.ob('C08-R1', key, same, 'operator.c', 'alias row equals the row of %s' % tgt if same else
               'alias %s differs from %s in arity/priority/types' % (sym, tgt))
        chk.ob('C08-R3', 'operator-handler:%s' % sym, rt is not None and r['func'] == rt['func'], 'operator.c',
               'alias shares handler %s' % r['func'])
    for sym in sorted(rows):
        if sym not in doc and sym not in alias:
            chk.ob('C08-R1', 'operator-undocumented:%s' % sym, False, 'operator.c',
                   'Operators[] has %s, which the manual\'s table does not list' % sym)
    # rank order isomorphism
    syms = [s for s in doc if s in rows]
    bad = []
    for a in syms:
        for b in syms:
            if a < b:
                da = (doc[a]['rank'] > doc[b]['rank']) - (doc[a]['rank'] < doc[b]['rank'])
                ta = (rows[a]['prio'] > rows[b]['prio']) - (rows[a]['prio'] < rows[b]['prio'])
                if da != ta:
                    bad.append('%s vs %s (manual %d/%d, table %d/%d)' % (a, b, doc[a]['rank'], doc[b]['rank'],
                                                                        rows[a]['prio'], rows[b]['prio']))
    chk.ob('C08-R1', 'operator-rank-order', not bad, 'operator.c',
           'Priority is order-isomorphic to the manual\'s ranks (%d operators)' % len(syms) if not bad else
           'rank order differs: ' + '; '.join(bad[:6]))
    # handler naming
    NAMES = {'~': 'OneComplOp', '<<': 'ShLeftOp', '>>': 'ShRightOp', '><': 'BitMirrorOp', '&': 'BinAndOp',
             '|': 'BinOrOp', '!': 'BinXorOp', '^': 'PotOp', '*': 'MultOp', '/': 'DivOp', '#': 'ModOp', '+': 'AddOp',
             '-': 'SubOp', '~~': 'LogNotOp', '&&': 'LogAndOp', '||': 'LogOrOp', '!!': 'LogXorOp', '=': 'EqOp',
             '>': 'GtOp', '<': 'LtOp', '<=': 'LeOp', '>=': 'GeOp', '<>': 'UneqOp'}
    for sym, fn in sorted(NAMES.items()):
        r = rows.get(sym)
        if r is None:
            continue
        chk.ob('C08-R3', 'operator-handler:%s' % sym, r['func'] == fn, 'operator.c',
               'dispatches to %s' % r['func'] if r['func'] == fn else '%s dispatches to %s, expected %s' % (sym, r['func'], fn))
    return rows


def rule_functions(chk, facts):
    chk.rule('C08-R2', 'function.c Functions[] equals the manual\'s function table: same names, argument count and '
             'argument types per position', min_instances=40)
    u = facts.unit('function.c')
    T = {n: int(v) for n, v in u.enums.items() if n in ('TempInt', 'TempFloat', 'TempString')}
    rows = {}
    for r in table_rows(u, 'Functions'):
        nm = sval(r[0])
        if nm is None:
            continue
        types = [const_val(x) for x in strip(r[3])[1]]
        rows[nm] = dict(min=const_val(r[1]), max=const_val(r[2]), types=types,
                        func=nocast(r[4])[1] if nocast(r[4])[0] == 'fn' else None)
    hdr, drows = docparse.table('assembler-usage.md', 'Functions Predefined')

    def doc_types(arg):
        a = arg.lower()
        if re.search(r'_arg_|∣', arg):
            return [{'TempFloat'}]
        parts = [p.strip() for p in a.split(',')]
        if 'or' in a and ',' in a and len(parts) == 3 and parts[2].startswith('or'):
            parts = [a]   # "integer, float, or string": one argument of any type
        out = []
        for p in parts:
            s = set()
            if 'integer' in p:
                s.add('TempInt')
            if 'float' in p:
                s.add('TempFloat')
            if 'string' in p:
                s.add('TempString')
            out.append(s)
        return out
    docn = set()
    for r in drows:
        nm = r[0]
        docn.add(nm)
        want = doc_types(r[2])
        key = 'function:%s' % nm
        row = rows.get(nm)
        if row is None:
            chk.ob('C08-R2', key, False, 'function.c', 'documented function %s has no row in Functions[]' % nm)
            continue
        problems = []
        if row['min'] != len(want) or row['max'] != len(want):
            problems.append('argument count manual %d, table %s..%s' % (len(want), row['min'], row['max']))
        for k, ws in enumerate(want):
            mask = row['types'][k] if k < len(row['types']) else 0
            have = {t for t in T if mask & (1 << T[t])}
            # floating point parameters accept integers through conversion; compare declared sets
            if have != ws:
                problems.append('argument %d: manual %s, table %s' % (k + 1, sorted(ws), sorted(have)))
        chk.ob('C08-R2', key, not problems, 'function.c', '; '.join(problems) or 'row agrees with the manual')
        chk.ob('C08-R3', 'function-handler:%s' % nm, row['func'] == 'Func' + nm, 'function.c',
               'dispatches to %s' % row['func'])
    for nm in sorted(rows):
        if nm not in docn:
            chk.ob('C08-R2', 'function-undocumented:%s' % nm, False, 'function.c',
                   'Functions[] has %s, which the manual\'s table does not list' % nm)
    return rows


# documented domains: function -> (subject, accepted set as list of (op, const)) meaning
# "an error is raised exactly when the argument is outside"
DOMAINS = {
    'SQRT': ('x', [('<', 0)]),          # error iff x < 0
    'LN': ('x', [('<=', 0)]),
    'LOG': ('x', [('<=', 0)]),
    'LD': ('x', [('<=', 0)]),
    'ASIN': ('|x|', [('>', 1)]),
    'ACOS': ('|x|', [('>', 1)]),
    'ACOSH': ('x', [('<', 1)]),
    'ATANH': ('|x|', [('>=', 1)]),
    'ACOTH': ('|x|', [('<=', 1)]),
}


def rule_domains(chk, facts):
    chk.rule('C08-R4', 'each function with a documented domain limit raises an error on an edge guarded by a '
             'comparison of its argument (or its absolute value) whose operator and constant reject exactly the '
             'complement of the documented domain, and computes the result only on the complementary edge',
             min_instances=9)
    for nm, (subj, rej) in sorted(DOMAINS.items()):
        f = facts.func('function.c', 'Func' + nm)
        arg = None
        ok = False
        det = 'no error call guarded by the documented bound'
        for b, i, ln, n in f.calls({'WrError', 'WrXError', 'WrStrErrorPos'}):
            def want(a):
                if a[0] != 'cmp':
                    return False
                l = a[2]
                isabs = l[0] == 'call' and l[1] == ('fn', 'fabs')
                if isabs != (subj == '|x|'):
                    return False
                core_ = l[2][0] if isabs else l
                if not (core_[0] == 'm' and core_[2].endswith('.Float')):
                    return False
                c = const_val(a[3])
                if c is None and a[3][0] == 'fl':
                    c = a[3][1]
                return any(a[1] == op and c == k for op, k in rej)
            g, w = f.guarded(b, i, lambda l: edge_has_atom(l, want))
            if g:
                ok = True
                det = 'error guarded by %s %s %s' % (subj, rej[0][0], rej[0][1])
        chk.ob('C08-R4', 'function.c:Func%s:domain' % nm, ok, f.loc(), det)
    # COTH: argument 0 rejected through tanh(x) == 0
    f = facts.func('function.c', 'FuncCOTH')
    ok = False
    for b, i, ln, n in f.calls({'WrError'}):
        def want(a):
            return a[0] == 'cmp' and a[1] == '==' and mentions(a[2], lambda m: m[0] == 'call' and callee_name(m) == 'tanh') \
                and (const_val(a[3]) == 0 or (a[3][0] == 'fl' and a[3][1] == 0.0))
        if f.guarded(b, i, lambda l: edge_has_atom(l, want))[0]:
            ok = True
    chk.ob('C08-R4', 'function.c:FuncCOTH:domain', ok, f.loc(), 'error when tanh(x) == 0' if ok else
           'COTH(0) is not rejected')


def rule_division(chk, facts):
    chk.rule('C08-R5', 'the integer branches of the / and # operators divide only on paths where the divisor is '
             'non-zero and the pair (most negative value, -1) has been excluded', min_instances=2)
    P = facts.program('asl')
    for fn in ('DivOp', 'ModOp'):
        f = facts.func('operator.c', fn)
        n_ = 0
        for b, i, ln, n in f.nodes():
            if n[0] == 'b' and n[1] in ('/', '%'):
                rhs = nocast(n[3])
                if not (rhs[0] == 'm' and rhs[2].endswith('.Int')):
                    continue
                n_ += 1
                okz, why = prove.nonzero(P, f, b, i, n[3])

                def neg1(a):
                    if a[0] != 'cmp':
                        return False
                    if a[2] == rhs and a[1] in ('!=', '>', '>=') and const_val(a[3]) in (-1, 0):
                        return (a[1], const_val(a[3])) in (('!=', -1), ('>', -1), ('>=', 0), ('>', 0))
                    lhs = nocast(n[2])
                    if a[2] == lhs and a[1] in ('!=', '>') and const_val(a[3]) is not None and const_val(a[3]) <= -(2 ** 63):
                        return True
                    return False
                okm, w = f.guarded(b, i, lambda l: edge_has_atom(l, neg1))
                chk.ob('C08-R5', 'operator.c:%s:int-division' % fn, okz and okm, f.loc(ln),
                       'divisor non-zero and MIN/-1 excluded' if okz and okm else
                       ('divisor may be zero (%s)' % why if not okz else
                        'signed 64-bit %s is reached with divisor -1 and dividend -2^63 unexcluded (overflow trap): %s'
                        % ('division' if n[1] == '/' else 'remainder', ' '.join(w[-4:]))))
        if not n_:
            raise AnalysisBroken('integer division not found in ' + fn)


def rule_unused(chk, facts):
    chk.rule('C08-R6', 'in operator.c and function.c no local is assigned a computed value that is never read '
             '(a computed-but-unused result means the wrong value is returned)', min_instances=60)
    for un in ('operator.c', 'function.c'):
        u = facts.unit(un)
        for f in u.funcs.values():
            if f.file != un:
                continue
            assigned = {}
            read = set()
            for b, i, ln, n in f.nodes():
                if is_assign(n) and strip(n[2])[0] == 'l':
                    assigned.setdefault(strip(n[2])[1], ln)
                    for m in walk_own(n[3]):
                        if m[0] == 'l':
                            read.add(m[1])
                    if n[1] != '=':
                        pass
                elif n[0] == 'decl' and n[2] is not None:
                    if not (isinstance(n[2], list) and n[2][0] == 'c'):
                        assigned.setdefault(n[1], ln)
            for b, i, ln, ex in f.elems():
                _collect_reads(ex, read)
            dead = [v for v in assigned if v not in read]
            chk.ob('C08-R6', '%s:%s' % (un, f.name), not dead, f.loc(assigned[dead[0]] if dead else None),
                   'every computed local is used' if not dead else
                   'local %s is computed but never read: the function returns something else' % ', '.join(dead))


def _collect_reads(ex, read, lhs=False):
    if not isinstance(ex, (list, tuple)) or not ex:
        return
    k = ex[0]
    if k in ('ref', 'cf'):
        _collect_reads(ex[1], read)
        return
    if k == 'l':
        read.add(ex[1])
        return
    if k == 'b' and ex[1] in ASSIGN_OPS:
        tgt = ex[2]
        t = strip(tgt)
        if t[0] == 'l':
            if ex[1] != '=':
                pass  # compound assignment alone is not a use of the result
        else:
            _collect_reads(tgt, read)
        _collect_reads(ex[3], read)
        return
    if k == 'call':
        _collect_reads(ex[1], read)
        for a in ex[2]:
            _collect_reads(a, read)
        return
    if k in ('decl', 'sdecl'):
        _collect_reads(ex[2], read)
        return
    if k == 'il':
        for a in ex[1]:
            _collect_reads(a, read)
        return
    for x in ex[1:]:
        if isinstance(x, (list, tuple)):
            _collect_reads(x, read)


def rule_funcargs(chk, facts, rule='C08-R7'):
    chk.rule(rule, 'an integer argument of a built-in function (or a local derived from it) is used as subscript or '
             'pointer offset into the string only on paths where it is bounded below by 0 (guard or clamp) and, for '
             'subscripts, above by the string length', min_instances=2)
    u = facts.unit('function.c')
    n_ = 0

    def is_argint(o):
        return o[0] == 'm' and o[2].endswith('.Int') and mentions(o, lambda m: m[0] == 'p')
    for f in u.funcs.values():
        if not f.name.startswith('Func') or f.file != 'function.c':
            continue
        # locals derived from integer arguments
        derived = {}
        for b, i, ln, n in f.nodes():
            rhs, tgt = None, None
            if n[0] == 'decl' and n[2] is not None:
                rhs, tgt = n[2], ('l', n[1])
            elif is_assign(n) and strip(n[2])[0] == 'l':
                rhs, tgt = n[3], strip(n[2])
            if rhs is not None and any(is_argint(nocast(m)) for m in walk(rhs) if m[0] == 'm'):
                derived.setdefault(tgt, []).append(nocast(rhs))
        for b, i, ln, n in f.nodes():
            off = None
            if n[0] == 'i':
                off = n[2]
            elif n[0] == 'b' and n[1] in ('+', '-') and any(
                    (m[0] == 'm' and m[2].endswith('.p_str')) for m in walk(n[2])):
                off = n[3]
            if off is None:
                continue
            o = nocast(off)
            if not (is_argint(o) or o in derived):
                continue
            n_ += 1

            def lo(a):
                return a[0] == 'cmp' and a[2] == o and ((a[1] == '>=' and const_val(a[3]) == 0) or (a[1] == '>' and const_val(a[3]) == -1))

            def hi(a):
                return a[0] == 'cmp' and a[1] in ('<', '<=') and nocast(a[2]) == o and mentions(a[3], lambda m: m[0] == 'm' and m[2].endswith('.len'))
            okl, w1 = f.guarded(b, i, lambda l: edge_has_atom(l, lo))
            if not okl and o in derived:
                # clamp: every definition is (x < 0) ? 0 : x or a non-negative constant
                def clamped(r):
                    c = const_val(r)
                    if c is not None:
                        return c >= 0
                    if r[0] == '?':
                        for br, pol in ((r[2], True), (r[3], False)):
                            cb = const_val(br)
                            if cb is not None:
                                if cb < 0:
                                    return False
                                continue
                            if not any(a[0] == 'cmp' and a[2] == br and ((a[1] == '>=' and const_val(a[3]) == 0) or
                                                                        (a[1] == '>' and const_val(a[3]) == -1))
                                       for a in atoms(r[1], pol)):
                                return False
                        return True
                    return False
                defs_ = f.reaching_defs(b, i, o)
                okl = bool(defs_) and all(
                    clamped(nocast(d[2] if d[0] == 'decl' else d[3])) for d in defs_ if (d[0] == 'decl' or d[1] == '='))\
                    and not any(is_incdec(d) or (is_assign(d) and d[1] != '=') for d in defs_)
            okh, w2 = f.guarded(b, i, lambda l: edge_has_atom(l, hi))
            # a pointer that is only handed on together with a clipped count is tolerated for the upper side
            if n[0] == 'b':
                okh = True
            chk.ob(rule, 'function.c:%s:%s' % (f.name, show(o)), okl and okh, f.loc(ln),
                   'bounded' if okl and okh else
                   '%s is used as %s without a test against %s: a negative position reads before the string buffer'
                   % (show(o), 'subscript' if n[0] == 'i' else 'pointer offset', 'a lower bound' if not okl else 'the length'))
        # a position or length derived from an argument must not pass through a narrower integer type before
        # it has been bounded: the truncated value can satisfy every later test
        for b, i, ln, n in f.nodes():
            if not (is_assign(n) and n[1] == '=' and strip(n[2])[0] == 'l'):
                continue
            r = n[3]
            while isinstance(r, (list, tuple)) and r and r[0] in ('ref', 'cf'):
                r = r[1]
            if not (r[0] == 'cast' and isinstance(r[2], int) and isinstance(r[3], int) and abs(r[2]) < abs(r[3]) and r[1] in ('i', 'e')):
                continue
            srcs = [nocast(m) for m in walk(r[4]) if isinstance(m, (list, tuple)) and m and
                    ((m[0] == 'm' and is_argint(nocast(m))) or (m[0] == 'l' and tuple(m) in derived))]
            if not srcs:
                continue
            n_ += 1
            # tolerated when every source is bounded on both sides at this point
            def both(o):
                lo_ = f.guarded(b, i, lambda l: edge_has_atom(l, lambda a: a[0] == 'cmp' and a[2] == o and a[1] in ('>=', '>')))[0]
                hi_ = f.guarded(b, i, lambda l: edge_has_atom(l, lambda a: a[0] == 'cmp' and a[2] == o and a[1] in ('<=', '<')))[0]
                return lo_ and hi_
            ok = all(both(o) for o in srcs)
            chk.ob(rule, 'function.c:%s:narrow:%s' % (f.name, show(strip(n[2]))), ok, f.loc(ln),
                   'sources bounded before the conversion' if ok else
                   '%s receives a value computed from an argument after conversion from %d to %d bits, before the argument '
                   'was bounded: a position such as 4294967296 wraps to a small value and passes the later tests' %
                   (show(strip(n[2])), abs(r[3]), abs(r[2])))
    if not n_:
        raise AnalysisBroken('no integer-argument offsets found in function.c')


# handler -> C operator applied to (left, right) for int / float operands; the
# comparison handlers also use it on as_nonz_dynstr_cmp(l, r) vs 0 for strings
SIGNATURE = {
    'ShLeftOp': '<<', 'ShRightOp': '>>', 'BinAndOp': '&', 'BinOrOp': '|', 'BinXorOp': '^',
    'MultOp': '*', 'DivOp': '/', 'ModOp': '%', 'AddOp': '+', 'SubOp': '-',
    'EqOp': '==', 'GtOp': '>', 'LtOp': '<', 'LeOp': '<=', 'GeOp': '>=', 'UneqOp': '!=',
}
FLOAT_OP = {'/': '/f'}
LOGICAL = ('LogNotOp', 'LogAndOp', 'LogOrOp', 'LogXorOp')


def _operand(e, side, fld):
    """e is pLVal/pRVal->Contents.<fld> ?"""
    e = nocast(e)
    return (isinstance(e, tuple) and e and e[0] == 'm' and e[2].endswith('.' + fld) and
            nocast(e[1])[0] == 'm' and nocast(nocast(e[1])[1]) == ('p', side))


def rule_signature(chk, facts):
    chk.rule('C08-R8', 'each arithmetic, bitwise and comparison operator handler applies exactly the C operator that '
             'corresponds to its symbol to (left operand, right operand) in that order, for integer and float '
             'operands; the logical operators use their operands only as truth values (tested against zero) and '
             'deliver 0 or 1', min_instances=30)
    u = facts.unit('operator.c')
    for hn, op in sorted(SIGNATURE.items()):
        f = u.funcs.get(hn)
        if f is None:
            chk.ob('C08-R8', 'operator.c:%s' % hn, False, 'operator.c', 'handler vanished')
            continue
        for fld, setter in (('Int', 'as_tempres_set_int'), ('Float', None)):
            want = op if fld == 'Int' else FLOAT_OP.get(op, op)
            found_ok, wrong = False, []
            for b, i, ln, n in f.nodes():
                if n[0] != 'b' or n[1] in ASSIGN_OPS or n[1] in ('&&', '||', ','):
                    continue
                l_, r_ = n[2], n[3]
                if _operand(l_, 'pLVal', fld) and _operand(r_, 'pRVal', fld):
                    if n[1] == want:
                        found_ok = True
                    else:
                        wrong.append('%s at line %d' % (n[1], ln))
                elif _operand(l_, 'pRVal', fld) and _operand(r_, 'pLVal', fld):
                    if n[1] in ('+', '*', '&', '|', '^', '==', '!=', '/f', '*'):
                        if n[1] == want and n[1] not in ('/f',):
                            found_ok = True
                            continue
                    wrong.append('operands swapped (%s) at line %d' % (n[1], ln))
            uses_fld = any(_operand(m, 'pLVal', fld) or _operand(m, 'pRVal', fld) for b, i, ln, m in f.nodes() if m[0] == 'm')
            if not uses_fld:
                continue
            chk.ob('C08-R8', 'operator.c:%s:%s' % (hn, fld.lower()), found_ok and not wrong, f.loc(),
                   'left %s right' % want if found_ok and not wrong else
                   '%s combines its %s operands with %s instead of "left %s right"' % (hn, fld.lower(), ', '.join(wrong) or 'no direct operator', want))
        # string comparisons: as_nonz_dynstr_cmp(&l, &r) <op> 0
        if op in ('==', '>', '<', '<=', '>=', '!='):
            ok = False
            seen_cmp = False
            for b, i, ln, n in f.nodes():
                if n[0] == 'b' and n[1] in ('==', '>', '<', '<=', '>=', '!=') and callee_name(nocast(n[2])) == 'as_nonz_dynstr_cmp':
                    seen_cmp = True
                    c = nocast(n[2])
                    a0, a1 = strip(c[2][0]), strip(c[2][1])
                    order = mentions(a0, lambda m: m == ['p', 'pLVal'] or m == ('p', 'pLVal')) and \
                        mentions(a1, lambda m: m == ['p', 'pRVal'] or m == ('p', 'pRVal'))
                    ok = n[1] == op and const_val(n[3]) == 0 and order
            if seen_cmp:
                chk.ob('C08-R8', 'operator.c:%s:string' % hn, ok, f.loc(), 'cmp(left, right) %s 0' % op if ok else
                       '%s compares strings with a different relation or operand order' % hn)
    for hn in LOGICAL:
        f = u.funcs.get(hn)
        if f is None:
            chk.ob('C08-R8', 'operator.c:%s' % hn, False, 'operator.c', 'handler vanished')
            continue
        bad = []

        def truth_ctx(e, parent, role):
            """operand occurrences must sit directly under !, != 0, == 0, &&, ||, or as a ?: condition"""
            e2 = e
            if not isinstance(e2, (list, tuple)) or not e2:
                return
            if e2[0] in ('ref', 'cf'):
                truth_ctx(e2[1], parent, role)
                return
            if e2[0] == 'm' and (_operand(e2, 'pLVal', 'Int') or _operand(e2, 'pRVal', 'Int')):
                okc = False
                if parent is not None:
                    pk = parent[0]
                    if pk == 'u' and parent[1] == '!':
                        okc = True
                    elif pk == 'b' and parent[1] in ('&&', '||'):
                        okc = True
                    elif pk == 'b' and parent[1] in ('!=', '==') and (const_val(parent[2]) == 0 or const_val(parent[3]) == 0):
                        okc = True
                    elif pk == '?' and role == 'cond':
                        okc = True
                if not okc:
                    bad.append(show(parent) if parent is not None else show(e2))
                return
            if e2[0] == 'call':
                for a in e2[2]:
                    truth_ctx(a, e2, 'arg')
                return
            if e2[0] == '?':
                truth_ctx(e2[1], e2, 'cond')
                truth_ctx(e2[2], e2, 'val')
                truth_ctx(e2[3], e2, 'val')
                return
            for x in e2[1:]:
                if isinstance(x, (list, tuple)):
                    truth_ctx(x, e2, 'operand')
        for b, i, ln, n in f.calls('as_tempres_set_int'):
            truth_ctx(n[2][1], None, None)
            v = nocast(n[2][1])
            if v[0] == '?':
                if {const_val(v[2]), const_val(v[3])} != {0, 1}:
                    bad.append('result %s is not 0/1' % show(v))
        chk.ob('C08-R8', 'operator.c:%s:truth-values' % hn, not bad, f.loc(),
               'operands used as truth values only' if not bad else
               '%s uses an operand arithmetically (%s): two different non-zero operands are both TRUE but are not '
               'treated alike' % (hn, '; '.join(bad)[:160]))


def _lin(f, e, depth=0):
    """Linear form of e over the symbols 'R' (RadixBase) and 'D' (digit value of the marker letter Ch:
    DigitVal(Ch, ..) or Ch - 'A' + 10): dict symbol -> coefficient, 1 -> constant; None if not linear."""
    e = nocast(e)
    c = const_val(e)
    if c is not None:
        return {1: c}
    if e[0] in ('g', 'gs') and e[1] == 'RadixBase':
        return {'R': 1, 1: 0}
    if e[0] == 'p' and e[1] == 'Ch':
        return {'D': 1, 1: 55}            # Ch = D + 'A' - 10
    if e[0] == 'call' and callee_name(e) == 'DigitVal' and e[2] and nocast(e[2][0]) == ('p', 'Ch'):
        return {'D': 1, 1: 0}
    if e[0] == 'l' and depth < 4:
        # (a declaration with initialiser is seen as an assignment by the walkers)
        ds = [m for b, i, ln, m in f.nodes() if is_assign(m) and strip(m[2]) == e]
        if len(ds) == 1 and ds[0][1] == '=':
            return _lin(f, ds[0][3], depth + 1)
        return None
    if e[0] == 'b' and e[1] in ('+', '-'):
        a, b = _lin(f, e[2], depth), _lin(f, e[3], depth)
        if a is None or b is None:
            return None
        out = dict(a)
        for k, v in b.items():
            out[k] = out.get(k, 0) + (v if e[1] == '+' else -v)
        return out
    return None


def rule_radix_marker(chk, facts):
    chk.rule('C08-R9', 'intformat.c: a letter serves as number-system marker (Intel suffix B/O/Q/H, C prefix 0x/0b) exactly '
             'when it is not itself a digit of the current RADIX: every comparison between RadixBase and the marker '
             'letter\'s digit value changes its outcome between "digit value = RadixBase - 1" (highest digit) and '
             '"digit value = RadixBase"', min_instances=1)
    u = facts.unit('intformat.c')
    n = 0
    for f in u.funcs.values():
        if f.file != 'intformat.c':
            continue
        for b, i, ln, m in f.nodes():
            if m[0] != 'b' or m[1] not in ('<', '<=', '>', '>='):
                continue
            L, Rr = _lin(f, m[2]), _lin(f, m[3])
            if L is None or Rr is None:
                continue
            d = dict(L)
            for k, v in Rr.items():
                d[k] = d.get(k, 0) - v
            if not d.get('R') or not d.get('D'):
                continue
            n += 1
            ok = d['R'] == -d['D'] and abs(d['D']) == 1

            def val(t, d=d, op=m[1]):          # truth of the comparison at D - R == t
                x = d['D'] * t + d.get(1, 0)
                return {'<': x < 0, '<=': x <= 0, '>': x > 0, '>=': x >= 0}[op]
            ok = ok and val(-1) != val(0)
            chk.ob('C08-R9', 'intformat.c:%s:%s' % (f.name, show(m)[:60]), ok, f.loc(ln),
                   'boundary between the highest digit and the first non-digit' if ok else
                   'the comparison %s does not separate "letter is the highest digit of the radix" from "letter is no '
                   'digit": with RADIX = digit value + 1 (e.g. RADIX 18 and the suffix H) the letter is still taken as a '
                   'marker and the constant is evaluated in the wrong base' % show(m))
    if n < 1:
        raise AnalysisBroken('no radix/marker comparison found in intformat.c')

    # every handler that recognises its marker *letter* (case-folded comparison with the handler's character
    # parameter, itself or through a helper of the unit) and has no quote to delimit the digits must pass such a
    # comparison on every path to "return True"
    chk.rule('C08-R12', 'intformat.c: each constant-format handler that recognises a marker letter directly next to the '
             'digits (case-folded comparison with its character parameter, no quote delimiter) reaches "return True" only '
             'through a comparison of RadixBase with the letter\'s digit value', min_instances=3)

    def mentions_call(e, names):
        return any(isinstance(m, (list, tuple)) and m and m[0] == 'call' and callee_name(m) in names for m in walk(e))

    def chparam(f):
        for p in f.params:
            if p['type'].get('t') == 'char':
                return ('p', p['name'])
        return None

    def letter_cmp(f, depth=0):
        cp = chparam(f)
        if cp is None:
            return False
        for b, i, ln, m in f.nodes():
            if m[0] == 'b' and m[1] in ('==', '!='):
                for x, y in ((m[2], m[3]), (m[3], m[2])):
                    if nocast(y) == cp and mentions_call(x, ('toupper', 'tolower')):
                        return True
            if m[0] == 'call' and depth < 2 and any(nocast(a) == cp for a in m[2]):
                g = u.funcs.get(callee_name(m) or '')
                if g is not None and g is not f and letter_cmp(g, depth + 1):
                    return True
        return False

    def quote_delim(f):
        return any(m[0] == 'b' and m[1] in ('==', '!=') and (const_val(m[3]) == 39 or const_val(m[2]) == 39) for b, i, ln, m in f.nodes())

    def radix_edge(f):
        def pred(l):
            if l is None or l[0] not in ('T', 'F'):
                return False
            for m in walk(l[1]):
                if isinstance(m, (list, tuple)) and m and m[0] == 'b' and m[1] in ('<', '<=', '>', '>='):
                    L, Rr = _lin(f, m[2]), _lin(f, m[3])
                    if L is not None and Rr is not None:
                        d = dict(L)
                        for k, v in Rr.items():
                            d[k] = d.get(k, 0) - v
                        if d.get('R') and d.get('D'):
                            return True
                if isinstance(m, (list, tuple)) and m and m[0] == 'call':
                    g = u.funcs.get(callee_name(m) or '')
                    if g is not None and g is not f and chparam(g) and any(nocast(a) == chparam(f) for a in m[2]) and radix_guarded(g, 1):
                        return True
            return False
        return pred

    def is_radix_cmp(f, m):
        if not (isinstance(m, (list, tuple)) and m and m[0] == 'b' and m[1] in ('<', '<=', '>', '>=')):
            return False
        L, Rr = _lin(f, m[2]), _lin(f, m[3])
        if L is None or Rr is None:
            return False
        d = dict(L)
        for k, v in Rr.items():
            d[k] = d.get(k, 0) - v
        return bool(d.get('R') and d.get('D'))

    def true_needs_radix(f, e):
        """the expression e can only be true if a radix comparison in it is true (conjunct of a && chain)"""
        e = nocast(e)
        if e[0] == 'b' and e[1] == '&&':
            return true_needs_radix(f, e[2]) or true_needs_radix(f, e[3])
        if e[0] == 'b' and e[1] in ('<', '<=', '>', '>='):
            return is_radix_cmp(f, list(e) if not isinstance(e, list) else e)
        if e[0] == 'l':
            # a local holding such a conjunction
            ds = [m for b, i, ln, m in f.nodes() if is_assign(m) and m[1] == '=' and strip(m[2]) == e]
            return bool(ds) and all(true_needs_radix(f, d[3]) for d in ds)
        return False

    def radix_guarded(f, depth=0):
        if depth > 2:
            return False
        rets = [(b, i, ln, m) for b, i, ln, m in f.nodes() if m[0] == 'ret' and m[1] is not None and const_val(nocast(m[1])) not in (0,)]
        if not rets:
            return False
        return all(f.guarded(b, i, radix_edge(f))[0] or (const_val(nocast(m[1])) is None and true_needs_radix(f, m[1]))
                   for b, i, ln, m in rets)
    n12 = 0
    for f in u.funcs.values():
        if f.file != 'intformat.c' or not f.name.startswith('ChkIntFormat') or f.entry is None:
            continue
        if not letter_cmp(f) or quote_delim(f):
            continue
        n12 += 1
        ok = radix_guarded(f)
        chk.ob('C08-R12', 'intformat.c:%s:marker-needs-radix-test' % f.name, ok, f.loc(),
               'every "return True" lies behind the radix test' if ok else
               '%s() accepts its marker letter without looking at RadixBase: with a RADIX in which the letter is a digit '
               '(RADIX 16 and 0b11) the constant is still read in the marker\'s number system' % f.name)
    if n12 < 3:
        raise AnalysisBroken('only %d letter-marker handlers found in intformat.c' % n12)


def run(chk, facts, info):
    from . import c08_bits
    c08_bits.run(chk, facts)
    from . import c08_counted
    c08_counted.run(chk, facts, facts.program('asl'))
    rule_operators(chk, facts)
    rule_signature(chk, facts)
    rule_functions(chk, facts)
    rule_domains(chk, facts)
    rule_division(chk, facts)
    rule_unused(chk, facts)
    rule_funcargs(chk, facts)
    rule_radix_marker(chk, facts)
    chk.rule('C08-R11', 'operator.c/function.c: an operand value is narrowed into the 8-bit Boolean type (variable, parameter or '
             'return value) only after it has been turned into a truth value (!= 0, comparison): "an expression is TRUE in '
             'case it is not 0" also for 256, 65536, ... (today no such narrowing exists in these files: the operators compare with 0 and pass the '
             'wide result on; the seeded-break corpus holds the positive example)', min_instances=0)
    boolean_store_rule(chk, facts.program('asl'), 'C08-R11', lambda u: u in ('operator.c', 'function.c'))
    chk.rule('C08-R10', 'function.c/asmpars.c: a character of a string operand that becomes a number (CHARFROMSTR, '
             'multi-character constants) is converted to unsigned char before it is widened', min_instances=1)
    n10 = string_char_rule(chk, facts.program('asl'), 'C08-R10', lambda u: u in ('function.c', 'asmpars.c', 'operator.c'))
    if n10 < 1:
        raise AnalysisBroken('no string-character argument found in function.c')
    chk.note('Decided: operator and function tables against the manual (parsed from doc/assembler-usage.md at run '
             'time), handler dispatch, documented domain guards, division guards, unused results, bounds of string '
             'positions. Not decided: numerical results and literal syntax (e.g. FIRSTBIT(1)).')
