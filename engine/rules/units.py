"""Dimension checking (address units vs bytes) for the code-file tools.

Variables carry a dimension from a small hand-written table per function:
  A  address units of the target segment
  B  bytes (file offsets, lengths in the code file and buffers)
  G  bytes per address unit (granularity)
  1  dimensionless (lane divisor, counts, masks)
Expressions are typed bottom-up; locals not in the table get the dimension of
their (agreeing) definitions.  A report is made only when two known
dimensions disagree: in an assignment, a comparison, an addition, or at a sink
(fseek offset, fread/fwrite length, AddChunk start/length)."""
from core import *
from .common import *

MUL = {('A', 'G'): 'B', ('G', 'A'): 'B', ('1', '1'): '1'}
DIV = {('B', 'G'): 'A', ('B', 'A'): 'G'}


def mul(a, b):
    if a is None or b is None:
        return None
    if a == '1':
        return b
    if b == '1':
        return a
    return MUL.get((a, b), '?')


def div(a, b):
    if a is None or b is None:
        return None
    if b == '1':
        return a
    if a == b:
        return '1'
    return DIV.get((a, b), '?')


class Units:
    def __init__(self, f, table, funcs=None):
        self.f = f
        self.table = dict(table)
        self.funcs = funcs or {}
        self.problems = []
        self.infer_locals()

    def var_dim(self, e):
        if e[0] in ('l', 'p', 'g', 'gs', 'ls'):
            v = self.table.get(e[1])
            return None if v == 'x' else v
        if e[0] == 'i':
            return self.var_dim(nocast(e[1]))
        if e[0] == 'm':
            return self.table.get(e[2].split('.')[-1])
        return None

    def dim(self, e, report=None):
        """Dimension of expression e: 'A','B','G','1', '?' (known inconsistent/unknown product), None (unknown),
        'c' (constant: adapts)."""
        e = nocast(e)
        if not isinstance(e, tuple) or not e:
            return None
        k = e[0]
        if k in ('c', 'e', 'fl'):
            return 'c'
        if k in ('l', 'p', 'g', 'gs', 'ls', 'i', 'm'):
            return self.var_dim(e)
        if k == 'u':
            if e[1] in ('-', '+', '~', 'x++', 'x--', '++x', '--x'):
                return self.dim(e[2], report)
            if e[1] == '*' or e[1] == '&':
                return self.dim(e[2], report)
            return '1' if e[1] == '!' else None
        if k == '?':
            a, b = self.dim(e[2], report), self.dim(e[3], report)
            self.dim(e[1], report)
            return self.join(a, b, e, report, 'branches of ?:')
        if k == 'call':
            cn = callee_name(e)
            if cn in ('abs', 'labs'):
                return self.dim(e[2][0], report)
            if cn in self.funcs:
                return self.funcs[cn]
            return None
        if k == 'b':
            op = e[1]
            if op in ASSIGN_OPS:
                return self.dim(e[3], report)
            a, b = self.dim(e[2], report), self.dim(e[3], report)
            if op in ('+', '-'):
                return self.join(a, b, e, report, 'operands of ' + op)
            if op in ('*',):
                if a == 'c':
                    return b
                if b == 'c':
                    return a
                return mul(a, b)
            if op in ('/', '%'):
                if b == 'c':
                    return a
                if a == 'c':
                    return None
                return div(a, b) if op == '/' else a
            if op in ('<', '>', '<=', '>=', '==', '!='):
                self.join(a, b, e, report, 'operands of ' + op)
                return '1'
            if op in ('&', '|', '^', '<<', '>>'):
                if b == 'c' or b == '1':
                    return a
                return None
            if op in ('&&', '||'):
                return '1'
            if op == ',':
                return b
        return None

    def join(self, a, b, e, report, what):
        if a in (None, '?') or b in (None, '?'):
            return a if b in (None,) else (b if a is None else '?')
        if a == 'c':
            return b
        if b == 'c':
            return a
        if a != b:
            if report is not None:
                report('%s have different dimensions (%s vs %s) in %s' % (what, NAMES[a], NAMES[b], show(e)[:90]))
            return '?'
        return a

    def infer_locals(self):
        f = self.f
        for rnd in range(4):
            changed = False
            for b, i, ln, n in f.nodes():
                tgt, rhs = None, None
                if n[0] == 'decl' and n[2] is not None:
                    tgt, rhs = n[1], n[2]
                elif is_assign(n) and n[1] == '=' and strip(n[2])[0] == 'l':
                    tgt, rhs = strip(n[2])[1], n[3]
                if tgt is None or tgt in self.table:
                    continue
                d = self.dim(rhs)
                if d in ('A', 'B', 'G', '1'):
                    self.table[tgt] = d
                    changed = True
            if not changed:
                break


NAMES = {'A': 'address units', 'B': 'bytes', 'G': 'bytes per address unit', '1': 'dimensionless', 'c': 'constant'}

SINKS = {
    # callee -> {arg index: required dimension}
    'fseek': {1: 'B'},
    'fread': {2: 'B'},
    'fwrite': {2: 'B'},
    'AddChunk': {1: 'A', 2: 'A'},
}


def check_function(chk, rule, f, table, exceptions=None, funcs=None):
    """One obligation per assignment / comparison / sink with known dimensions."""
    exceptions = exceptions or {}
    U = Units(f, table, funcs)
    n = 0
    for b, i, ln, node in f.nodes():
        msgs = []
        if is_assign(node):
            lt = U.dim(node[2])
            if node[1] == '=':
                rt = U.dim(node[3], msgs.append)
                want = lt
            elif node[1] in ('+=', '-='):
                rt = U.dim(node[3], msgs.append)
                want = lt
            elif node[1] in ('*=',):
                rt, want = None, None
            else:
                rt, want = None, None
            if want in ('A', 'B', 'G') and rt in ('A', 'B', 'G', '1') and rt != want:
                msgs.append('%s (%s) %s %s (%s)' % (show(node[2]), NAMES[want], node[1], show(node[3])[:70], NAMES[rt]))
            if want in ('A', 'B', 'G') and rt is not None:
                n += 1
                key = '%s:%s:%s%s' % (f.unit.name, f.name, show(node[2]), node[1])
                ok = not msgs
                if not ok and key in exceptions:
                    chk.exception(rule, key, exceptions[key])
                    ok = True
                    msgs = ['listed: ' + exceptions[key]]
                chk.ob(rule, key, ok, f.loc(ln), '; '.join(msgs) or 'dimensions agree')
        elif node[0] == 'call' and callee_name(node) in SINKS:
            for ai, want in SINKS[callee_name(node)].items():
                if ai >= len(node[2]):
                    continue
                rt = U.dim(node[2][ai], msgs.append)
                if rt in ('A', 'B', 'G', '1') and rt != want:
                    msgs.append('argument %d of %s must be in %s but %s is in %s' % (
                        ai + 1, callee_name(node), NAMES[want], show(node[2][ai])[:70], NAMES[rt]))
                if rt is not None:
                    n += 1
                    key = '%s:%s:%s#%d(%s)' % (f.unit.name, f.name, callee_name(node), ai + 1, show(node[2][ai])[:40])
                    chk.ob(rule, key, not msgs, f.loc(ln), '; '.join(msgs) or 'dimension %s' % NAMES[want])
                    msgs = []
        elif node[0] == 'b' and node[1] in ('<', '>', '<=', '>=', '==', '!='):
            a, b_ = U.dim(node[2], msgs.append), U.dim(node[3], msgs.append)
            if (a in ('A', 'B', 'G') and b_ in ('A', 'B', 'G')) or msgs:
                n += 1
                same = (a == b_) or not (a in ('A', 'B', 'G') and b_ in ('A', 'B', 'G'))
                if not same:
                    msgs.append('comparison of %s with %s: %s' % (NAMES[a], NAMES[b_], show(node)[:80]))
                chk.ob(rule, '%s:%s:cmp:%s' % (f.unit.name, f.name, show(node)[:50]), not msgs, f.loc(ln),
                       '; '.join(msgs) or 'same dimension')
    return n
