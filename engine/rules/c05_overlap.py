"""C05-R11/R12: the overlap bookkeeping behind "an overlap warning is given
exactly when two selected records cover a common address".

R11  the list that collects the selected ranges (the first argument of the
     AddChunk(.., True) call of P2BIN/P2HEX) lives for the whole run: it is
     initialised outside every loop of main() and neither initialised nor
     cleared in any function reachable from the per-file conversion.
R12  AddChunk() itself: every union it forms (SetChunk) while the caller asked
     for the overlap result is followed by the comparison "sum of the two
     lengths != length of the union" that sets the result.  A union without
     that comparison merges a truly overlapping range silently.
"""
from core import *
from .common import *


def _list_arg(c):
    a = nocast(c[2][0]) if c[2] else None
    if a is not None and a[0] == 'u' and a[1] == '&':
        return nocast(a[2])
    return a


def rule_r11(chk, facts, rule='C05-R11'):
    chk.rule(rule, 'P2BIN/P2HEX: the range list that AddChunk(.., True) fills for the overlap warning is initialised once, '
             'outside every loop of main(), and is neither re-initialised nor cleared in the per-file conversion '
             '(records of different source files overlap, too)', min_instances=4)
    for exe, unit in (('p2bin', 'p2bin.c'), ('p2hex', 'p2hex.c')):
        P = facts.program(exe)
        u = facts.unit(unit)
        lists = set()
        users = []
        for f in u.funcs.values():
            for b, i, ln, c in f.calls('AddChunk'):
                if len(c[2]) >= 4 and const_val(nocast(c[2][3])) not in (None, 0):
                    la = _list_arg(c)
                    if la is not None and la[0] in ('g', 'gs'):
                        lists.add(la)
                        users.append(f)
        if not lists:
            raise AnalysisBroken('%s: no AddChunk(.., True) on a global list found' % unit)
        per_file = P.closure(users)
        main = facts.func(unit, 'main')
        loop_blocks = set()
        for h, s0 in main.loops():
            loop_blocks |= main.loop_body(h, s0)
        for L in sorted(lists):
            inits = []
            for f in P.all_funcs():
                for b, i, ln, c in f.calls(('InitChunk', 'ClearChunk')):
                    if _list_arg(c) == L:
                        inits.append((f, b, ln, callee_name(c)))
            ok = any(f is main and b not in loop_blocks for f, b, ln, cn in inits)
            chk.ob(rule, '%s:%s:initialised-once' % (unit, L[1]), ok, main.loc(),
                   'initialised in main() outside its loops' if ok else '%s is never initialised before the conversion' % L[1])
            bad = [(f, ln, cn) for f, b, ln, cn in inits if f in per_file or (f is main and b in loop_blocks)]
            ok = not bad
            chk.ob(rule, '%s:%s:not-reset-per-file' % (unit, L[1]), ok, bad[0][0].loc(bad[0][1]) if bad else main.loc(),
                   'no reset in the per-file conversion (%d functions)' % len(per_file) if ok else
                   '%s(&%s) in %s() runs once per source file: ranges of earlier files are forgotten, so records of two '
                   'files that cover a common address are merged without the overlap warning' % (bad[0][2], L[1], bad[0][0].name))


def rule_r12(chk, facts, rule='C05-R12'):
    chk.rule(rule, 'chunks.c AddChunk(): every union of two ranges (SetChunk) is followed on every path by the comparison of the '
             'sum of the two lengths with the length of the union, which sets the overlap result under Warn', min_instances=2)
    f = facts.func('chunks.c', 'AddChunk')
    sites = sorted(f.calls('SetChunk'), key=lambda x: x[2])
    if not sites:
        raise AnalysisBroken('AddChunk() forms no union (SetChunk) any more')

    def sets_result(ex):
        return any(is_assign(m) and m[1] == '=' and nocast(m[2]) == ('l', 'Result') and const_val(nocast(m[3])) not in (None, 0)
                   for m in walk_own(ex))
    # blocks whose condition compares something with a .Length member
    def length_test(l):
        if l is None or l[0] not in ('T', 'F'):
            return False
        for a in atoms(l[1], l[0] == 'T'):
            if a[0] == 'cmp' and a[1] == '!=':
                for side in (a[2], a[3]):
                    if any(isinstance(m, tuple) and m and m[0] == 'm' and m[2].endswith('.Length') for m in walk(side)):
                        return True
        return False
    succ = f.succs()
    for k, (b, i, ln, c) in enumerate(sites):
        # from the union: reach a length test whose true edge sets Result, before the next union / loop back / return,
        # on every path on which Warn is not known to be false
        ok = False
        seen = set()
        work = [(b, i + 1)]
        unchecked_exit = False
        while work:
            bb, start = work.pop()
            if (bb, start) in seen:
                continue
            seen.add((bb, start))
            blk = f.blocks[bb]
            stop = False
            for j in range(start, len(blk['elems'])):
                ex = blk['elems'][j][1]
                if any(m[0] == 'call' and callee_name(m) == 'SetChunk' for m in walk_own(ex)):
                    unchecked_exit = True
                    stop = True
                    break
            if stop:
                continue
            if bb == f.exit:
                unchecked_exit = True
                continue
            for t, l in succ.get(bb, ()):
                if length_test(l):
                    # the edge must lead to Result = True
                    tb = f.blocks[t]
                    if any(sets_result(ex) for l2, ex in tb['elems']):
                        continue
                # Warn known false: nothing to report on this path
                if l is not None and l[0] in ('T', 'F') and any(a[0] == 'z' and a[1] == ('p', 'Warn') for a in atoms(l[1], l[0] == 'T')):
                    continue
                # the complementary edge of a length test (sum == union: ranges only touch) needs no report
                if l is not None and l[0] in ('T', 'F') and length_test((('F' if l[0] == 'T' else 'T'), l[1])):
                    continue
                work.append((t, 0))
        ok = not unchecked_exit
        chk.ob(rule, 'chunks.c:AddChunk:union#%d' % k, ok, f.loc(ln),
               'followed by the sum-versus-union test' if ok else
               'this union is not followed by a comparison of the summed lengths with the merged length: a new range that '
               'only touches the first chunk found but truly overlaps a later one is merged without the overlap result '
               '(records 0..3, 6..9, then 4..7: no warning)')
