"""C14 — machine instructions encode as the target's instruction set defines
(table-driven and structural clauses for 6502, 8080/8085, Z80, MSP430,
PIC16C8x, AVR, 4004/4040).

R1 every table-driven opcode constant equals the ISA reference in
   oracles/isa/*.tbl
R2 sign-extension / wrap thresholds are well formed (shared with C15-R3)
R3 a value that was range-checked against a constant upper bound is never
   masked with a narrower mask afterwards (a later check on the masked value
   could not fail: out-of-range operands would be emitted truncated)
R4 distance checks of relative branches are symmetric two's-complement windows
R5 no generator consumes a shared scratch variable only other targets assign
"""
import glob, os
from core import *
from .common import *
from . import c15

FILES = ['code65.c', 'code85.c', 'codez80.c', 'codemsp.c', 'code16c8x.c', 'codeavr.c', 'code4004.c']


def load_oracle():
    rows = []
    for p in sorted(glob.glob(os.path.join(VERIF, 'oracles', 'isa', '*.tbl'))):
        for l in open(p):
            l = l.strip()
            if not l or l[0] == '#':
                continue
            fn, mn, op = l.split('|')
            rows.append((os.path.basename(p), fn, mn, int(op, 16)))
    if len(rows) < 250:
        raise AnalysisBroken('ISA oracle incomplete (%d rows)' % len(rows))
    return rows


def registrations(u):
    d = {}
    for f in u.funcs.values():
        if f.file != u.name:
            continue
        for b, i, ln, n in f.calls():
            cn = callee_name(n)
            if not cn or not cn.startswith('Add'):
                continue
            strs = [nocast(a)[1] for a in n[2] if isinstance(nocast(a), tuple) and nocast(a) and nocast(a)[0] == 's']
            ints = [const_val(a) for a in n[2] if const_val(a) is not None]
            for s_ in strs:
                d.setdefault(s_, []).append((cn, ints, ln, f))
    return d


def rule_r1(chk, facts):
    chk.rule('C14-R1', 'for each mnemonic of the embedded ISA references (Intel 8080/8085, Zilog Z80 fixed set, MOS '
             '6502 implied/relative, TI MSP430, Microchip PIC16C8x, Atmel AVR, Intel 4004/4040) the opcode constant '
             'registered in the code generator\'s instruction table equals the manufacturer\'s opcode', min_instances=280)
    rows = load_oracle()
    regs = {}
    for (tb, fn, mn, op) in rows:
        if fn not in regs:
            regs[fn] = registrations(facts.unit(fn))
        cs = regs[fn].get(mn)
        key = '%s:%s' % (fn, mn)
        if not cs:
            chk.ob('C14-R1', key, False, fn, 'mnemonic %s is no longer registered with a constant opcode' % mn)
            continue
        ok = any(op in ints for (cn, ints, ln, f) in cs)
        f0 = cs[0][3]
        chk.ob('C14-R1', key, ok, f0.loc(cs[0][2]), '$%x' % op if ok else
               '%s is registered with %s, the instruction set prescribes $%x' % (
                   mn, ['/'.join('$%x' % x for x in ints) for (cn, ints, ln, f) in cs], op))


def rule_r3(chk, facts):
    chk.rule('C14-R3', 'in the seven code generators, when an operand value is masked with 2^k-1 on a path on which it '
             'was accepted by ChkRange(value, lo, hi) with constant hi, the mask covers hi', min_instances=2)
    n = 0
    for fn in FILES:
        u = facts.unit(fn)
        for f in u.funcs.values():
            if f.file != fn:
                continue
            for b, i, ln, m in f.nodes():
                if m[0] != 'b' or m[1] != '&':
                    continue
                M = const_val(m[3])
                x = nocast(m[2])
                if M is None or M <= 0 or (M & (M + 1)) != 0 or x[0] not in ('l', 'p'):
                    continue
                his = []

                def want(a, x=x, M=M):
                    if a[0] == 'nz' and isinstance(a[1], tuple) and a[1][0] == 'call' and a[1][1] == ('fn', 'ChkRange'):
                        args = a[1][2]
                        if len(args) == 3 and nocast(args[0]) == x and const_val(args[2]) is not None:
                            his.append(const_val(args[2]))
                            return True
                        if len(args) == 3 and nocast(args[0]) == x:
                            # non-constant bound: fine when it is clamped to a constant, min(limit, C) written as ?:
                            hi = nocast(args[2])
                            cs = [const_val(y) for y in (hi[2:4] if hi[0] == '?' else ()) if const_val(y) is not None]
                            his.append(max(cs) if cs else (1 << 62))
                            return True
                    return False
                # range checks whose accepting edge every path to the mask has to cross (one condition at a time)
                for s_, d_, l in f.edges():
                    if l is None or l[0] not in ('T', 'F'):
                        continue
                    before = len(his)
                    if edge_has_atom(l, want):
                        # the accepting edge must lead to the mask (the check may be skipped for first-pass-unknown values,
                        # so it need not dominate)
                        if b != d_ and b not in f.reach_forward([d_]):
                            del his[before:]
                if not his:
                    continue
                n += 1
                hi = max(his)
                ok = hi <= M
                chk.ob('C14-R3', '%s:%s:%s&$%x' % (fn, f.name, show(x), M), ok, f.loc(ln),
                       ('mask covers the accepted range 0..%d' % hi if hi < (1 << 62) else 'mask covers the range') if ok else
                       '%s is accepted up to %s but then masked with $%x: values above $%x are folded into the field and a '
                       'later range check on the masked value cannot reject them' %
                       (show(x), hi if hi < (1 << 62) else 'a bound that is not a constant (segment limit)', M, M))
    if n < 2:
        raise AnalysisBroken('only %d masked range-checked values found' % n)


def rule_r4(chk, facts):
    chk.rule('C14-R4', 'every jump-distance error in the seven code generators is guarded by a two-sided test whose '
             'bounds form a two\'s-complement window (lo = -2^n, hi = 2^n - 1, possibly scaled by the instruction '
             'size) or an unsigned window (0 .. 2^n - 1)', min_instances=5)
    n = 0
    for fn in FILES:
        u = facts.unit(fn)
        for f in u.funcs.values():
            if f.file != fn:
                continue
            for b, i, ln, c in f.calls({'WrError', 'WrStrErrorPos', 'WrXError'}):
                a0 = nocast(c[2][0])
                if not (a0[0] == 'e' and a0[1] == 'ErrNum_JmpDistTooBig'):
                    continue
                # collect comparison atoms on the guarding T edges (the error branch)
                los, his = [], []
                for s_, d_, l in f.edges():
                    if l is None or l[0] not in ('T', 'F'):
                        continue
                    # edge must lead (only) towards the error: its removal makes the site unreachable is too strong for ||;
                    # take edges whose target can reach the site and whose atoms are bounds
                    if b not in f.reach_forward([d_]):
                        continue
                    for a in atoms(l[1], l[0] == 'T'):
                        if a[0] == 'cmp' and a[1] in ('<', '<=', '>', '>=') and const_val(a[3]) is not None and a[2][0] in ('l', 'p'):
                            v = const_val(a[3])
                            if a[1] in ('<', '<='):
                                los.append(v if a[1] == '<' else v + 1)     # error when x < lo
                            else:
                                his.append(v if a[1] == '>' else v - 1)     # error when x > hi
                cands = [(lo, hi) for lo in los for hi in his if lo < 0 <= hi]
                if not cands:
                    continue
                n += 1
                ok = any(c15.pow2(-lo) and hi == -lo - 1 for lo, hi in cands) or \
                    any((hi + 1) % 2 == 0 and -lo == hi + 1 for lo, hi in cands) or \
                    any(-lo == hi + 2 and c15.pow2((hi + 2) // 2 * 2) for lo, hi in cands) or \
                    any(c15.pow2(-lo) and c15.pow2(hi + 2) and -lo == hi + 2 for lo, hi in cands)
                chk.ob('C14-R4', '%s:%s:distance-window' % (fn, f.name), ok, f.loc(ln),
                       'window %s' % sorted(set(cands))[:2] if ok else
                       'the distance error is raised outside %s, which is not a two\'s-complement window: a displacement at '
                       'the limit is rejected or emitted truncated' % sorted(set(cands))[:3])
    if n < 5:
        raise AnalysisBroken('only %d distance windows found' % n)


def page_reference_rule(chk, facts, rule):
    """4004/4040: JCN and ISZ replace the low 8 bits of the program counter
    *after* it has been advanced past the two-word instruction.  Assembler and
    disassembler must both take the page from address + instruction length."""
    n = 0
    f_asm = facts.unit('code4004.c')
    for f in f_asm.funcs.values():
        if f.file != 'code4004.c':
            continue
        lens = {const_val(m[3]) for b, i, ln, m in f.nodes()
                if is_assign(m) and m[1] == '=' and strip(m[2]) == ('g', 'CodeLen') and const_val(m[3])}
        for b, i, ln, m in f.nodes():
            if m[0] == 'b' and m[1] == '+' and const_val(m[3]) is not None and nocast(m[2])[0] == 'call' and \
                    callee_name(nocast(m[2])) == 'EProgCounter':
                k = const_val(m[3])
                n += 1
                ok = len(lens) == 1 and k in lens
                chk.ob(rule, 'code4004.c:%s:page-of-PC+%d' % (f.name, k), ok, f.loc(ln),
                       'page taken from the address behind the %d-word instruction' % k if ok else
                       'the same-page test uses the page of PC+%d, the instruction is %s words long: at the last words of a '
                       'ROM page a reachable target is rejected and an unreachable one is encoded truncated' %
                       (k, '/'.join(str(x) for x in sorted(lens)) or '?'))
        # the bare counter as page reference (no "+ length" at all)
        for b, i, ln, c in f.calls('ChkSamePage'):
            a0 = nocast(c[2][0]) if c[2] else None
            if a0 is not None and a0[0] == 'call' and callee_name(a0) == 'EProgCounter':
                n += 1
                chk.ob(rule, 'code4004.c:%s:page-of-PC+0' % f.name, not lens, f.loc(ln),
                       'no instruction length to add' if not lens else
                       'the same-page test uses the page of the instruction\'s own address, the instruction is %s words long: at '
                       'the last words of a ROM page a reachable target is rejected and an unreachable one is encoded truncated' %
                       '/'.join(str(x) for x in sorted(lens)))
    d = facts.func('deco4004.c', 'Disassemble_4004') if 'Disassemble_4004' in facts.unit('deco4004.c').funcs else None
    if d is None:
        for f in facts.unit('deco4004.c').funcs.values():
            if f.file == 'deco4004.c' and any(m[0] == 'b' and m[1] == '&' and const_val(m[3]) == 0x0f00 for b, i, ln, m in f.nodes()):
                d = f
    if d is None:
        raise AnalysisBroken('deco4004.c: page computation not found')
    for b, i, ln, m in d.nodes():
        if m[0] == 'b' and m[1] == '&' and const_val(m[3]) == 0x0f00:
            inner = nocast(m[2])
            if inner[0] == 'b' and inner[1] == '+':
                k = const_val(inner[3])
                if k is None:
                    # Address + pInfo->CodeLen: the value is whatever was stored into .CodeLen before, in this block
                    x = nocast(inner[3])
                    if x[0] == 'm' and x[2].endswith('.CodeLen'):
                        k = 0
                        for ln2, ex in d.blocks[b]['elems'][:i]:
                            for y in walk_own(ex):
                                if is_assign(y) and y[1] == '=' and strip(y[2])[0] == 'm' and strip(y[2])[2].endswith('.CodeLen') and \
                                        const_val(y[3]) is not None:
                                    k = const_val(y[3])
                    else:
                        continue
                # instruction length stored in the same block
                ls = {const_val(x[3]) for ln2, ex in d.blocks[b]['elems'] for x in walk_own(ex)
                      if is_assign(x) and x[1] == '=' and strip(x[2])[0] == 'm' and strip(x[2])[2].endswith('.CodeLen') and const_val(x[3])}
                n += 1
                ok = ls == {k}
                chk.ob(rule, 'deco4004.c:%s:page-of-Address+%d@%d' % (d.name, k, n), ok, d.loc(ln),
                       'page taken from the address behind the instruction' if ok else
                       'the target page is taken from Address+%d, the instruction length is %s' % (k, sorted(ls)))
    # the same through a helper: page = (param [+ k]) & 0x0f00 in another function of the module, called from the decoder
    ud = facts.unit('deco4004.c')
    for h in ud.funcs.values():
        if h.file != 'deco4004.c' or h is d:
            continue
        for b, i, ln, m in h.nodes():
            if not (m[0] == 'b' and m[1] == '&' and const_val(m[3]) == 0x0f00):
                continue
            inner = nocast(m[2])
            k0, par = 0, None
            if inner[0] == 'p':
                par = inner[1]
            elif inner[0] == 'b' and inner[1] == '+' and nocast(inner[2])[0] == 'p' and const_val(inner[3]) is not None:
                par, k0 = nocast(inner[2])[1], const_val(inner[3])
            if par is None:
                continue
            pidx = [q['name'] for q in h.params].index(par)
            for b2, i2, l2, c in d.calls(h.name):
                a = nocast(c[2][pidx])
                k = k0 + (const_val(a[3]) if a[0] == 'b' and a[1] == '+' and const_val(a[3]) is not None else 0)
                ls = {const_val(x[3]) for ln2, ex in d.blocks[b2]['elems'] for x in walk_own(ex)
                      if is_assign(x) and x[1] == '=' and strip(x[2])[0] == 'm' and strip(x[2])[2].endswith('.CodeLen') and const_val(x[3])}
                n += 1
                ok = ls == {k}
                chk.ob(rule, 'deco4004.c:%s:page-of-Address+%d@%d' % (d.name, k, n), ok, d.loc(l2),
                       'page taken from the address behind the instruction' if ok else
                       'through %s() the target page is taken from Address+%d, the instruction length is %s' % (h.name, k, sorted(ls)))
    if n < 4:
        raise AnalysisBroken('only %d page references found for the 4004' % n)
    return n


def rule_r10(chk, facts):
    chk.rule('C14-R10', 'code65.c: an operand is shortened to its zero-page form (ChkZeroMode) only on paths on which the '
             'size prefix was found absent ("ZeroMode == 0"): after ">" the absolute form is what the programmer asked '
             'for, and zp,X wraps inside page 0 where abs,X does not', min_instances=3)
    f = facts.func('code65.c', 'DecodeAdr')
    # the prefix variable: the local filled by ChkZero(&arg, &var)
    zvars = set()
    for b, i, ln, c in f.calls('ChkZero'):
        if len(c[2]) > 1:
            a = nocast(c[2][1])
            if a[0] == 'u' and a[1] == '&':
                zvars.add(nocast(a[2]))
    if not zvars:
        raise AnalysisBroken('code65.c: size prefix variable not found')
    n = 0
    for b, i, ln, c in f.calls('ChkZeroMode'):
        n += 1

        def absent(l):
            return edge_has_atom(l, lambda a: (a[0] == 'z' and a[1] in zvars) or
                                 (a[0] == 'cmp' and a[1] == '==' and a[2] in zvars and const_val(a[3]) == 0))
        ok, w = f.guarded(b, i, absent)
        chk.ob('C14-R10', 'code65.c:DecodeAdr:ChkZeroMode@%d' % n, ok, f.loc(ln),
               'only without a size prefix' if ok else
               'the zero-page form is chosen on a path (%s) that does not exclude the ">" prefix: "lda >$12,x" is encoded '
               'B5 12 instead of BD 12 00' % ' '.join(w[-4:]))
    if n < 3:
        raise AnalysisBroken('code65.c: only %d zero-page shortenings found' % n)


def run(chk, facts, info):
    rule_r10(chk, facts)
    from . import c14_insert
    c14_insert.run(chk, facts)
    rule_r1(chk, facts)
    c15.rule_fold(chk, facts, rule='C14-R2', units=None)
    rule_r3(chk, facts)
    rule_r4(chk, facts)
    chk.rule('C14-R5', 'each of the seven code generators reads a core scratch variable that code generators write '
             '(AdrCnt, CodeLen, BAsmCode, ...) only if the module itself or a core module assigns it: an encoding must '
             'not be built from what another target\'s generator left behind', min_instances=40)
    foreign_scratch_rule(chk, facts.program('asl'), 'C14-R5', only=set(FILES), min_instances=900)
    chk.rule('C14-R9', 'codeavr.c: jump distances are word counts; the wrap masks CutAdr() applies to them (SignMask, ORMask) '
             'are computed from a limit that is converted with CodeSegSize (the code segment limit is a byte limit when '
             'the segment is addressed in bytes), and CutAdr() itself does not mask with SegLimits[] directly',
             min_instances=3)
    ua = facts.unit('codeavr.c')
    n9 = 0
    for f in ua.funcs.values():
        if f.file != 'codeavr.c':
            continue
        for b, i, ln, m in f.nodes():
            if is_assign(m) and m[1] == '=' and strip(m[2])[0] in ('gs', 'g') and strip(m[2])[1] in ('SignMask', 'ORMask'):
                n9 += 1
                exprs = [m[3]]
                for x in walk(m[3]):
                    if isinstance(x, (list, tuple)) and x and x[0] == 'l':
                        for b2, i2, l2, d in f.nodes():
                            if d[0] == 'decl' and d[1] == x[1] and d[2] is not None:
                                exprs.append(d[2])
                            elif is_assign(d) and strip(d[2]) == ('l', x[1]):
                                exprs.append(d[3])
                dep = any(mentions(e, lambda y: var_is(y, {'CodeSegSize'})) for e in exprs)
                raw = mentions(m[3], lambda y: isinstance(y, (list, tuple)) and y and y[0] == 'i' and strip(y[1]) == ('g', 'SegLimits'))
                ok = dep and not raw
                chk.ob('C14-R9', 'codeavr.c:%s:%s' % (f.name, strip(m[2])[1]), ok, f.loc(ln),
                       'derived from the word limit' if ok else
                       '%s is computed from SegLimits[SegCode] without regard to CodeSegSize: with byte addressing the mask is one '
                       'bit too wide and WRAPMODE no longer wraps ("rjmp 0" in the last word is rejected)' % strip(m[2])[1])
    cf = facts.func('codeavr.c', 'CutAdr')
    n9 += 1
    rawc = any(m[0] == 'i' and strip(m[1]) == ('g', 'SegLimits') for b, i, ln, m in cf.nodes())
    chk.ob('C14-R9', 'codeavr.c:CutAdr:mask', not rawc, cf.loc(), 'masks with the word masks' if not rawc else
           'CutAdr() masks a word distance with the segment limit, which is a byte limit when CODESEGSIZE=0')
    if n9 < 3:
        raise AnalysisBroken('AVR wrap masks not found')
    chk.rule('C14-R8', 'in the seven code generators a displacement-overflow test does not compare just the sign bits of x and '
             'x +/- k ("(x & S) != (y & S)" with y = x - k): that also fires when x only changes sign through zero, i.e. for '
             'the legal displacements 0..k-1 (today no such test exists; the reversed repair of MSP430 RLA/RLC is the positive '
             'example in the seeded-break corpus)', min_instances=0)
    for fn in FILES:
        u = facts.unit(fn)
        for f in u.funcs.values():
            if f.file != fn:
                continue
            for b, i, ln, m in f.nodes():
                if not (m[0] == 'b' and m[1] in ('!=', '==')):
                    continue
                l_, r_ = nocast(m[2]), nocast(m[3])
                if not (l_[0] == 'b' and l_[1] == '&' and r_[0] == 'b' and r_[1] == '&'):
                    continue
                ml, mr = const_val(l_[3]), const_val(r_[3])
                if ml is None or ml != mr or ml <= 0 or (ml & (ml - 1)) != 0:
                    continue
                a, c = strip(l_[2]), strip(r_[2])
                # is one of them defined as the other +/- a constant?
                derived = False
                for x, y in ((a, c), (c, a)):
                    if x[0] != 'l':
                        continue
                    for b2, i2, l2, d in f.nodes():
                        rhs = None
                        if d[0] == 'decl' and d[1] == x[1] and d[2] is not None:
                            rhs = nocast(d[2])
                        elif is_assign(d) and d[1] == '=' and strip(d[2]) == x:
                            rhs = nocast(d[3])
                        if rhs is not None and rhs[0] == 'b' and rhs[1] in ('+', '-') and strip(rhs[2]) == y and const_val(rhs[3]) is not None:
                            derived = True
                if derived:
                    chk.ob('C14-R8', '%s:%s:sign-compare@%d' % (fn, f.name, ln), False, f.loc(ln),
                           'the overflow test %s compares only sign bits of a value and the same value shifted by a constant: it '
                           'rejects the legal displacements next to zero ("rla $+2")' % show(m)[:80])
    chk.rule('C14-R7', 'code65.c: every variable that receives "target - (EProgCounter() + k)" is 16 bits wide, so that the '
             'distance of a relative branch is taken modulo the 64K address space like the processor does (a branch from '
             '$FFF0 to $0005 is +$13, not -$FFED)', min_instances=3)
    n7 = 0
    f65 = facts.unit('code65.c')
    for f in f65.funcs.values():
        if f.file != 'code65.c':
            continue

        def pcdiff(e):
            x = nocast(e)        # the value itself is the difference, not something computed from it
            return isinstance(x, tuple) and len(x) > 3 and x[0] == 'b' and x[1] == '-' and \
                mentions(x[3], lambda y: isinstance(y, (list, tuple)) and len(y) > 1 and y[0] == 'call' and callee_name(y) == 'EProgCounter')
        for b, i, ln, m in f.nodes():
            tgt = None
            if m[0] == 'decl' and m[2] is not None and pcdiff(m[2]):
                tgt = m[1]
            elif is_assign(m) and strip(m[2])[0] == 'l' and (
                    (m[1] == '=' and pcdiff(m[3])) or
                    (m[1] == '-=' and mentions(m[3], lambda y: isinstance(y, (list, tuple)) and len(y) > 1 and y[0] == 'call' and callee_name(y) == 'EProgCounter'))):
                tgt = strip(m[2])[1]
            if tgt is None:
                continue
            ty = f.locals.get(tgt, {})
            n7 += 1
            ok = abs(ty.get('bits', 0)) == 16
            chk.ob('C14-R7', 'code65.c:%s:%s' % (f.name, tgt), ok, f.loc(ln), '16-bit distance' if ok else
                   'the branch distance is held in %s (%d bits): a branch across the $FFFF/$0000 wrap keeps its raw '
                   'difference and is rejected as too far although the processor reaches the target' % (ty.get('t'), abs(ty.get('bits', 0))))
    if n7 < 3:
        raise AnalysisBroken('only %d branch distance computations found in code65.c' % n7)
    chk.rule('C14-R6', '4004/4040 JCN and ISZ: the page against which the target is checked (assembler) and from which '
             'the target is rebuilt (disassembler) is the page of the address behind the two-word instruction', min_instances=4)
    page_reference_rule(chk, facts, 'C14-R6')
    chk.note('Decided: table-driven opcode constants against the ISA references, sign-extension thresholds, mask vs '
             'range-check agreement, distance windows. Not decided: fields composed in handler code, operand encodings '
             'per addressing mode.')
