"""C04 — the code file contains exactly the program's bytes (structural clauses).

R1 record-header writer and readers agree with the manual's record schema
   (field order and widths); segment numbers equal the manual's table
R2 WriteBytes(): the record-limit test precedes the copy, every path that
   stores line bytes accounts for them in the record length
R3 every seek/tell/close on the code file is preceded by a buffer flush with
   no buffer fill in between
R4 widths the back-patching relies on
R5 only asmcode.c writes the code file
R6 the buffer copy is bounded by the buffer size
"""
import os, re
from core import *
from .common import *
import docparse

WIDTH = {'Byte': 1, 'Word': 2, 'LongInt': 4}


def doc_schema():
    p = os.path.join(REPO, 'doc', 'file-formats.md')
    txt = open(p, encoding='utf-8', errors='replace').read()
    m = re.search(r'FileRecord = RECORD.*?END', txt, re.S)
    if not m:
        raise AnalysisBroken('record schema not found in doc/file-formats.md')
    body = m.group(0)
    schema = {}
    for mm in re.finditer(r'\$([0-9a-fA-F]{2}):\((.*?)\);\s*$', body, re.S | re.M):
        tag = int(mm.group(1), 16)
        fields = []
        for fm in re.finditer(r'(\w+)\s*:\s*(\w+)', mm.group(2)):
            if fm.group(2) in WIDTH:
                fields.append((fm.group(1), WIDTH[fm.group(2)]))
        schema[tag] = fields
    if 0x81 not in schema or 0x80 not in schema:
        raise AnalysisBroken('record schema incomplete: %s' % sorted(schema))
    return schema


def io_seq(f, start=None):
    """Ordered primitive writes/reads along the (single) path of a function:
    list of (kind, width, source expr, line)."""
    out = []
    order = sorted(f.blocks, reverse=True)
    for b in order:
        for ln, ex in f.blocks[b]['elems']:
            for n in walk_own(ex):
                if n[0] != 'call':
                    continue
                cn = callee_name(n)
                if cn in ('fwrite', 'fread') and len(n[2]) >= 4:
                    sz, cnt = const_val(n[2][1]), const_val(n[2][2])
                    out.append((cn, (sz or 0) * (cnt or 0), nocast(n[2][0]), ln, b))
                elif cn in ('Write2', 'Write4', 'Write8', 'Read2', 'Read4', 'Read8'):
                    out.append((cn[:-1].lower() if False else cn, int(cn[-1]), nocast(n[2][1]), ln, b))
                else:
                    # a helper of the unit that reads/writes through one of its pointer parameters
                    g = f.unit.funcs.get(cn or '')
                    if g is not None and g is not f and g.entry is not None and len(g.blocks) <= 12:
                        for b2, i2, l2, c2 in g.calls(('fread', 'fwrite')):
                            if len(c2[2]) < 4:
                                continue
                            a0 = nocast(c2[2][0])
                            if a0[0] == 'u' and a0[1] == '&' and nocast(a0[2])[0] == 'p':
                                a0 = nocast(a0[2])       # the address of a by-value parameter: the argument is the datum
                            if a0[0] == 'p':
                                for k, prm in enumerate(g.params):
                                    if prm['name'] == a0[1] and k < len(n[2]):
                                        sz, cnt = const_val(c2[2][1]), const_val(c2[2][2])
                                        out.append((callee_name(c2), (sz or 0) * (cnt or 0), nocast(n[2][k]), ln, b))
    return out


def rule_r1(chk, facts):
    chk.rule('C04-R1', 'the assembler writes a data record as type byte, CPU family byte, segment byte, granularity '
             'byte, 4-byte start address, 2-byte length -- the order and widths of the manual\'s record schema -- and '
             'ReadRecordHeader()/the tools read the same fields in the same order; the segment numbers of the '
             'manual\'s table equal the enumerators', min_instances=10)
    schema = doc_schema()
    want81 = schema[0x81]          # Header(family) Segment Gran StartAdr Length
    wr = facts.func('asmcode.c', 'WrRecHeader')
    seq = [s for s in io_seq(wr) if s[0] == 'fwrite']
    widths = [s[1] for s in seq]
    ok = widths == [1, 1, 1, 1]
    chk.ob('C04-R1', 'asmcode.c:WrRecHeader:widths', ok, wr.loc(), 'four single bytes' if ok else
           'record header is written as %s bytes, the schema says type,1,1,1' % widths)
    # sources of the four bytes, resolving the temporary through its reaching definition
    srcs = []
    for (k, w, src, ln, b) in seq:
        s0 = src
        if s0[0] == 'u' and s0[1] == '&':
            s0 = s0[2]
        if s0[0] == 'l':
            # last assignment to the local before this write (straight-line function)
            best = None
            for b2, i2, l2, m in wr.nodes():
                if is_assign(m) and m[1] == '=' and strip(m[2]) == s0 and l2 <= ln:
                    if best is None or l2 >= best[0]:
                        best = (l2, nocast(m[3]))
            s0 = best[1] if best else s0
        srcs.append(s0)
    exp = [None, ('g', 'HeaderID'), ('g', 'ActPC'), ('i', ('g', 'Grans'), ('g', 'ActPC'))]
    names = ['record type', 'CPU family (HeaderID)', 'segment (ActPC)', 'granularity (Grans[ActPC])']
    for k in range(1, 4):
        got = srcs[k] if k < len(srcs) else None
        ok = got == exp[k]
        chk.ob('C04-R1', 'asmcode.c:WrRecHeader:byte%d' % (k + 1), ok, wr.loc(), names[k] if ok else
               'byte %d of the record header is %s, the schema says %s (%s)' % (
                   k + 1, show(got) if got else '?', want81[k - 1][0], names[k]))
    # after each WrRecHeader(): Write4(start) then Write2(length)
    nr = facts.func('asmcode.c', 'NewRecord')
    for b, i, ln, n in nr.calls('WrRecHeader'):
        nxt = []
        blk = nr.blocks[b]['elems']
        # follow the unique non-error path: collect the next two Write calls by line order
        for b2, i2, l2, m in sorted(((bb, ii, ll, mm) for bb, ii, ll, mm in nr.calls({'Write2', 'Write4', 'Write8', 'fwrite'}) if ll > ln), key=lambda x: x[2]):
            ok_reach = True
            nxt.append((callee_name(m), nocast(m[2][1]) if callee_name(m) != 'fwrite' else nocast(m[2][0]), l2))
            if len(nxt) == 2:
                break
        ok = len(nxt) == 2 and nxt[0][0] == 'Write4' and nxt[1][0] == 'Write2' and \
            nxt[1][1] == ('u', '&', ('gs', 'LenSoFar'))
        if ok:
            v = nxt[0][1][2] if nxt[0][1][0] == 'u' else nxt[0][1]
            ds = [nocast(m[3]) for b3, i3, l3, m in nr.nodes() if is_assign(m) and strip(m[2]) == v and l3 < nxt[0][2] and l3 > ln - 40]
            ok = any(d == ('p', 'NStart') or (d[0] == 'cast' and False) for d in ds) or any(mentions(d, lambda x: x == ('p', 'NStart') or x == ['p', 'NStart']) for d in ds)
        chk.ob('C04-R1', 'asmcode.c:NewRecord:start+length@%d' % ln, ok, nr.loc(ln),
               'header is followed by the 4-byte start address and the 2-byte length' if ok else
               'after the record header the writer emits %s instead of Write4(start), Write2(LenSoFar)' % [(x[0], show(x[1])) for x in nxt])
    # reader
    rr = facts.func('toolutils.c', 'ReadRecordHeader')
    pn = [p['name'] for p in rr.params]
    rseq = [s for s in io_seq(rr) if s[0] == 'fread']
    got = [s[2][1] if s[2][0] == 'p' else show(s[2]) for s in rseq]
    ok = got[:4] == pn[:4] and [s[1] for s in rseq[:4]] == [1, 1, 1, 1]
    chk.ob('C04-R1', 'toolutils.c:ReadRecordHeader:order', ok, rr.loc(),
           'reads type, CPU, segment, granularity' if ok else 'reader takes the bytes in the order %s' % got)
    # consumers: Read4 then Read2 after a data record header
    for unit, fn in (('plist.c', 'ProcessSingle'), ('pbind.c', 'ProcessFile'), ('p2bin.c', 'ProcessFile'),
                     ('p2bin.c', 'MeasureFile'), ('p2hex.c', 'ProcessFile'), ('p2hex.c', 'MeasureFile')):
        f = facts.func(unit, fn)
        r4 = [(b, i, ln) for b, i, ln, n in f.calls('Read4')]
        r2 = [(b, i, ln) for b, i, ln, n in f.calls('Read2')]
        okc = False
        for (b, i, ln) in r2:
            # some Read4 dominates this Read2 (start before length) -- skip the magic-word Read2 at the top
            for (b4, i4, l4) in r4:
                if l4 < ln:
                    d, _ = f.guarded(b, i, lambda l: False, lambda ex: any(m[0] == 'call' and callee_name(m) == 'Read4' for m in walk_own(ex)))
                    if d:
                        okc = True
        chk.ob('C04-R1', '%s:%s:start-then-length' % (unit, fn), okc, f.loc(),
               '4-byte start address read before the 2-byte length' if okc else 'record fields are read in another order')
    # segment table
    hdr, rows = docparse.table('file-formats.md', 'Codings of the')
    u = facts.unit('asmcode.c')
    NAME2ENUM = {'CODE': 'SegCode', 'DATA': 'SegData', 'IDATA': 'SegIData', 'XDATA': 'SegXData', 'YDATA': 'SegYData',
                 'BDATA': 'SegBData', 'IO': 'SegIO', 'REG': 'SegReg', 'ROMDATA': 'SegRData', 'EEDATA': 'SegEEData'}
    for r in rows:
        for k in range(0, len(r) - 1, 2):
            num, nm = r[k].strip('`$ '), r[k + 1].strip('` ')
            if nm in NAME2ENUM and NAME2ENUM[nm] in u.enums:
                ok = int(num, 16) == int(u.enums[NAME2ENUM[nm]])
                chk.ob('C04-R1', 'segment-number:%s' % nm, ok, 'addrspace.h', 'manual and enumerator agree (%s)' % num if ok else
                       'manual says %s = $%s, enumerator %s = %s' % (nm, num, NAME2ENUM[nm], u.enums[NAME2ENUM[nm]]))


def rule_r2(chk, facts):
    chk.rule('C04-R2', 'WriteBytes(): the test against the 65535-byte record limit (opening a new record) precedes '
             'every store of line bytes, every path that stores line bytes adds their number to LenSoFar exactly '
             'once, and the byte-swap of the line buffer is undone on every path', min_instances=5)
    f = facts.func('asmcode.c', 'WriteBytes')

    def stores(ex):
        for m in walk_own(ex):
            if m[0] == 'call' and callee_name(m) == 'memcpy' and mentions(m[2][0], lambda x: var_is(x, {'CodeBuffer'})):
                return True
            if m[0] == 'call' and callee_name(m) == 'fwrite' and mentions(m[2][0], lambda x: var_is(x, {'BAsmCode'})):
                return True
        return False

    def accounts(ex):
        return any(is_assign(m) and m[1] == '+=' and strip(m[2]) == ('gs', 'LenSoFar') for m in walk_own(ex))

    def limit_test(l):
        return edge_has_atom(l, lambda a: a[0] == 'cmp' and mentions(a[2], lambda x: var_is(x, {'LenSoFar'})) and const_val(a[3]) == 0xffff)
    n = 0
    for b, i, ln, ex in f.elems():
        if stores(ex):
            n += 1
            # the limit test (either outcome) lies before: i.e. the test block dominates
            dom = False
            for s_, d_, l in f.edges():
                if l is not None and limit_test(l):
                    dom = True
            g, w = f.guarded(b, i, lambda l: False, lambda e2: False)
            # dominance of the test block
            tb = [s_ for s_, d_, l in f.edges() if l is not None and limit_test(l)]
            okd = bool(tb) and all(f.guarded(b, i, lambda l: False, None, edge_ok=lambda s2, d2, l2, tb=tb: s2 not in tb)[0] for _ in [0])
            chk.ob('C04-R2', 'asmcode.c:WriteBytes:limit-before-store@%d' % n, okd, f.loc(ln),
                   'record limit tested first' if okd else 'line bytes are stored on a path that skipped the 65535-byte record test')
            ok, w = f.must_pass(b, i, accounts)
            if not ok:
                # accounted before the store on every path is just as good
                ok2, w2 = f.guarded(b, i, lambda l: False, accounts)
                ok = ok2
            chk.ob('C04-R2', 'asmcode.c:WriteBytes:store=>length@%d' % n, ok, f.loc(ln),
                   'LenSoFar += ErgLen on every path through the store' if ok else 'bytes are stored without being added to the record length: ' + ' '.join(w[-5:]))
            if any(m[0] == 'call' and callee_name(m) == 'fwrite' for m in walk_own(ex)):
                # a path on which fill + len < C was established cannot reach a write that requires len >= C
                big = []

                def len_big(a):
                    if a[0] == 'cmp' and a[1] in ('>=', '>') and a[2][0] in ('l', 'p') and const_val(a[3]) is not None:
                        big.append((a[2], const_val(a[3]) + (1 if a[1] == '>' else 0)))
                        return True
                    return False
                isbig = f.guarded(b, i, lambda l: edge_has_atom(l, len_big))[0]

                def small_sum(l):
                    return isbig and edge_has_atom(l, lambda a: a[0] == 'cmp' and a[1] in ('<', '<=') and const_val(a[3]) is not None and
                                                   any(mentions(a[2], lambda x, v=v: strip(x) == v) and const_val(a[3]) <= c for v, c in big) and
                                                   mentions(a[2], lambda x: var_is(x, {'CodeBufferFill'})))
                okf, wf = f.guarded(b, i, small_sum, lambda e2: any(m[0] == 'call' and callee_name(m) == 'FlushBuffer' for m in walk_own(e2)))
                chk.ob('C04-R2', 'asmcode.c:WriteBytes:flush-before-direct-write', okf, f.loc(ln),
                       'buffered bytes of earlier lines are written first' if okf else
                       'line bytes are written straight to the file on a path on which the write-behind buffer was not '
                       'flushed: bytes of earlier lines land behind them in the record; path ' + ' '.join(wf[-5:]))
    if n < 2:
        raise AnalysisBroken('WriteBytes: stores not found')
    acc = [(b, i, ln) for b, i, ln, ex in f.elems() if accounts(ex)]
    twice = False
    for (b, i, ln) in acc:
        for (b2, i2, ln2) in acc:
            if (b2, i2) != (b, i) and (b2 in f.reach_forward([t for t, l in f.succs().get(b, ())]) or (b2 == b and i2 > i)):
                twice = True
    okl = bool(acc) and not twice
    chk.ob('C04-R2', 'asmcode.c:WriteBytes:length-once', okl, f.loc(), 'no path accounts a line twice' if okl else
           'a path adds the line length to LenSoFar %s' % ('twice' if acc else 'never'))
    # the new record opened at the limit starts at the current counter
    for b, i, ln, n_ in f.calls('NewRecord'):
        a = nocast(n_[2][0])
        ok = a[0] == 'call' and callee_name(a) == 'ProgCounter'
        chk.ob('C04-R2', 'asmcode.c:WriteBytes:split-start', ok, f.loc(ln), 'continues at ProgCounter()' if ok else
               'the continuation record starts at %s' % show(a))
    # DreheCodes parity
    dre = [(b, i, ln) for b, i, ln, n_ in f.calls('DreheCodes')]
    ok = len(dre) == 2
    if ok:
        def is_dr(ex):
            return any(m[0] == 'call' and callee_name(m) == 'DreheCodes' for m in walk_own(ex))
        first = min(dre, key=lambda x: x[2])
        # both calls sit under the same condition on unmodified operands: the
        # complementary edge of that condition is infeasible after the first call
        conds = [nocast(l[1]) for s_, d_, l in f.edges() if l is not None and l[0] == 'T' and d_ == first[0]]
        written = written_after(f, first[0], first[1])

        def eok(s_, d_, l):
            if l is not None and l[0] == 'F' and nocast(l[1]) in conds and \
                    not any(mentions(l[1], lambda x, wv=wv: strip(x) == wv) for wv in written):
                return False
            return True
        ok, w = f.must_pass(first[0], first[1], is_dr, edge_ok=eok)
    chk.ob('C04-R2', 'asmcode.c:WriteBytes:swap-parity', ok, f.loc(), 'swap undone on every path' if ok else
           'the line buffer stays byte-swapped on some path (listing and later passes see swapped code)')


def rule_r3(chk, facts):
    chk.rule('C04-R3', 'in asmcode.c every fseek/ftell/fclose on the code file is preceded on all paths by '
             'FlushBuffer() (directly or through NewRecord()) or by CodeBufferFill = 0, with no buffer fill in '
             'between; RetractWords(), which adjusts the buffer itself, is listed', min_instances=8)
    u = facts.unit('asmcode.c')
    P = facts.program('asl')

    def flushes(ex):
        for m in walk_own(ex):
            if m[0] == 'call' and callee_name(m) in ('FlushBuffer', 'NewRecord', 'WrPatches', 'WrRecHeader'):
                return True
            if is_assign(m) and m[1] == '=' and strip(m[2]) == ('gs', 'CodeBufferFill') and const_val(m[3]) == 0:
                return True
        return False
    for f in u.funcs.values():
        if f.file != 'asmcode.c':
            continue
        for b, i, ln, n in f.calls({'fseek', 'ftell', 'fclose'}):
            if not any(nocast(a) in (('g', 'PrgFile'), ('gs', 'PrgFile')) for a in n[2]):
                continue
            key = 'asmcode.c:%s:%s@%d' % (f.name, callee_name(n), len([1 for b2, i2, l2, m in f.calls(callee_name(n)) if l2 <= ln]))
            if f.name == 'RetractWords':
                chk.exception('C04-R3', key, 'RetractWords() accounts for the unflushed bytes itself (seeks back by ErgLen - CodeBufferFill)')
                chk.ob('C04-R3', key, True, f.loc(ln), 'listed')
                continue
            ok, w = f.guarded(b, i, lambda l: False, flushes)
            if not ok and f.static:
                # a static helper of the module: every call site is preceded by the flush (RetractWords, listed above,
                # accounts for the buffer itself)
                cs = list(call_sites(P, f))
                ok = bool(cs) and all(g.name == 'RetractWords' or g.guarded(b2, i2, lambda l: False, flushes)[0] for (g, b2, i2, l2, n2, d2) in cs)
            chk.ob('C04-R3', key, ok, f.loc(ln), 'buffer flushed first' if ok else
                   '%s on the code file with unflushed bytes possibly in the write buffer: the record length is patched '
                   'at the wrong offset; path %s' % (callee_name(n), ' '.join(w[-5:])))


def rule_r456(chk, facts):
    chk.rule('C04-R4', 'LenSoFar is a 16-bit unsigned counter like the record\'s Length field, the record limit '
             'constant is its maximum, and a line can never exceed one record (MaxCodeLen_Max <= 65535)', min_instances=3)
    u = facts.unit('asmcode.c')
    g = u.globals.get('LenSoFar')
    if g is None:
        raise AnalysisBroken('LenSoFar not found')
    ok = g['type'].get('bits') == 16
    chk.ob('C04-R4', 'asmcode.c:LenSoFar:width', ok, 'asmcode.c', '16-bit unsigned' if ok else 'LenSoFar has type %s' % g['type']['t'])
    f = facts.func('asmcode.c', 'WriteBytes')
    lim = [const_val(n[3]) for b, i, ln, n in f.nodes() if n[0] == 'b' and n[1] == '>' and mentions(n[2], lambda x: var_is(x, {'LenSoFar'}))]
    ok = lim == [0xffff]
    chk.ob('C04-R4', 'asmcode.c:WriteBytes:limit-constant', ok, f.loc(), 'limit 65535' if ok else 'record limit constants %s' % lim)
    sm = facts.func('asmdef.c', 'SetMaxCodeLen')
    mx = [const_val(n[3]) for b, i, ln, n in sm.nodes() if n[0] == 'b' and n[1] == '>' and nocast(n[2]) == ('p', 'NewMaxCodeLen') and const_val(n[3]) is not None]
    ok = bool(mx) and max(mx) <= 0xffff
    chk.ob('C04-R4', 'asmdef.c:SetMaxCodeLen:max', ok, sm.loc(), 'line buffer limited to %s bytes' % mx if ok else
           'a single line may exceed one record (limit %s)' % mx)

    chk.rule('C04-R5', 'the code file stream PrgFile is written, positioned and closed only in asmcode.c (and closed by '
             'the fatal-exit clean-up)', min_instances=10)
    P = facts.program('asl')
    n = 0
    for f in P.all_funcs():
        for b, i, ln, c in f.calls({'fwrite', 'fputc', 'fprintf', 'fseek', 'ftell', 'fclose', 'Write2', 'Write4', 'Write8', 'fflush', 'CloseIfOpen'}):
            if any(mentions(a, lambda x: var_is(x, {'PrgFile'})) for a in c[2]):
                n += 1
                ok = f.unit.name == 'asmcode.c' or (f.name == 'EmergencyStop' and callee_name(c) == 'CloseIfOpen') or \
                    (f.unit.name == 'as.c' and callee_name(c) == 'CloseIfOpen')
                chk.ob('C04-R5', '%s:%s:%s(PrgFile)' % (f.unit.name, f.name, callee_name(c)), ok, f.loc(ln),
                       'owner module' if ok else 'the code file is written outside asmcode.c: bytes bypass the record accounting')
    chk.rule('C04-R6', 'WriteBytes(): a copy into the write-behind buffer is made only when fill + length is below the '
             'buffer size (or, after FlushBuffer(), when the length alone is)', min_instances=1)
    f = facts.func('asmcode.c', 'WriteBytes')
    for b, i, ln, c in f.calls('memcpy'):
        if not mentions(c[2][0], lambda x: var_is(x, {'CodeBuffer'})):
            continue
        L = nocast(c[2][2])
        into_fill = mentions(c[2][0], lambda x: var_is(x, {'CodeBufferFill'}))

        def bound(a):
            if a[0] != 'cmp' or a[1] not in ('<', '<='):
                return False
            lhs_ok = mentions(a[2], lambda x: strip(x) == L) and (not into_fill or mentions(a[2], lambda x: var_is(x, {'CodeBufferFill'})))
            return lhs_ok and const_val(a[3]) is not None
        ok, w = f.guarded(b, i, lambda l: edge_has_atom(l, bound))
        if not ok and into_fill:
            # fill + len < size, or (buffer flushed: fill == 0, and len < size)
            def bound_len(a):
                return a[0] == 'cmp' and a[1] in ('<', '<=') and strip(a[2]) == L and const_val(a[3]) is not None

            def flushed(e2):
                return any(m[0] == 'call' and callee_name(m) == 'FlushBuffer' for m in walk_own(e2))
            ok = f.guarded(b, i, lambda l: edge_has_atom(l, bound), flushed)[0] and \
                f.guarded(b, i, lambda l: edge_has_atom(l, bound) or edge_has_atom(l, bound_len))[0]
        chk.ob('C04-R6', 'asmcode.c:WriteBytes:memcpy:%s' % ('append' if into_fill else 'restart'),
               ok, f.loc(ln), 'bounded by the buffer size' if ok else 'copy of %s bytes into the 512-byte buffer without a size test' % show(L))


def rule_r7(chk, facts):
    chk.rule('C04-R7', 'asmcode.c: byte counts (record length, buffer fill, ErgLen) and address-unit counts (CodeLen, '
             'program counter, retracted words) are only combined through Granularity()', min_instances=6)
    from . import units
    T = {'LenSoFar': 'B', 'ErgLen': 'B', 'CodeBufferFill': 'B', 'CodeLen': 'A', 'Cnt': 'A', 'PCs': 'A', 'NStart': 'A',
         'RecPos': 'B', 'LenPos': 'B', 'h': 'x', 'PC': 'A'}
    FN = {'Granularity': 'G', 'ProgCounter': 'A', 'EProgCounter': 'A', 'ftell': 'B'}
    for fn in ('WriteBytes', 'RetractWords', 'NewRecord'):
        units.check_function(chk, 'C04-R7', facts.func('asmcode.c', fn), T, None, FN)


def rule_r8(chk, facts):
    chk.rule('C04-R8', 'WriteCode(): whenever a line advances the program counter of a real segment while code is being '
             'output, the segment is marked used (PCsUsed[ActPC] = True) first - also for lines that only move the counter '
             '(ORG, reservations): SetNSeg() puts a segment that is not marked used back to its initial address at the next '
             'CPU or SEGMENT statement, and the following code would land there', min_instances=1)
    f = facts.func('as.c', 'WriteCode')
    IDX = ('i', ('g', 'PCs'), ('g', 'ActPC'))
    n = 0
    for b, i, ln, m in f.nodes():
        if not (is_assign(m) and strip(m[2]) == IDX):
            continue
        n += 1

        def marks(ex):
            return any(is_assign(x) and x[1] == '=' and nocast(x[2])[0] == 'i' and nocast(nocast(x[2])[1]) == ('g', 'PCsUsed') and
                       const_val(nocast(x[3])) not in (None, 0) for x in walk_own(ex))

        def no_output(l):
            return edge_has_atom(l, lambda a: (a[0] == 'z' and isinstance(a[1], tuple) and a[1][0] in GLOBKINDS and a[1][1] == 'CodeOutput') or
                                 (a[0] == 'cmp' and a[1] == '==' and a[2] == ('g', 'ActPC')))
        ok, w = f.guarded(b, i, no_output, marks)
        chk.ob('C04-R8', 'as.c:WriteCode:used-before-advance@%d' % n, ok, f.loc(ln),
               'marked used on every code-output path' if ok else
               'the counter is advanced on a path (%s) on which PCsUsed[ActPC] was not set: after "ORG $1000 / CPU 6502" the '
               'code is written from address 0' % ' '.join(w[-5:]))
    if not n:
        raise AnalysisBroken('WriteCode: advance of PCs[ActPC] not found')


def run(chk, facts, info):
    rule_r8(chk, facts)
    rule_r7(chk, facts)
    rule_r1(chk, facts)
    rule_r2(chk, facts)
    rule_r3(chk, facts)
    rule_r456(chk, facts)
    chk.note('Decided: writer/reader agreement with the manual\'s record schema, length accounting and limit test in '
             'WriteBytes, flush-before-seek, widths, single writer module, bounded buffer copy. Not decided: that the '
             'union of records equals the program\'s bytes for every length and interleaving.')
