"""Helpers shared by the rule modules."""
import collections
from core import *


def mentions(e, pred):
    for n in walk(e):
        if pred(n):
            return True
    return False


def var_is(n, names, kinds=GLOBKINDS):
    return isinstance(n, (list, tuple)) and n and n[0] in kinds and n[1] in names


def nz_guard(target, implied=()):
    """Edge predicate: the edge establishes that `target` (stripped expr) is
    non-zero.  implied: list of (atom_pred) that also imply the fact."""
    def want(a):
        if a[0] == 'nz' and a[1] == target:
            return True
        for p in implied:
            if p(a):
                return True
        return False
    return lambda l: edge_has_atom(l, want)


def assigns_nonnull(target):
    """Element predicate: `target = <local or param or call result>`"""
    def pred(ex):
        for n in walk_own(ex):
            if is_assign(n) and n[1] == '=' and strip(n[2]) == target:
                r = nocast(n[3])
                if isinstance(r, tuple) and r and r[0] in ('l', 'p'):
                    return True
                if isinstance(r, tuple) and r and r[0] == 'call':
                    return True
        return False
    return pred


_cs_cache = {}


def call_sites(P, f):
    """All (caller, bid, idx, line, node, direct) that may invoke f."""
    key = id(P)
    idx = _cs_cache.get(key)
    if idx is None:
        idx = collections.defaultdict(list)
        for g in P.all_funcs():
            for bid, i, ln, n in g.nodes():
                if n[0] != 'call':
                    continue
                cn = callee_name(n)
                if cn is not None:
                    t = P.resolve(g.unit, cn)
                    if t is not None:
                        idx[t].append((g, bid, i, ln, n, True))
                else:
                    ts, how = P.indirect_targets(g, n)
                    for t in ts:
                        idx[t].append((g, bid, i, ln, n, False))
        _cs_cache[key] = idx
    return idx.get(f, [])


def guarded_with_lift(P, f, bid, i, edge_pred, elem_pred=None, dispatch_ok=None, depth=2, _seen=None):
    """A3 guard query with lift (i)/(ii): if the site is not guarded inside f,
    it is still guarded when every call site of f is (recursively), where a
    call site for which dispatch_ok(call node) holds counts as guarded."""
    ok, w = f.guarded(bid, i, edge_pred, elem_pred)
    if ok:
        return True, [], 'local'
    if depth <= 0:
        return False, w, 'local'
    _seen = _seen or set()
    if f in _seen:
        return False, w, 'local'
    _seen = _seen | {f}
    sites = call_sites(P, f)
    if not sites:
        return False, w, 'local'
    for (g, b2, i2, ln, n, direct) in sites:
        if dispatch_ok is not None and dispatch_ok(n):
            continue
        ok2, w2, how = guarded_with_lift(P, g, b2, i2, edge_pred, elem_pred, dispatch_ok, depth - 1, _seen)
        if not ok2:
            return False, w + ['<-called from %s:%d' % (g.qname, ln)] + w2, 'lift'
    return True, [], 'lift'


def func_writes_var(f, P, gkeys):
    for k, how, ln, n, bid, i in P.writes(f):
        if k in gkeys:
            return True
    return False
