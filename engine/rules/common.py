"""Helpers shared by the rule modules."""
import collections, os, re
from core import *


def mentions(e, pred):
    for n in walk(e):
        if pred(n):
            return True
    return False


def var_is(n, names, kinds=GLOBKINDS):
    return isinstance(n, (list, tuple)) and n and n[0] in kinds and n[1] in names


def nz_guard(target, implied=()):
    """Edge predicate: the edge establishes that `target` (stripped expr) is
    non-zero.  implied: list of (atom_pred) that also imply the fact."""
    def want(a):
        if a[0] == 'nz' and a[1] == target:
            return True
        for p in implied:
            if p(a):
                return True
        return False
    return lambda l: edge_has_atom(l, want)


def assigns_nonnull(target):
    """Element predicate: `target = <local or param or call result>`"""
    def pred(ex):
        for n in walk_own(ex):
            if is_assign(n) and n[1] == '=' and strip(n[2]) == target:
                r = nocast(n[3])
                if isinstance(r, tuple) and r and r[0] in ('l', 'p'):
                    return True
                if isinstance(r, tuple) and r and r[0] == 'call':
                    return True
        return False
    return pred


_cs_cache = {}


def call_sites(P, f):
    """All (caller, bid, idx, line, node, direct) that may invoke f."""
    key = id(P)
    idx = _cs_cache.get(key)
    if idx is None:
        idx = collections.defaultdict(list)
        for g in P.all_funcs():
            for bid, i, ln, n in g.nodes():
                if n[0] != 'call':
                    continue
                cn = callee_name(n)
                if cn is not None:
                    t = P.resolve(g.unit, cn)
                    if t is not None:
                        idx[t].append((g, bid, i, ln, n, True))
                else:
                    ts, how = P.indirect_targets(g, n)
                    for t in ts:
                        idx[t].append((g, bid, i, ln, n, False))
        _cs_cache[key] = idx
    return idx.get(f, [])


def guarded_with_lift(P, f, bid, i, edge_pred, elem_pred=None, dispatch_ok=None, depth=2, _seen=None):
    """A3 guard query with lift (i)/(ii): if the site is not guarded inside f,
    it is still guarded when every call site of f is (recursively), where a
    call site for which dispatch_ok(call node) holds counts as guarded."""
    ok, w = f.guarded(bid, i, edge_pred, elem_pred)
    if ok:
        return True, [], 'local'
    if depth <= 0:
        return False, w, 'local'
    _seen = _seen or set()
    if f in _seen:
        return False, w, 'local'
    _seen = _seen | {f}
    sites = call_sites(P, f)
    if not sites:
        return False, w, 'local'
    for (g, b2, i2, ln, n, direct) in sites:
        if dispatch_ok is not None and dispatch_ok(n):
            continue
        ok2, w2, how = guarded_with_lift(P, g, b2, i2, edge_pred, elem_pred, dispatch_ok, depth - 1, _seen)
        if not ok2:
            return False, w + ['<-called from %s:%d' % (g.qname, ln)] + w2, 'lift'
    return True, [], 'lift'


def func_writes_var(f, P, gkeys):
    for k, how, ln, n, bid, i in P.writes(f):
        if k in gkeys:
            return True
    return False


PRINTF_FAMILY = {'printf': 0, 'fprintf': 1, 'sprintf': 1, 'snprintf': 2, 'as_snprintf': 2, 'as_sprcatf': 2,
                 'as_sdprintf': 1, 'as_sdprcatf': 1}


def format_lint(facts, unit_names):
    """A9: clang's printf-family format/argument checker on the given units
    (-fsyntax-only; nothing is executed).  Returns {unit: [(line, message)]}."""
    import subprocess
    from concurrent.futures import ThreadPoolExecutor
    inc = os.path.join(facts.dir, 'include')

    def one(un):
        cmd = ['clang', '-fsyntax-only', '-std=c11', '-I' + REPO, '-I' + inc, '-DLIBDIR="x"', '-Wno-everything',
               '-Wformat', '-Wformat-extra-args', '-Wformat-insufficient-args', '-Wformat-zero-length',
               '-Wformat-invalid-specifier', '-fno-color-diagnostics', '-fno-caret-diagnostics',
               os.path.join(REPO, un)]
        r = subprocess.run(cmd, stdout=subprocess.PIPE, stderr=subprocess.STDOUT, text=True)
        out = []
        for ln in r.stdout.splitlines():
            m = re.match(r'(.*?):(\d+):\d+: (warning|error): (.*)$', ln)
            if m:
                if m.group(3) == 'error':
                    raise AnalysisBroken('clang -fsyntax-only failed on %s: %s' % (un, ln))
                if os.path.basename(m.group(1)) == un and any(k in m.group(4) for k in (
                        'data argument not used', 'conversions than data arguments', 'invalid conversion specifier',
                        'incomplete format specifier', 'format string is empty', 'format string is not a string literal')):
                    out.append((int(m.group(2)), m.group(4)))
        return un, out
    res = {}
    with ThreadPoolExecutor(max_workers=8) as ex:
        for un, out in ex.map(one, unit_names):
            res[un] = out
    return res


def format_rule(chk, facts, rule, unit_names):
    """One obligation per printf-family call in the units; violated when
    clang reports a format/argument mismatch on the call's lines."""
    diags = format_lint(facts, unit_names)
    n = 0
    for un in unit_names:
        u = facts.unit(un)
        dl = diags.get(un, [])
        used = set()
        for f in u.funcs.values():
            if f.file != un:
                continue
            for b, i, ln, node in f.calls(set(PRINTF_FAMILY)):
                fi = PRINTF_FAMILY[callee_name(node)]
                fmt = nocast(node[2][fi]) if fi < len(node[2]) else None
                fs = fmt[1] if isinstance(fmt, tuple) and fmt and fmt[0] == 's' else show(fmt) if fmt else '?'
                hit = [(l, m) for (l, m) in dl if ln <= l <= ln + 6 and (l, m) not in used]
                # attribute a diagnostic to the nearest preceding call
                mine = []
                for (l, m) in hit:
                    later = [x for b2, i2, l2, x in f.calls(set(PRINTF_FAMILY)) if ln < l2 <= l]
                    if not later:
                        mine.append((l, m))
                        used.add((l, m))
                n += 1
                key = '%s:%s:%s(%s)' % (un, f.name, callee_name(node), fs[:40])
                chk.ob(rule, key, not mine, f.loc(ln),
                       'format and arguments agree' if not mine else
                       '; '.join('%s (line %d)' % (m, l) for l, m in mine))
        for (l, m) in dl:
            if (l, m) not in used:
                chk.ob(rule, '%s:line-diagnostic:%s' % (un, m[:40]), False, '%s:%d' % (un, l), m)
    return n


_phase_cache = {}


def asl_phases(facts, P):
    """Phases of one assembler run, from AssembleFile()'s CFG: FILE_INIT (calls
    before the pass loop), PASS_INIT (calls inside the loop that precede
    ProcessFile), BODY (closure of ProcessFile), PASS_EXIT (after ProcessFile,
    inside the loop), FILE_EXIT (after the loop).  Values are closures in the
    resolved call graph; *_roots are the directly called functions."""
    if id(P) in _phase_cache:
        return _phase_cache[id(P)]
    af = facts.func('as.c', 'AssembleFile')
    pf = None
    for b, i, ln, n in af.calls('ProcessFile'):
        pf = (b, i)
    if pf is None:
        raise AnalysisBroken('AssembleFile: call of ProcessFile not found')
    loop = None
    for (h, s0) in af.loops():
        body = af.loop_body(h, s0)
        if pf[0] in body and (loop is None or len(body) < len(loop[2])):
            # innermost loop that contains ProcessFile and is a do-loop over passes
            if af.blocks[h].get('term', [''])[0] == 'DoStmt':
                loop = (h, s0, body)
    if loop is None:
        raise AnalysisBroken('AssembleFile: pass loop not found')
    h, s0, body = loop
    reach_pf = set()    # blocks from which pf is reachable without passing the loop header again
    preds = af.preds()
    work = [pf[0]]
    while work:
        b = work.pop()
        if b in reach_pf:
            continue
        reach_pf.add(b)
        for p, l in preds.get(b, ()):
            if p != h:
                work.append(p)
    after_pf = af.reach_forward([pf[0]], block_stop=lambda b: b == h)
    roots = {'FILE_INIT': set(), 'PASS_INIT': set(), 'PASS_EXIT': set(), 'FILE_EXIT': set()}
    for b, i, ln, n in af.calls():
        cn = callee_name(n)
        t = P.resolve(af.unit, cn) if cn else None
        if t is None or cn == 'ProcessFile':
            continue
        inloop = b in body
        before = (b in reach_pf) and not (b == pf[0] and i > pf[1])
        if b == pf[0]:
            before = i < pf[1]
        if inloop and before:
            roots['PASS_INIT'].add(t)
        elif inloop:
            roots['PASS_EXIT'].add(t)
        elif before:
            roots['FILE_INIT'].add(t)
        else:
            roots['FILE_EXIT'].add(t)
    res = {k + '_roots': v for k, v in roots.items()}
    for k, v in roots.items():
        res[k] = P.closure(v)
    res['BODY'] = P.closure([facts.func('as.c', 'ProcessFile')])
    res['AssembleFile'] = af
    res['loop'] = loop
    res['pf'] = pf
    _phase_cache[id(P)] = res
    return res


def is_generator_unit(name):
    return name.startswith('code') and name not in ('codepseudo.c', 'codevars.c', 'codechunks.c')


def foreign_scratch_rule(chk, P, rule, only=None, min_instances=300):
    """Def-before-use at module granularity for the core's shared scratch
    variables: a code generator that reads (or read-modify-writes) a core
    global which other generators assign must get its value from itself or
    from the core.  If neither this module nor any core module ever assigns the
    variable, what the generator consumes is whatever the target assembled
    before it left there (or the zero of program start): the encoding then
    depends on history and is wrong for at least one of the two."""
    wi = P.write_index()
    gdef = set()
    for u in P.units:
        if is_generator_unit(u.name):
            continue
        for g in u.globals.values():
            if g['kind'] == 'g' and g.get('def'):
                gdef.add(g['name'])
    per = collections.defaultdict(lambda: {'r': [], 'w': False})
    for u in P.units:
        if not is_generator_unit(u.name):
            continue
        for f in u.funcs.values():
            if f.file != u.name:
                continue
            for k, how, ln, *_ in P.writes(f):
                if k in gdef:
                    if how in ('=', 'elem', 'addr', 'ptr'):
                        per[(u.name, k)]['w'] = True
                    else:
                        per[(u.name, k)]['r'].append((ln, f))
            for k, ln, *_ in P.reads(f):
                if k in gdef:
                    per[(u.name, k)]['r'].append((ln, f))
    n = 0
    for (un, k), d in sorted(per.items()):
        if not d['r']:
            continue
        ws = wi.get(k, [])
        if not any(is_generator_unit(f.unit.name) and how in ('=', 'op', 'elem') for f, how, *_ in ws):
            continue        # not a variable generators write: configuration or core state
        n += 1
        if only is not None and un not in only:
            continue
        corew = sorted({f.unit.name for f, how, *_ in ws if not is_generator_unit(f.unit.name) and how in ('=', 'elem', 'addr', 'ptr')})
        ok = d['w'] or bool(corew)
        ln, f = min(d['r'], key=lambda t: t[0])
        others = sorted({f2.unit.name for f2, how, *_ in ws if f2.unit.name != un})
        chk.ob(rule, '%s:%s' % (un, k), ok, f.loc(ln),
               ('assigned by this module' if d['w'] else 'assigned by the core (%s)' % ', '.join(corew[:3])) if ok else
               '%s() consumes the shared scratch variable %s, which neither %s nor any core module ever assigns; its only '
               'writers are other targets\' generators (%s): the emitted code depends on what was assembled before' %
               (f.name, k, un, ', '.join(others[:4])))
    if n < min_instances:
        raise AnalysisBroken('%s: only %d (generator, shared variable) pairs found' % (rule, n))


def lost_updates(f, nonlocal_only=True):
    """Read-modify-write statements (x++, x--, x op= e) whose result is
    overwritten by a plain assignment on every path before anything can
    observe it: the adjustment is lost.  Yields (line, lvalue).  Calls and the
    function exit count as observers of non-local storage."""
    def mentions_l(e, L):
        return any(strip(m) == L for m in walk(e) if isinstance(m, (list, tuple)))
    succ = f.succs()
    for b, i, ln, n in f.nodes():
        if not (is_incdec(n) or (is_assign(n) and n[1] != '=')):
            continue
        L = strip(n[2])
        if L[0] not in ('l', 'p', 'm', 'g', 'gs', 'ls'):
            continue
        local = L[0] in ('l', 'p')
        if local and nonlocal_only:
            continue
        if strip(f.blocks[b]['elems'][i][1]) != strip(n):
            continue            # value of the expression is used
        base = [strip(m) for m in walk(L) if m[0] in ('l', 'p', 'g', 'gs', 'ls')]
        seen = set()
        work = [(b, i + 1)]
        dead, killed = True, False
        while work and dead:
            bb, ii = work.pop()
            els = f.blocks[bb]['elems']
            stop = False
            for j in range(ii, len(els)):
                ex = els[j][1]
                s = strip(ex)
                if is_assign(s) and s[1] == '=' and strip(s[2]) == L and not mentions_l(s[3], L):
                    stop = killed = True
                    break
                if mentions_l(ex, L) or (not local and any(m[0] == 'call' for m in walk_own(ex))) or \
                        any((is_assign(m) or is_incdec(m)) and strip(m[2]) in base and strip(m[2]) != L for m in walk_own(ex)):
                    dead = False
                    break
            if not dead or stop:
                continue
            nx = succ.get(bb, ())
            if not nx and not local:
                dead = False
            for t, l in nx:
                if t not in seen:
                    seen.add(t)
                    work.append((t, 0))
        if dead and killed:
            yield ln, L


def logical_physical_rule(chk, P, rule, min_pairs=2):
    """EProgCounter() yields the logical (PHASE-adjusted) address, ProgCounter()
    the physical one.  A global assigned only from one of them carries that
    dimension; comparisons, differences and assignments must not mix them."""
    def has_call(e, name):
        return mentions(e, lambda x: isinstance(x, (list, tuple)) and len(x) > 1 and x[0] == 'call' and callee_name(x) == name)
    cls = collections.defaultdict(set)
    for f in P.all_funcs():
        for k, how, ln, n, b, i in P.writes(f):
            if how == '=' and is_assign(n):
                if has_call(n[3], 'EProgCounter'):
                    cls[k].add('L')
                if has_call(n[3], 'ProgCounter'):
                    cls[k].add('P')
    Lv = {k for k, v in cls.items() if v == {'L'}}
    Pv = {k for k, v in cls.items() if v == {'P'}}

    _loc = {}

    def local_dims(f):
        """locals whose use fixes their address space: x - Phases[..] makes x logical, x + Phases[..] physical"""
        if f.qname not in _loc:
            d = {}
            for b, i, ln, m in f.nodes():
                if m[0] == 'b' and m[1] in ('-', '+') and strip(m[2])[0] == 'l':
                    r = nocast(m[3])
                    if r[0] == 'i' and strip(r[1]) == ('g', 'Phases'):
                        d.setdefault(strip(m[2]), set()).add('L' if m[1] == '-' else 'P')
            _loc[f.qname] = d
        return _loc[f.qname]

    # the label bookkeeping works on logical addresses: its address parameters are logical inside it
    label_params = {}
    for f in P.all_funcs():
        if f.name in ('LabelHandle', 'LabelModify') and f.unit.name == 'asmlabel.c':
            label_params[f.qname] = {('p', q['name']) for q in f.params if not q['type'].get('ptr') and abs(q['type'].get('bits') or 0) >= 32}

    def dim(f, e):
        d = set()
        if any(isinstance(x, (list, tuple)) and len(x) == 2 and tuple(x) in label_params.get(f.qname, ()) for x in walk(e)):
            d.add('L')
        if has_call(e, 'EProgCounter'):
            d.add('L')
        if has_call(e, 'ProgCounter'):
            d.add('P')
        ld = local_dims(f)
        for x in walk(e):
            if isinstance(x, (list, tuple)) and x and x[0] == 'l' and strip(x) in ld and len(ld[strip(x)]) == 1:
                d |= ld[strip(x)]
        for x in walk(e):
            if isinstance(x, (list, tuple)) and x and x[0] in ('g', 'gs'):
                k = P.gkey(f, x[0], x[1])
                if k in Lv:
                    d.add('L')
                if k in Pv:
                    d.add('P')
        return d
    n = 0
    for f in P.all_funcs():
        for b, i, ln, m in f.nodes():
            if m[0] == 'b' and m[1] in ('==', '!=', '<', '>', '<=', '>=', '-'):
                a, c = dim(f, m[2]), dim(f, m[3])
                if a and c:
                    n += 1
                    ok = a == c
                    chk.ob(rule, '%s:%s:%s%s%s' % (f.unit.name, f.name, show(m[2])[:30], m[1], show(m[3])[:30]), ok, f.loc(ln),
                           'same address space' if ok else
                           'a %s address is combined with a %s address (%s %s %s): inside a PHASE block the two differ by '
                           'the phase offset' % ('logical' if 'L' in a else 'physical', 'logical' if 'L' in c else 'physical',
                                                 show(m[2]), m[1], show(m[3])))
    # label values are logical addresses: what is handed to the label bookkeeping never comes from ProgCounter()
    for f in P.all_funcs():
        for b, i, ln, c in f.calls({'LabelHandle', 'LabelModify'}):
            for ai, a in enumerate(c[2]):
                exprs = [a]
                for x in walk(a):
                    if isinstance(x, (list, tuple)) and x and x[0] == 'l':
                        for b2, i2, l2, m in f.nodes():
                            if (m[0] == 'decl' and m[1] == x[1] and m[2] is not None):
                                exprs.append(m[2])
                            elif is_assign(m) and strip(m[2]) == ('l', x[1]):
                                exprs.append(m[3])
                if not any(has_call(e, 'EProgCounter') or has_call(e, 'ProgCounter') for e in exprs):
                    continue
                n += 1
                ok = not any(has_call(e, 'ProgCounter') for e in exprs)
                chk.ob(rule, '%s:%s:%s#%d' % (f.unit.name, f.name, callee_name(c), ai + 1), ok, f.loc(ln),
                       'logical address' if ok else
                       'a value taken from ProgCounter() (physical address) is handed to %s(), which compares and stores label '
                       'values as logical addresses: inside a PHASE block the label is not found / gets the unphased address' %
                       callee_name(c))
    if n < min_pairs:
        raise AnalysisBroken('%s: only %d logical/physical address pairs found' % (rule, n))
    return n


def errno_rule(chk, facts, rule, exes, unit_ok=None):
    """ChkIO() and friends report whatever errno holds.  A call is meaningful
    only under a failure test of the operation it checks, or after errno was
    cleared on every path (errno = 0; <output calls>; ChkIO())."""
    def is_errno(e):
        e = strip(e)
        return e[0] == 'u' and e[1] == '*' and strip(e[2])[0] == 'call' and callee_name(strip(e[2])) == '__errno_location'

    def resets(ex):
        return any(is_assign(m) and m[1] == '=' and is_errno(m[2]) and const_val(m[3]) == 0 for m in walk_own(ex))
    iovars = {}

    def failure_test(f, cond):
        """the condition looks at the result of a call, or at a variable that received one"""
        vs = iovars.get(f.qname)
        if vs is None:
            vs = set()
            for b, i, ln, m in f.nodes():
                if is_assign(m) and m[1] == '=' and nocast(m[3])[0] == 'call':
                    vs.add(strip(m[2]))
                if m[0] in ('decl',) and m[2] is not None and nocast(m[2])[0] == 'call':
                    vs.add(('l', m[1]))
                if m[0] == 'call':
                    for a in m[2]:
                        a = nocast(a)
                        if a[0] == 'u' and a[1] == '&':
                            vs.add(strip(a[2]))
            iovars[f.qname] = vs
        def res(e):
            e = nocast(e)
            return isinstance(e, tuple) and len(e) > 1 and (e[0] == 'call' or e in vs)
        for pol in (True, False):
            for a in atoms(cond, pol):
                if a[0] in ('z', 'nz') and res(a[1]):
                    return True
                if a[0] == 'cmp' and (res(a[2]) or res(a[3])):
                    return True
        return False
    seen = set()
    n = 0
    for exe in exes:
        P = facts.program(exe)
        for f in P.all_funcs():
            if f.qname in seen or f.name in ('ChkIO', 'ChkXIO', 'ChkStrIO') or (unit_ok is not None and not unit_ok(f.unit.name)):
                continue
            seen.add(f.qname)
            k = 0
            for b, i, ln, c in f.calls({'ChkIO', 'ChkXIO', 'ChkStrIO'}):
                n += 1
                k += 1
                ok1, w = f.guarded(b, i, lambda l: False, resets)
                # "if (<operation failed>) ChkIO()": every edge into the call's block is a failure test and nothing
                # else was called in the block before it
                inc = [(s_, l) for s_, d_, l in f.edges() if d_ == b]
                ok2 = ok1 or (bool(inc) and all(l is not None and l[0] in ('T', 'F') and failure_test(f, l[1]) for s_, l in inc) and
                              not any(m[0] == 'call' and callee_name(m) not in ('getmessage', 'catgetmessage')
                                      for j in range(i) for m in walk_own(f.blocks[b]['elems'][j][1])))
                chk.ob(rule, '%s:%s:%s@%d' % (f.unit.name, f.name, callee_name(c), k), ok1 or ok2, f.loc(ln),
                       'after errno = 0' if ok1 else 'under a failure test' if ok2 else
                       '%s() is called unconditionally on a path on which errno was never cleared (%s): a stale errno of an '
                       'earlier, unrelated call (e.g. a failed include-path probe) is reported as a fatal I/O error' %
                       (callee_name(c), ' '.join(w[-4:])))
    return n


def string_char_rule(chk, P, rule, unit_ok):
    """A character read from a string value (x.p_str[i], *x.p_str) is a plain,
    i.e. signed, char.  Passed as a number to a parameter wider than a byte it
    is sign-extended for codes from 128 on, unless it is first converted to
    unsigned char.  Yields the number of (call, argument) sites examined."""
    def rawchar(e):
        while isinstance(e, (list, tuple)) and e and e[0] in ('ref', 'cf'):
            e = e[1]
        if e[0] == '?':
            r2, r3 = rawchar(e[2]), rawchar(e[3])
            return True if True in (r2, r3) else ('conv' if 'conv' in (r2, r3) else False)
        if e[0] == 'cast' and e[1] == 'e' and e[2] == 8 and rawchar(e[4]):
            return 'conv'
        if e[0] == 'i' and strip(e[1])[0] == 'm' and strip(e[1])[2].endswith('.p_str'):
            return True
        if e[0] == 'u' and e[1] == '*' and strip(e[2])[0] == 'm' and strip(e[2])[2].endswith('.p_str'):
            return True
        return False
    n = 0
    for f in P.all_funcs():
        if not unit_ok(f.unit.name):
            continue
        for b, i, ln, c in f.calls():
            for ai, a in enumerate(c[2]):
                rc = rawchar(a)
                if not rc:
                    continue
                cn = callee_name(c)
                tg = [P.resolve(f.unit, cn)] if cn else list(P.indirect_targets(f, c)[0])
                tg = [g for g in tg if g is not None and ai < len(g.params)]
                if not tg:
                    continue            # library function (strchr, printf family): int semantics of its own
                n += 1
                wide = [g for g in tg if abs(g.params[ai]['type'].get('bits') or 0) != 8]
                ok = not wide or rc == 'conv'
                chk.ob(rule, '%s:%s:%s#%d' % (f.unit.name, f.name, cn or show(c[1])[:24], ai + 1), ok, f.loc(ln),
                       ('converted to unsigned char' if rc == 'conv' else 'byte-wide parameter') if ok else
                       'a plain char from a string is passed to the %s parameter of %s: characters from 128 on are '
                       'sign-extended (dw "\\200" gives C8 FF)' % (wide[0].params[ai]['type'].get('t'), wide[0].name))
    return n


def boolean_store_rule(chk, P, rule, unit_ok):
    """Boolean is an 8-bit typedef: storing a wider value in a Boolean variable
    keeps only its low byte.  Every implicit narrowing into a Boolean local or
    parameter must therefore already be a truth value (comparison, logical
    operation, !, Boolean variable, 0/1)."""
    from .c12 import boolean_valued as _bv
    n = 0
    regvals = {}

    def handler_index_values(f):
        """constants registered together with f as an instruction handler (AddInstTable(tab, name, Index, f))"""
        if f.qname not in regvals:
            vs = set()
            for g in P.all_funcs():
                for b, i, ln, m in g.nodes():
                    if m[0] == 'call' and any(nocast(a) == ('fn', f.name) for a in m[2]):
                        for a in m[2]:
                            if nocast(a) != ('fn', f.name) and nocast(a)[0] != 's' and nocast(a)[0] not in ('g', 'gs', 'l', 'p', 'm'):
                                c = const_val(a)
                                vs.add(c)
                    if m[0] == 'call' and callee_name(m) == f.name and P.resolve(g.unit, f.name) is f:
                        for a in m[2]:
                            vs.add(const_val(a))
                    if m[0] in ('decl', 'sdecl') and m[2] is not None:
                        for il in walk(m[2]):
                            if isinstance(il, (list, tuple)) and il and il[0] == 'il' and any(nocast(x) == ('fn', f.name) for x in il[1]):
                                vs |= {const_val(x) for x in il[1] if nocast(x)[0] in ('c', 'e', 'cast', 'u', 'b')}
            for u in P.units:
                for gl in u.globals.values():
                    if gl.get('init') is None:
                        continue
                    for il in walk(gl['init']):
                        if isinstance(il, (list, tuple)) and il and il[0] == 'il' and any(nocast(x) == ('fn', f.name) for x in il[1]):
                            vs |= {const_val(x) for x in il[1] if nocast(x)[0] in ('c', 'e', 'cast', 'u', 'b')}
            regvals[f.qname] = vs
        return regvals[f.qname]

    def boolean_valued(f, e):
        if _bv(f, e):
            return True
        x = nocast(e)
        if x[0] == 'p' and len(f.params) == 1 and f.params[0]['name'] == x[1]:
            vs = handler_index_values(f)
            return bool(vs) and all(v in (0, 1) for v in vs)
        return False

    def narrowed(r):
        while isinstance(r, (list, tuple)) and r and r[0] in ('ref', 'cf'):
            r = r[1]
        return r if (r[0] == 'cast' and r[1] == 'i' and abs(r[2]) == 8) else None
    for f in P.all_funcs():
        if not unit_ok(f.unit.name):
            continue
        rbool = str(f.raw.get('type', '')).startswith('Boolean (')
        for b, i, ln, m in f.nodes():
            if m[0] == 'ret' and rbool and m[1] is not None:
                r = narrowed(m[1])
                if r is not None:
                    n += 1
                    ok = boolean_valued(f, r[4])
                    chk.ob(rule, '%s:%s:return %s' % (f.unit.name, f.name, show(r[4])[:40]), ok, f.loc(ln),
                           'truth value' if ok else
                           'the %d-bit value %s is returned as the 8-bit Boolean: only its low byte survives, so a non-zero value '
                           'that is a multiple of 256 reads as False' % (abs(r[3]), show(r[4])))
                continue
            if m[0] == 'call' and callee_name(m):
                g = P.resolve(f.unit, callee_name(m))
                if g is not None:
                    for ai, a in enumerate(m[2]):
                        if ai < len(g.params) and g.params[ai]['type'].get('t') == 'Boolean':
                            r = narrowed(a)
                            if r is not None:
                                n += 1
                                ok = boolean_valued(f, r[4])
                                chk.ob(rule, '%s:%s:%s(#%d %s)' % (f.unit.name, f.name, g.name, ai + 1, show(r[4])[:30]), ok, f.loc(ln),
                                       'truth value' if ok else
                                       'the %d-bit value %s is passed as the 8-bit Boolean parameter %s of %s(): only its low '
                                       'byte survives' % (abs(r[3]), show(r[4]), g.params[ai]['name'], g.name))
            tgt = rhs = None
            if is_assign(m) and m[1] == '=':
                tgt, rhs = strip(m[2]), m[3]
            elif m[0] == 'decl' and m[2] is not None:
                tgt, rhs = ('l', m[1]), m[2]
            if tgt is None or tgt[0] not in ('l', 'p'):
                continue
            t = f.locals.get(tgt[1]) if tgt[0] == 'l' else next((p['type'] for p in f.params if p['name'] == tgt[1]), None)
            if not t or t.get('t') != 'Boolean':
                continue
            r = rhs
            while isinstance(r, (list, tuple)) and r and r[0] in ('ref', 'cf'):
                r = r[1]
            if r[0] == 'cast' and r[1] == 'i' and abs(r[2]) == 8:
                n += 1
                ok = boolean_valued(f, r[4])
                chk.ob(rule, '%s:%s:%s=%s' % (f.unit.name, f.name, tgt[1], show(r[4])[:40]), ok, f.loc(ln),
                       'truth value' if ok else
                       'the %d-bit value %s is stored in the 8-bit Boolean %s: only its low byte survives, so a non-zero value '
                       'that is a multiple of 256 reads as False' % (abs(r[3]), show(r[4]), tgt[1]))
    return n


def written_after(f, bid, idx):
    """lvalues (stripped) assigned or incremented in any element that can execute after element (bid, idx)"""
    out = set()
    els = f.blocks[bid]['elems']
    for j in range(idx + 1, len(els)):
        for m in walk_own(els[j][1]):
            if is_assign(m) or is_incdec(m):
                out.add(strip(m[2]))
    for b in f.reach_forward([t for t, l in f.succs().get(bid, ())]):
        for ln, ex in f.blocks[b]['elems']:
            for m in walk_own(ex):
                if is_assign(m) or is_incdec(m):
                    out.add(strip(m[2]))
    return out


def clear_functions_rule(chk, facts, P, rule):
    """The Clear*/Reset* functions that AssembleFile() calls between passes and files must do their work on every
    path: each global that such a function (or a helper it calls) resets to 0/NULL anywhere is reset on all of its
    paths.  An early return in front of the clearing loop leaves the records of an abandoned pass in place."""
    from . import effects as E
    chk.rule(rule, 'the Clear*/Reset* functions AssembleFile() calls between passes and files empty their lists on every path: '
             'every global that such a function (or a helper it calls) sets to 0/NULL somewhere is set on all of its paths',
             min_instances=6)
    af = facts.func('as.c', 'AssembleFile')
    names = set()
    for b, i, ln, c in af.calls():
        cn = callee_name(c)
        if cn and (cn.startswith('Clear') or cn.startswith('Reset')):
            names.add(cn)
    n = 0
    for cn in sorted(names):
        f = P.resolve(af.unit, cn)
        if f is None or f.entry is None:
            continue
        may = {}

        def collect(g, d):
            for b, i, ln, m in g.nodes():
                if is_assign(m) and m[1] == '=' and nocast(m[2])[0] in GLOBKINDS and const_val(nocast(m[3])) == 0:
                    may.setdefault(P.gkey(g, nocast(m[2])[0], nocast(m[2])[1]), g.loc(ln))
                if m[0] == 'call' and d < 2:
                    h = P.resolve(g.unit, callee_name(m) or '')
                    if h is not None and h.entry is not None:
                        collect(h, d + 1)
        collect(f, 0)
        k = E.kill(P, f)
        for g_, loc in sorted(may.items()):
            n += 1
            ok = g_ in k
            chk.ob(rule, '%s:%s:%s' % (f.unit.name, cn, g_), ok, f.loc(),
                   'reset on every path' if ok else
                   '%s() resets %s (%s) only on some of its paths: when it returns early the entries of the abandoned pass '
                   '(or of the previous file) stay in the list and reach the report' % (cn, g_, loc))
    return n


def carry_pair_rule(chk, facts, rule):
    """Mixed-radix positions (word count, position inside the word): where the inner part is corrected by one radix
    (+= / -= ElemsPerFullWord) the word count of the same record moves by one the other way in the same block."""
    chk.rule(rule, 'intpseudo.c, position = (FullWordCnt, LastWordFill): every correction of LastWordFill by the radix '
             '(+= / -= ElemsPerFullWord) comes with the opposite step of FullWordCnt of the same record in the same block '
             '(carry and borrow); without it a reservation or DUP group that wraps inside a word is one word too long or short',
             min_instances=3)
    u = facts.unit('intpseudo.c')
    n = 0
    for f in u.funcs.values():
        if f.file != 'intpseudo.c' or f.entry is None:
            continue
        for b, blk in f.blocks.items():
            for ln, ex in blk['elems']:
                for m in walk_own(ex):
                    if not (is_assign(m) and m[1] in ('+=', '-=')):
                        continue
                    t = nocast(m[2])
                    def radix(e, depth=0):
                        for x in walk(e):
                            if isinstance(x, (list, tuple)) and x and x[0] == 'm' and x[2].endswith('.ElemsPerFullWord'):
                                return True
                            if isinstance(x, (list, tuple)) and len(x) == 2 and x[0] == 'l' and depth < 2:
                                # a local that holds the radix
                                ds = [m3 for b3, i3, l3, m3 in f.nodes() if is_assign(m3) and m3[1] == '=' and nocast(m3[2]) == tuple(x)]
                                if ds and all(radix(d[3], depth + 1) for d in ds):
                                    return True
                        return False
                    if not (t[0] == 'm' and t[2].endswith('.LastWordFill') and radix(m[3])):
                        continue
                    n += 1
                    base = nocast(t[1])
                    want = '--' if m[1] == '+=' else '++'
                    found = False
                    for l2, ex2 in blk['elems']:
                        for m2 in walk_own(ex2):
                            t2 = nocast(m2[2]) if (is_incdec(m2) or is_assign(m2)) else None
                            if t2 is None or not (t2[0] == 'm' and t2[2].endswith('.FullWordCnt') and nocast(t2[1]) == base):
                                continue
                            if is_incdec(m2) and want in m2[1]:
                                found = True
                            if is_assign(m2) and m2[1] == ('-=' if want == '--' else '+=') and const_val(nocast(m2[3])) == 1:
                                found = True
                    chk.ob(rule, 'intpseudo.c:%s:%s%s' % (f.name, show(t), m[1]), found, f.loc(ln),
                           'with the word count stepped the other way' if found else
                           '%s %s one radix, but FullWordCnt of %s is not stepped %s in the same block: the position is off by a '
                           'whole word after a wrap' % (show(t), 'gains' if m[1] == '+=' else 'loses', show(base), 'down' if want == '--' else 'up'))
        # the div/mod form of the same normalisation (MultCodeFill): word count += v / radix, inner part = v % radix.
        # Quotient and remainder have to be those of one dividend; '(v + radix) % radix' next to 'v / radix' (floor
        # remainder, truncated quotient) is off by one word for every negative v.
        def is_radix(e):
            e = nocast(e)
            return isinstance(e, (list, tuple)) and e and e[0] == 'm' and e[2].endswith('.ElemsPerFullWord')
        divs, mods, writes, first = [], [], False, None
        for b, blk in f.blocks.items():
            for ln, ex in blk['elems']:
                for x in walk(ex):
                    if not isinstance(x, (list, tuple)) or not x:
                        continue
                    if x[0] == 'b' and x[1] in ('/', '%') and is_radix(x[3]):
                        (divs if x[1] == '/' else mods).append(nocast(x[2]))
                        first = first or ln
                    if is_assign(x):
                        t = nocast(x[2])
                        if t[0] == 'm' and (t[2].endswith('.LastWordFill') or t[2].endswith('.FullWordCnt')):
                            writes = True
        if writes and divs and mods:
            n += 1
            same = {repr(d) for d in divs} == {repr(d) for d in mods}
            chk.ob(rule, 'intpseudo.c:%s:div/mod-one-dividend' % f.name, same, f.loc(first),
                   'quotient and remainder by the radix are taken of the same dividend (%s)' % show(divs[0]) if same else
                   'the word carry is (%s) / radix but the inner part is (%s) %% radix: quotient and remainder of different '
                   'dividends - for a negative difference the C quotient truncates toward zero while the biased remainder '
                   'is the floor remainder, so no word is borrowed and the reservation is one word too long'
                   % (', '.join(show(d) for d in divs), ', '.join(show(d) for d in mods)))
    return n
