"""Mechanical 'this integer is never zero here' prover (analysis A6/A3/A4).

nonzero(P, f, bid, idx, expr) returns (True, reason) when one of the
mechanical forms applies, else (False, why-not).  Forms:
  const      expr folds to a non-zero constant
  guard      every path to the site crosses an edge on which expr != 0
             (x, x != 0, x > c>=0, x >= c>0, switch case labels) -- incl. the
             complement edge of an error test that returns
  local      every assignment to the local (and its initialiser) is non-zero
  param      every call site passes a non-zero argument
  global     every store to the global, program-wide, is a non-zero value and
             its static initialiser is non-zero, or every store is guarded at
             the store by a test that rejects zero
  field      same for a record field (all stores + all initialisers)
  elem       array whose every element store is non-zero (static zero elements
             of never-selected indices are not modelled: stated in evidence)
  ret        callee returns non-zero on every return path
  arith      x*y with both non-zero; x+c / x|c with c>0 and x not negative-typed
"""
from core import *
from .common import *

MAXDEPTH = 5


def _pos_atom(target):
    def want(a):
        if a[0] == 'nz' and a[1] == target:
            return True
        if a[0] == 'nz' and isinstance(a[1], tuple) and a[1][0] == 'call' and a[1][1] == ('fn', 'ChkRange'):
            args = a[1][2]
            if len(args) == 3 and args[0] == target and (const_val(args[1]) or 0) > 0:
                return True
        if a[0] == 'cmp' and a[2] == target:
            c = const_val(a[3])
            if c is None:
                return False
            op = a[1]
            if op == '!=' and c == 0:
                return True
            if op == '>' and c >= 0:
                return True
            if op == '>=' and c > 0:
                return True
            if op == '==' and c != 0:
                return True
        return False
    return want


def nonzero(P, f, bid, idx, expr, depth=0, seen=None):
    e = nocast(expr)
    seen = seen or set()
    c = const_val(e)
    if c is not None:
        return (c != 0), 'const %s' % c
    if depth > MAXDEPTH:
        return False, 'depth'
    if not isinstance(e, tuple) or not e:
        return False, 'shape'
    # guard at the site
    want = _pos_atom(e)
    ok, w = f.guarded(bid, idx, lambda l: edge_has_atom(l, want))
    if ok:
        return True, 'guard'
    k = e[0]
    if k == 'b' and e[1] == '=':
        return nonzero(P, f, bid, idx, e[3], depth + 1, seen)
    if k == 'b' and e[1] == '<<':
        return nonzero(P, f, bid, idx, e[2], depth + 1, seen)
    if k == 'b' and e[1] == '/':
        vs = cvals(P, f, e)
        if vs is not None:
            return (0 not in vs), 'const-prop quotient in %s' % sorted(vs)
        return False, 'quotient may be zero'
    if k == 'b' and e[1] == '*':
        a, ra = nonzero(P, f, bid, idx, e[2], depth + 1, seen)
        b, rb = nonzero(P, f, bid, idx, e[3], depth + 1, seen)
        return (a and b), 'arith(%s,%s)' % (ra, rb)
    if k == 'b' and e[1] in ('+', '|'):
        for x, y in ((e[2], e[3]), (e[3], e[2])):
            cy = const_val(y)
            if cy is not None and cy > 0 and _nonneg(P, f, x):
                return True, 'arith(x+%d, x unsigned)' % cy
        return False, 'arith'
    if k == '?':
        if e[1] == e[2]:
            a, ra = True, 'x?x'
        else:
            a, ra = nonzero(P, f, bid, idx, e[2], depth + 1, seen)
        b, rb = nonzero(P, f, bid, idx, e[3], depth + 1, seen)
        return (a and b), 'cond(%s,%s)' % (ra, rb)
    if k == 'l':
        key = ('l', f.qname, e[1])
        if key in seen:
            return True, 'cycle'
        seen = seen | {key}
        n = 0
        for b2, i2, ln, node in f.nodes():
            rhs = None
            if is_assign(node) and strip(node[2]) == e:
                if node[1] != '=':
                    return False, 'local %s modified by %s at %d' % (e[1], node[1], ln)
                rhs = node[3]
            elif node[0] in ('decl',) and node[1] == e[1]:
                rhs = node[2]
                if rhs is None:
                    continue
            elif is_incdec(node) and strip(node[2]) == e:
                return False, 'local %s inc/dec at %d' % (e[1], ln)
            elif node[0] == 'call' and any(strip(a) == ('u', '&', e) for a in node[2]):
                ok, r = _outparam_nz(P, f, node, [strip(a) for a in node[2]].index(('u', '&', e)), depth, seen)
                if not ok:
                    return False, 'local %s filled by callee at %d: %s' % (e[1], ln, r)
                n += 1
                continue
            elif node[0] == 'u' and node[1] == '&' and strip(node[2]) == e:
                # handled at the enclosing call if it is a direct argument
                if _addr_only_as_call_arg(f, e):
                    continue
                return False, 'address of local %s taken at %d' % (e[1], ln)
            if rhs is not None:
                n += 1
                ok, r = nonzero(P, f, b2, i2, rhs, depth + 1, seen)
                if not ok:
                    return False, 'local %s assigned possibly-zero %s at %d (%s)' % (e[1], show(rhs), ln, r)
        if n:
            return True, 'local(%d defs)' % n
        return False, 'local without defs'
    if k == 'p':
        names = [p['name'] for p in f.params]
        if e[1] not in names:
            return False, 'param?'
        pi = names.index(e[1])
        key = ('p', f.qname, e[1])
        if key in seen:
            return True, 'cycle'
        seen = seen | {key}
        for b2, i2, ln, node in f.nodes():
            if (is_assign(node) or is_incdec(node)) and strip(node[2]) == e:
                return False, 'param %s modified at %d' % (e[1], ln)
        sites = call_sites(P, f)
        if not sites:
            return False, 'param without call sites'
        for (g, b2, i2, ln, n, direct) in sites:
            if pi >= len(n[2]):
                return False, 'call arity'
            ok, r = nonzero(P, g, b2, i2, n[2][pi], depth + 1, seen)
            if not ok:
                return False, 'param %s: %s:%d passes %s (%s)' % (e[1], g.qname, ln, show(n[2][pi]), r)
        return True, 'param(%d call sites)' % len(sites)
    if k in GLOBKINDS:
        return _global_nz(P, f, e, None, depth, seen)
    if k == 'i':
        base = e[1]
        if base[0] in GLOBKINDS:
            return _global_nz(P, f, base, 'elem', depth, seen)
        if base[0] == 'm':
            return _field_nz(P, base[2], depth, seen)
        return False, 'elem of non-global'
    if k == 'm':
        return _field_nz(P, e[2], depth, seen)
    if k == 'call':
        cn = callee_name(e)
        t = P.resolve(f.unit, cn) if cn else None
        if t is None:
            return False, 'unresolved call'
        key = ('ret', t.qname)
        if key in seen:
            return True, 'cycle'
        seen = seen | {key}
        n = 0
        for b2, i2, ln, node in t.nodes():
            if node[0] == 'ret' and node[1] is not None:
                n += 1
                ok, r = nonzero(P, t, b2, i2, node[1], depth + 1, seen)
                if not ok:
                    return False, '%s returns possibly-zero %s at %d (%s)' % (t.name, show(node[1]), ln, r)
        return (n > 0), 'ret(%d returns)' % n
    return False, 'no form applies to %s' % show(e)


def _addr_only_as_call_arg(f, e):
    tgt = ('u', '&', e)
    total = sum(1 for b, i, ln, n in f.nodes() if n[0] == 'u' and n[1] == '&' and strip(n[2]) == e)
    asarg = sum(sum(1 for a in n[2] if strip(a) == tgt) for b, i, ln, n in f.nodes() if n[0] == 'call')
    return total == asarg


def noreturn_or_nz_exit(t, bid, idx, want):
    """After element (bid, idx) of t every path to t's exit crosses an edge on
    which want(atom) holds (paths ending in noreturn calls never reach exit)."""
    ok, w = t.must_pass(bid, idx, lambda ex: False,
                        edge_ok=lambda s, d, l: not (l is not None and edge_has_atom(l, want)))
    return ok, w


def _outparam_nz(P, f, call, argi, depth, seen):
    """The callee stores only non-zero values through its argi-th parameter,
    or rejects zero (error exit) before returning: 'validated at origin'."""
    cn = callee_name(call)
    t = P.resolve(f.unit, cn) if cn else None
    if t is None:
        return False, 'callee %s has no body' % cn
    if argi >= len(t.params):
        return False, 'arity'
    pn = t.params[argi]['name']
    deref = ('u', '*', ('p', pn))
    want = _pos_atom(deref)
    stores = 0
    for b2, i2, ln, node in t.nodes():
        if is_assign(node) and strip(node[2]) == deref:
            stores += 1
            if node[1] == '=':
                ok, r = nonzero(P, t, b2, i2, node[3], depth + 1, seen)
                if ok:
                    continue
            ok, w = noreturn_or_nz_exit(t, b2, i2, want)
            if not ok:
                return False, '%s stores possibly-zero %s through %s at %s:%d and returns without rejecting zero' % (
                    t.name, show(node[3]), pn, t.file, ln)
        elif node[0] == 'call' and any(strip(a) == ('p', pn) for a in node[2]):
            # pointer handed on (fread, Read2, ...): contents unknown afterwards
            stores += 1
            ok, w = noreturn_or_nz_exit(t, b2, i2, want)
            if not ok:
                return False, '%s fills *%s via %s at %s:%d and returns without rejecting zero' % (
                    t.name, pn, callee_name(node), t.file, ln)
    if not stores:
        return False, '%s never stores through %s' % (t.name, pn)
    return True, 'outparam validated at origin (%s, %d stores)' % (t.name, stores)


def cvals(P, f, e, depth=0):
    """Set of possible constant values of e (None = unknown): propagation
    through ?:, locals with constant definitions and parameters whose every
    call site passes constants."""
    e = nocast(e)
    c = const_val(e)
    if c is not None:
        return {c}
    if depth > 4 or not isinstance(e, tuple) or not e:
        return None
    if e[0] == '?':
        a, b = cvals(P, f, e[2], depth + 1), cvals(P, f, e[3], depth + 1)
        if a is None or b is None:
            return None
        return a | b
    if e[0] == 'p':
        names = [p['name'] for p in f.params]
        if e[1] not in names:
            return None
        for b, i, ln, n in f.nodes():
            if (is_assign(n) or is_incdec(n)) and strip(n[2]) == e:
                return None
        pi = names.index(e[1])
        vals = set()
        sites = call_sites(P, f)
        if not sites:
            return None
        for (g, b2, i2, ln, n, direct) in sites:
            if pi >= len(n[2]):
                return None
            v = cvals(P, g, n[2][pi], depth + 1)
            if v is None:
                return None
            vals |= v
        return vals
    if e[0] == 'l':
        vals = set()
        for b, i, ln, n in f.nodes():
            v = False
            if is_assign(n) and strip(n[2]) == e:
                if n[1] != '=':
                    return None
                v = cvals(P, f, n[3], depth + 1)
            elif n[0] == 'decl' and n[1] == e[1] and n[2] is not None:
                v = cvals(P, f, n[2], depth + 1)
            elif is_incdec(n) and strip(n[2]) == e:
                return None
            elif n[0] == 'u' and n[1] == '&' and strip(n[2]) == e:
                return None
            if v is None:
                return None
            if v is not False:
                vals |= v
        return vals or None
    if e[0] == 'b' and e[1] in ('+', '-', '*', '/'):
        a, b = cvals(P, f, e[2], depth + 1), cvals(P, f, e[3], depth + 1)
        if a is None or b is None or len(a) * len(b) > 64:
            return None
        out = set()
        for x in a:
            for y in b:
                if e[1] == '+':
                    out.add(x + y)
                elif e[1] == '-':
                    out.add(x - y)
                elif e[1] == '*':
                    out.add(x * y)
                else:
                    if y == 0:
                        return None
                    out.add(int(x / y))
        return out
    return None


def _nonneg(P, f, x):
    x = nocast(x)
    if x[0] == 'l':
        t = f.locals.get(x[1])
        return bool(t and t.get('bits', 0) > 0)
    if x[0] == 'p':
        for p in f.params:
            if p['name'] == x[1]:
                return p['type'].get('bits', 0) > 0
    if x[0] in GLOBKINDS:
        g = P.ginfo(f, x[0], x[1])
        return bool(g and g['type'].get('bits', 0) > 0)
    return False


def _global_nz(P, f, e, mode, depth, seen):
    k = P.gkey(f, e[0], e[1])
    key = ('g', k, mode)
    if key in seen:
        return True, 'cycle'
    seen = seen | {key}
    gi = P.ginfo(f, e[0], e[1])
    # find the defining unit's initialiser
    init = None
    found_def = False
    for u in P.units:
        g = u.globals.get(e[1] if e[0] != 'ls' else f.name + '::' + e[1])
        if g is None:
            continue
        if e[0] in ('gs', 'ls') and u is not f.unit:
            continue
        if g.get('def'):
            found_def = True
            if g.get('init') is not None:
                init = g['init']
    ws = P.write_index().get(k, [])
    n = 0
    for (g, how, ln, node, b2, i2) in ws:
        if mode == 'elem':
            if how == 'addr':
                return False, 'array %s escapes at %s:%d' % (e[1], g.qname, ln)
            if how not in ('elem',):
                continue
            if not is_assign(node) or node[1] != '=':
                return False, 'array %s element modified by op at %s:%d' % (e[1], g.qname, ln)
            ok, r = nonzero(P, g, b2, i2, node[3], depth + 1, seen)
            if not ok:
                return False, '%s[..] = %s at %s:%d (%s)' % (e[1], show(node[3]), g.qname, ln, r)
            n += 1
        else:
            if how == 'ptr':
                continue
            if how == 'addr':
                return False, 'address of %s escapes at %s:%d' % (e[1], g.qname, ln)
            tgt = strip(node[2])
            want = _pos_atom(tgt)
            if how != '=':
                # x += (x & c): stays >= its old value when guarded positive before
                rhs = nocast(node[3]) if is_assign(node) else None
                if (is_assign(node) and node[1] in ('+=', '|=') and isinstance(rhs, tuple) and rhs[0] == 'b'
                        and rhs[1] == '&' and g.guarded(b2, i2, lambda l: edge_has_atom(l, want))[0]):
                    n += 1
                    continue
                return False, '%s modified by %s at %s:%d' % (e[1], how, g.qname, ln)
            ok, r = nonzero(P, g, b2, i2, node[3], depth + 1, seen)
            if not ok:
                # post-validated store: zero is rejected before the function
                # returns success (option callbacks: `return CMDErr` aborts)
                ok2, w = g.must_pass(b2, i2, _ret_enum('CMDErr'),
                                     edge_ok=lambda s, d, l: not (l is not None and edge_has_atom(l, want)))
                if not ok2:
                    return False, '%s = %s at %s:%d (%s)' % (e[1], show(node[3]), g.qname, ln, r)
            n += 1
    if mode == 'elem':
        if init is not None:
            ini = strip(init)
            if ini and ini[0] == 'il':
                for el in ini[1]:
                    cv = const_val(el)
                    if cv is None or cv == 0:
                        return False, 'array %s has a zero/non-constant initialiser element' % e[1]
                n += len(ini[1])
        return (n > 0), 'elem(%d stores/initialisers, all non-zero)' % n
    if init is None:
        # zero until first store: accept a non-zero constant store in an
        # initialisation function, i.e. one from which the reading function is
        # not reachable (start-up / per-file defaults).  The read-before-init
        # order itself is an assumption stated in the evidence.
        for (g, how, ln, node, b2, i2) in ws:
            if how == '=' and (const_val(node[3]) or 0) != 0 and g is not f:
                if f not in P.closure([g]):
                    return True, 'global(default %s set in initialiser %s, %d stores all non-zero)' % (
                        const_val(node[3]), g.name, n)
        return False, '%s has no non-zero static initialiser (zero until first store)' % e[1]
    ci = const_val(init)
    if ci is None or ci == 0:
        return False, '%s initialised to %s' % (e[1], show(init))
    return True, 'global(init %s, %d stores all non-zero)' % (ci, n)


def _ret_enum(name):
    def pred(ex):
        e = strip(ex)
        return isinstance(e, tuple) and e and e[0] == 'ret' and isinstance(e[1], tuple) and e[1][:2] == ('e', name)
    return pred


def _field_nz(P, field, depth, seen):
    key = ('f', field)
    if key in seen:
        return True, 'cycle'
    seen = seen | {key}
    n = 0
    for (g, op, ln, node, b2, i2) in P.field_write_index().get(field, []):
        if op != '=':
            return False, 'field %s modified by %s at %s:%d' % (field, op, g.qname, ln)
        ok, r = nonzero(P, g, b2, i2, node[3], depth + 1, seen)
        if not ok:
            return False, '%s = %s at %s:%d (%s)' % (field, show(node[3]), g.qname, ln, r)
        n += 1
    for where, el in P.field_inits(field):
        c = const_val(el)
        if c is None or c == 0:
            return False, 'field %s initialised %s in %s' % (field, show(el), where)
        n += 1
    return (n > 0), 'field(%d stores/inits, all non-zero)' % n
