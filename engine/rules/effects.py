"""A5 — effects: MOD sets and must-KILL sets with callee summaries."""
from core import *
from .common import *

_must_cache = {}
_kill_cache = {}


def must_blocks(f):
    """Blocks that lie on every path from entry to exit."""
    k = id(f)
    if k in _must_cache:
        return _must_cache[k]
    res = set()
    if f.entry is None or len(f.blocks) > 600:
        _must_cache[k] = res
        return res
    full = f.reach_forward([f.entry])
    if f.exit not in full:
        # never returns: take the blocks that dominate every terminal block
        _must_cache[k] = res
        return res
    for b in full:
        if b in (f.entry, f.exit):
            res.add(b)
            continue
        seen = f.reach_forward([f.entry], block_stop=lambda x, b=b: x == b)
        if f.exit not in seen or (f.exit in seen and f.exit == b):
            res.add(b)
        else:
            # exit reachable while b blocked?  reach_forward adds successors of
            # non-stopped blocks only; b itself is in seen but not expanded
            pass
    _must_cache[k] = res
    return res


REGISTRY_ITERATORS = {
    # function that runs every registered procedure -> registration function
    'asmsub.c:InitPass': 'AddInitPassProc',
    'asmsub.c:ClearUp': 'AddClearUpProc',
}

_pk_cache = {}


def pointee_kills(P, t, depth=0):
    """Indices of pointer parameters of t whose pointee is assigned on every
    path (directly, by memset/strcpy, or by handing the pointer to a callee
    that does)."""
    k = (id(P), id(t))
    if k in _pk_cache:
        return _pk_cache[k]
    _pk_cache[k] = set()
    res = set()
    if t.entry is None or depth > 3:
        return res
    names = [p['name'] for p in t.params]
    for pi, pn in enumerate(names):
        if not t.params[pi]['type'].get('ptr'):
            continue
        pv = ('p', pn)

        def hits(ex, pv=pv):
            for n in walk_own(ex):
                if is_assign(n) and n[1] == '=':
                    tg = strip(n[2])
                    if tg == ('u', '*', pv):
                        return True
                    # struct pointee: all-field initialisation is approximated by any field store
                    if tg[0] == 'm' and tg[3] == 1 and nocast(tg[1]) == pv:
                        return True
                if n[0] == 'call':
                    cn = callee_name(n)
                    if cn in ('memset', 'memcpy', 'strcpy', 'strmaxcpy') and n[2] and nocast(n[2][0]) == pv:
                        return True
                    t2 = P.resolve(t.unit, cn) if cn else None
                    if t2 is not None and t2 is not t:
                        pk2 = pointee_kills(P, t2, depth + 1)
                        for ai, a in enumerate(n[2]):
                            if nocast(a) == pv and ai in pk2:
                                return True
            return False
        ok, w = t.must_pass(t.entry, -1, hits)
        if ok:
            res.add(pi)
    _pk_cache[k] = res
    return res


def direct_kills(P, f, ex):
    """Globals wholly assigned by element ex (not through pointers)."""
    out = set()
    for n in walk_own(ex):
        if n[0] == 'call' and callee_name(n) is not None:
            t = P.resolve(f.unit, callee_name(n))
            if t is not None:
                pk = pointee_kills(P, t)
                for ai in pk:
                    if ai < len(n[2]):
                        a = strip(n[2][ai])
                        if a[0] == 'u' and a[1] == '&':
                            r = lv_root(a[2])
                            if r and r[0] in GLOBKINDS and not r[2]:
                                out.add(P.gkey(f, r[0], r[1]))
        if is_assign(n) and n[1] == '=':
            r = lv_root(n[2])
            if r and r[0] in GLOBKINDS and not r[2]:
                out.add(P.gkey(f, r[0], r[1]))
            elif r and r[0] in GLOBKINDS and r[2] == ('*',):
                # *Str = 0: string reset idiom on a character array
                gi = P.ginfo(f, r[0], r[1])
                if gi is not None and 'arr' in gi['type']:
                    out.add(P.gkey(f, r[0], r[1]))
        elif n[0] == 'call' and callee_name(n) in ('memset', 'memcpy', 'strcpy', 'strmaxcpy'):
            a = strip(n[2][0]) if n[2] else None
            if a and a[0] == 'u' and a[1] == '&':
                a = a[2]
            r = lv_root(a) if a else None
            if r and r[0] in GLOBKINDS and not is_deref_path(r[2]):
                out.add(P.gkey(f, r[0], r[1]))
    return out


def block_gen(P, f, b, depth, stack):
    res = set()
    for ln, ex in f.blocks[b]['elems']:
        res |= direct_kills(P, f, ex)
        for n in walk_own(ex):
            if n[0] != 'call':
                continue
            cn = callee_name(n)
            if cn is not None:
                t = P.resolve(f.unit, cn)
                if t is not None:
                    res |= kill(P, t, depth + 1, stack + (f,))
            else:
                ts, how = P.indirect_targets(f, n)
                if how == 'slot' and ts:
                    sets = [kill(P, t, depth + 1, stack + (f,)) for t in ts]
                    res |= set.intersection(*sets) if sets else set()
    return res


def _edge_zero(P, f, l):
    if l is None or l[0] not in ('T', 'F'):
        return set()
    out = set()
    for a in atoms(l[1], l[0] == 'T'):
        if a[0] == 'z' and isinstance(a[1], tuple) and a[1] and a[1][0] in GLOBKINDS:
            out.add(P.gkey(f, a[1][0], a[1][1]))
    return out


def kill(P, f, depth=0, stack=()):
    """Globals assigned on every path through f (forward must-analysis on the
    CFG, callee summaries, intersection over the targets of slot calls)."""
    k = (id(P), id(f))
    if k in _kill_cache:
        return _kill_cache[k]
    if f in stack or depth > 14 or f.entry is None:
        return set()
    if f.qname in REGISTRY_ITERATORS:
        # runs every registered procedure: union of their effects
        res = set()
        for t in P.slots().get('arg:%s:0' % REGISTRY_ITERATORS[f.qname], ()):
            res |= kill(P, t, depth + 1, stack + (f,))
        _kill_cache[k] = res
        return res
    gen = {}
    reach = f.reach_forward([f.entry])
    for b in reach:
        gen[b] = block_gen(P, f, b, depth, stack)
    # arrays filled by a loop: attribute the element stores of the body to the
    # loop header (optimistic for loops that run at least once, i.e. constant bounds)
    for (h, s0) in f.loops():
        if h not in reach:
            continue
        for b in f.loop_body(h, s0):
            for ln, ex in f.blocks[b]['elems']:
                for n in walk_own(ex):
                    if is_assign(n) and n[1] == '=':
                        r = lv_root(n[2])
                        if r and r[0] in GLOBKINDS and r[2] and r[2][0] == '[]' and not is_deref_path(r[2]):
                            gen[h].add(P.gkey(f, r[0], r[1]))
    TOP = None
    IN = {b: TOP for b in reach}
    OUT = {b: TOP for b in reach}
    IN[f.entry] = set()
    preds = f.preds()
    changed = True
    order = sorted(reach, reverse=True)   # clang numbers blocks in reverse
    it = 0
    while changed and it < 50:
        changed = False
        it += 1
        for b in order:
            if b != f.entry:
                # an edge on which a global is known to be zero/NULL (exit of "while (List) { ... }") counts as a reset
                ins = [OUT[p] | _edge_zero(P, f, l) for p, l in preds.get(b, ()) if p in reach and OUT[p] is not TOP]
                if not ins:
                    continue
                new_in = set.intersection(*ins) if ins else set()
            else:
                new_in = set()
            new_out = new_in | gen[b]
            if IN[b] is TOP or new_in != IN[b] or OUT[b] is TOP or new_out != OUT[b]:
                IN[b], OUT[b] = new_in, new_out
                changed = True
    res = IN.get(f.exit)
    if res is TOP or res is None:
        # never returns normally: nothing is guaranteed to the caller
        res = set()
    _kill_cache[k] = set(res)
    return _kill_cache[k]


def must_roots(af, pf, s0, P, inloop):
    """Direct callees of AssembleFile whose call dominates the ProcessFile call
    (inside the pass loop when inloop, else before it)."""
    out = []
    for b, i, ln, n in af.calls():
        cn = callee_name(n)
        t = P.resolve(af.unit, cn) if cn else None
        if t is None or cn == 'ProcessFile':
            continue

        def is_this(ex, n=n):
            return any(m is n for m in walk_own(ex))
        if inloop:
            ok, w = af.guarded(pf[0], pf[1], lambda l: False, is_this, start=s0)
        else:
            ok, w = af.guarded(pf[0], pf[1], lambda l: False, is_this)
            if ok:
                ok2, _ = af.guarded(pf[0], pf[1], lambda l: False, is_this, start=s0)
                if ok2:
                    ok = False   # that is a per-pass call
        if ok:
            out.append(t)
    return out


def mod_body(P, body):
    """gkey -> [(f, how, line)] for whole/element/op writes in BODY."""
    mod = {}
    for k, ws in P.write_index().items():
        for (f, how, ln, n, b, i) in ws:
            if f in body and how in ('=', 'op', 'elem', 'addr'):
                mod.setdefault(k, []).append((f, how, ln))
    return mod


def def_units(P):
    d = {}
    for u in P.units:
        for k, g in u.globals.items():
            if not g.get('def'):
                continue
            if g['kind'] == 'g':
                d[k] = (u.name, g)
            else:
                d[u.name + ':' + k] = (u.name, g)
    return d
