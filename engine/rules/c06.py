"""C06 — P2HEX output decodes, with valid checksums, to the code file's
contents (structural clauses).

R1 every checksum that is printed was started (plain assignment) in the same
   line, for every output format (per-format specialised reaching definitions)
R2 every CPU header id the assembler can emit has a family descriptor with a
   concrete default hex format; ids unique
R3 printf-family format/argument agreement in p2hex.c
R4 divisors (granularity, line length) are non-zero
"""
from core import *
from .common import *
from . import prove


def specialise(var, k):
    """edge_ok for the CFG specialised to `var == k`."""
    def ok(s, d, l):
        if l is None:
            return True
        t = l[0]
        if t == 'case':
            if nocast(l[2]) == var:
                return k in l[1]
            return True
        if t == 'default':
            if nocast(l[1]) == var:
                return k not in l[2]
            return True
        for a in atoms(l[1], t == 'T'):
            if a[0] == 'cmp' and a[2] == var:
                c = const_val(a[3])
                if c is None:
                    continue
                if a[1] == '==' and c != k:
                    return False
                if a[1] == '!=' and c == k:
                    return False
        return True
    return ok


def checksum_rule(chk, P, f, acc, selector, formats, rule):
    """acc: stripped accumulator variable; selector: stripped loop-invariant
    enum variable (or None); formats: {name: value}."""
    def plain_assign(ex):
        for m in walk_own(ex):
            if is_assign(m) and m[1] == '=' and strip(m[2]) == acc:
                return True
            if m[0] == 'decl' and acc[0] == 'l' and m[1] == acc[1] and m[2] is not None:
                return False   # initialiser at function entry is not a per-line start
        return False
    uses = []
    for b, i, ln, n in f.calls({'fprintf', 'printf', 'as_snprintf', 'sprintf'}):
        if any(strip(m) == acc for a in n[2] for m in walk(a) if m[0] == acc[0]):
            uses.append((b, i, ln))
    if not uses:
        return 0
    loops = f.loops()
    bodies = {(h, s0): f.loop_body(h, s0) for (h, s0) in loops}
    nobl = 0
    for fname, k in sorted(formats.items(), key=lambda x: x[1]):
        eok = specialise(selector, k) if selector is not None else None
        fwd_from_entry = f.reach_forward([f.entry], eok)
        bad = None
        for (b, i, ln) in uses:
            if b not in fwd_from_entry:
                continue   # this print does not exist for the format
            starts = [None]
            for (h, s0) in loops:
                if b in bodies[(h, s0)]:
                    starts.append(s0)
            for st in starts:
                ok, w = f.guarded(b, i, lambda l: False, plain_assign, start=st, edge_ok=eok)
                if not ok:
                    bad = (ln, st, w)
                    break
            if bad:
                break
        nobl += 1
        key = '%s:%s:%s:%s' % (f.unit.name, f.name, acc[1], fname)
        chk.ob(rule, key, bad is None, f.loc(bad[0] if bad else None),
               'every printed checksum is started in its own line' if bad is None else
               'format %s: the checksum printed at line %d can be reached from %s without a plain assignment to %s '
               '(only accumulating operations): it carries over from the previous line; path %s'
               % (fname, bad[0], 'the start of a loop iteration' if bad[1] is not None else 'function entry',
                  acc[1], ' '.join(bad[2][-6:])))
    return nobl


def record_flags_rule(chk, facts, rule, unit, fn, selector, formats):
    """Boolean locals that are written inside the record loop are per-record
    state: every read inside the loop must be preceded, within the same record
    iteration, by an assignment (per output format)."""
    from .c07 import record_loop
    f = facts.func(unit, fn)
    h, s0, body = record_loop(f)
    flags = set()
    for b in body:
        for ln, ex in f.blocks[b]['elems']:
            for m in walk_own(ex):
                if is_assign(m) and strip(m[2])[0] == 'l':
                    t = f.locals.get(strip(m[2])[1])
                    if t and t.get('t') == 'Boolean':
                        flags.add(strip(m[2]))
    n = 0
    for v in sorted(flags):
        def defs(ex, v=v):
            return any(is_assign(m) and m[1] == '=' and strip(m[2]) == v for m in walk_own(ex))
        bad = None
        for fname, k in sorted(formats.items(), key=lambda x: x[1]):
            eok = specialise(selector, k) if selector is not None else None
            for b in body:
                for i, (ln, ex) in enumerate(f.blocks[b]['elems']):
                    occ = [x for x in walk_own(ex) if x[0] == 'l' and strip(x) == v]
                    tg = [m for m in walk_own(ex) if is_assign(m) and m[1] == '=' and strip(m[2]) == v]
                    if len(occ) <= len(tg):
                        continue
                    ok, w = f.guarded(b, i, lambda l: False, defs, start=s0, edge_ok=eok)
                    if not ok and bad is None:
                        bad = (fname, ln, w)
        n += 1
        chk.ob(rule, '%s:%s:record-flag:%s' % (unit, fn, v[1]), bad is None, f.loc(bad[1] if bad else None),
               'assigned in every record before it is read' if bad is None else
               'format %s: the flag %s is read at line %d on a path from the start of a record on which this record '
               'has not assigned it: the value left by the previous record is used (path %s)' %
               (bad[0], v[1], bad[1], ' '.join(bad[2][-5:])))
    return n


def run(chk, facts, info):
    P = facts.program('p2hex')
    u = facts.unit('p2hex.c')
    formats = {n: v for n, v in u.enums.items() if n.startswith('eHexFormat') and n != 'eHexFormatDefault'}
    if len(formats) < 8:
        raise AnalysisBroken('hex format enumerators not found')
    chk.rule('C06-R1', 'in P2HEX, for each output format, every checksum value handed to an output call is preceded, '
             'on every path from the start of the enclosing line/record loop iteration, by a plain assignment to the '
             'accumulator (per-format specialised reaching definitions)', min_instances=10)
    pf = facts.func('p2hex.c', 'ProcessFile')
    n = checksum_rule(chk, P, pf, ('l', 'ChkSum'), ('l', 'ActFormat'), formats, 'C06-R1')
    if not n:
        raise AnalysisBroken('no checksum uses found in p2hex.c ProcessFile')
    mf = facts.func('p2hex.c', 'main')
    checksum_rule(chk, P, mf, ('gs', 'ChkSum'), None, {'terminator-records': 0}, 'C06-R1')

    chk.rule('C06-R5', 'P2HEX ProcessFile(): every Boolean state flag that is written inside the record loop '
             '(extended-address / bank state, transfer decision) is assigned within each record before it is read, '
             'for every output format', min_instances=2)
    record_flags_rule(chk, facts, 'C06-R5', 'p2hex.c', 'ProcessFile', ('l', 'ActFormat'), formats)

    chk.rule('C06-R6', 'p2hex.c: address-unit and byte quantities are only combined through the granularity '
             '(assignments, comparisons, fseek/fread arguments, AddChunk ranges)', min_instances=25)
    from . import units
    from .c05 import UNITS_P2BIN, UNIT_FUNCS
    T = dict(UNITS_P2BIN)
    T.update({'InpGran': 'G', 'LineLen': 'B', 'RecCnt': '1', 'IntOffset': 'x', 'ChkSum': 'x', 'WrTransLen': 'x',
              'WrErgStart': 'x', 'HSeg': 'x', 'RelAdr': '1'})
    EXC = {'p2hex.c:ProcessFile:SumLen+=': 'adds the bytes of one address unit (1 * granularity) per transferred word'}
    for fn in ('ProcessFile', 'MeasureFile'):
        units.check_function(chk, 'C06-R6', facts.func('p2hex.c', fn), T, EXC, UNIT_FUNCS)

    # R2 header ids
    chk.rule('C06-R2', 'every constant HeaderID assigned by a code generator\'s SwitchTo_* has a row in headids.c '
             'with a concrete default hex format, and descriptor ids are unique', min_instances=50)
    hu = facts.unit('headids.c')
    d = hu.globals.get('Descrs')
    if not d or d.get('init') is None:
        raise AnalysisBroken('headids.c Descrs[] not found')
    rows = {}
    dups = []
    for row in strip(d['init'])[1]:
        if row[0] != 'il' or len(row[1]) < 3:
            continue
        name, idv, fmt = row[1][0], const_val(row[1][1]), row[1][2]
        if idv in rows:
            dups.append(idv)
        rows[idv] = (name[1] if name[0] == 's' else '?', fmt)
    for dv in dups:
        chk.ob('C06-R2', 'headids.c:Descrs:duplicate-%#x' % dv, False, 'headids.c', 'family id %#x listed twice' % dv)
    A = facts.program('asl')
    seen_ids = {}
    for (f, how, ln, node, b, i) in A.write_index().get('HeaderID', []):
        if how != '=':
            continue
        vals = prove.cvals(A, f, node[3])
        if vals is None:
            # parameterised (e.g. per-CPU table): collect field initialisers
            r = nocast(node[3])
            byname = None
            if r[0] == 'm' and r[2].endswith('.Id') and callee_name(nocast(r[1])) == 'FindFamilyByName':
                a0 = nocast(nocast(r[1])[2][0])
                if a0[0] == 's':
                    byname = a0[1]
            if r[0] == 'm' and r[2].endswith('.Id') and nocast(r[1])[0] == 'l':
                for b2, i2, l2, m2 in f.nodes():
                    src = None
                    if is_assign(m2) and strip(m2[2]) == nocast(r[1]):
                        src = nocast(m2[3])
                    elif m2[0] == 'decl' and m2[1] == nocast(r[1])[1] and m2[2] is not None:
                        src = nocast(m2[2])
                    if src is not None and callee_name(src) == 'FindFamilyByName':
                        a0 = nocast(src[2][0])
                        if a0[0] == 's':
                            byname = a0[1]
            if byname is not None:
                hit = [(idv, row) for idv, row in rows.items() if row[0] == byname]
                ok = bool(hit) and not (hit[0][1][1][0] == 'e' and hit[0][1][1][1] == 'eHexFormatDefault')
                chk.ob('C06-R2', 'HeaderID:by-name:%s' % byname, ok, f.loc(ln),
                       'family looked up by name %s' % byname if ok else 'family name %s has no descriptor' % byname)
                continue
            if r[0] == 'm':
                fld = r[2]
                vals = set()
                for where, el in A.field_inits(fld):
                    c = const_val(el)
                    if c is not None:
                        vals.add(c)
                for (g, op, l2, n2, b2, i2) in A.field_write_index().get(fld, []):
                    c = const_val(n2[3])
                    if c is not None:
                        vals.add(c)
            if not vals:
                chk.ob('C06-R2', '%s:%s:HeaderID' % (f.unit.name, f.name), True, f.loc(ln),
                       'non-constant header id %s (not decided)' % show(node[3]))
                continue
        for v in sorted(vals):
            seen_ids.setdefault(v, (f, ln))
    for v, (f, ln) in sorted(seen_ids.items()):
        row = rows.get(v)
        ok = row is not None and not (row[1][0] == 'e' and row[1][1] == 'eHexFormatDefault')
        chk.ob('C06-R2', 'HeaderID:%#04x' % v, ok, f.loc(ln),
               ('family %s, default format %s' % (row[0], show(row[1]))) if ok else
               ('header id %#x set in %s has no family descriptor with a concrete default hex format: P2HEX/PLIST reject '
                'the code file' % (v, f.qname)))

    chk.rule('C06-R3', 'every printf-family call in p2hex.c has a conversion for each argument and an argument for '
             'each conversion (clang format checker, -fsyntax-only)', min_instances=40)
    format_rule(chk, facts, 'C06-R3', ['p2hex.c'])

    chk.rule('C06-R4', 'every non-constant divisor in p2hex.c (granularity, line length) is provably non-zero',
             min_instances=3)
    for f in P.all_funcs():
        if f.unit.name != 'p2hex.c':
            continue
        agg = {}
        for bid, i, ln, n in f.nodes():
            if n[0] == 'b' and n[1] in ('/', '%', '/=', '%=') and const_val(n[3]) is None:
                ok, why = prove.nonzero(P, f, bid, i, n[3])
                key = 'p2hex.c:%s:%s' % (f.name, show(n[3]))
                a = agg.setdefault(key, [True, why, f.loc(ln)])
                if not ok:
                    agg[key] = [False, why, f.loc(ln)]
        for key, (ok, why, loc) in agg.items():
            chk.ob('C06-R4', key, ok, loc, why[:400])
    chk.rule('C06-R7', 'p2hex.c MeasureFile(): the measured address range and granularity are updated only under '
             'FilterOK(cpu) and the segment selection, i.e. for exactly the records ProcessFile() converts', min_instances=2)
    from .c05 import selection_rule
    if selection_rule(chk, facts, 'C06-R7', 'p2hex.c', 'MeasureFile') < 2:
        raise AnalysisBroken('p2hex MeasureFile no longer updates start and stop')
    chk.note('Decided: checksum start per format and line, family descriptors for all emitted header ids, format/'
             'argument agreement, non-zero divisors. Not decided: textual validity and decoded contents per format.')
