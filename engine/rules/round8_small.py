"""Two small who-may / must-use rules added after round 8 of the seeded changes."""
from core import *
from .common import *


def literals(f):
    out = set()
    for b, blk in f.blocks.items():
        for ln, ex in blk['elems']:
            for x in walk(ex):
                if isinstance(x, (list, tuple)) and len(x) >= 2 and x[0] == 's' and isinstance(x[1], str):
                    out.add(x[1])
    return out


def c12_r8(chk, facts, rule='C12-R8'):
    chk.rule(rule, 'as.c: every line skipper that counts nested bodies ("FirstOutputTag->NestLevel++") recognises the '
             'start of a nested body through MacroStart(), the one list of MACRO/IRP/IRPC/IRPN/REPT/WHILE, or names at least '
             'the mnemonics MacroStart() names: a start keyword the skipper does not know lets the inner ENDM end the '
             'skipped body, and the rest of a non-selected branch is assembled', min_instances=5)
    u = facts.unit('as.c')
    ms = u.funcs['MacroStart']
    want = {s for s in literals(ms) if s.isupper()}
    if len(want) < 5:
        raise AnalysisBroken('MacroStart() names only %s' % sorted(want))
    n = 0
    for f in u.funcs.values():
        if f.entry is None or f.file != 'as.c':
            continue
        for b, i, ln, m in f.nodes():
            if not (is_incdec(m) and '++' in m[1]):
                continue
            t = nocast(m[2])
            if not (t[0] == 'm' and t[2].endswith('.NestLevel')):
                continue
            n += 1
            ok, w = f.guarded(b, i, lambda l: l is not None and l[0] == 'T' and any(
                isinstance(x, (list, tuple)) and x and x[0] == 'call' and callee_name(x) == 'MacroStart' for x in walk(l[1])))
            have = {s for s in literals(f) if s.isupper()}
            if not ok and want <= have:
                ok = True
            chk.ob(rule, 'as.c:%s:NestLevel++' % f.name, ok, f.loc(ln),
                   'nested starts recognised by MacroStart() (%s)' % ', '.join(sorted(want)) if ok else
                   'the nesting level is raised without MacroStart(); the function itself names %s, MacroStart() knows %s: '
                   'a nested %s inside a skipped body is not counted' % (sorted(have & want), sorted(want), '/'.join(sorted(want - have))))
    return n


def c10_r15(chk, facts, P, rule='C10-R15'):
    chk.rule(rule, 'the pseudo-instruction libraries (*pseudo.c) compute reservations, alignments and label values on the '
             'logical counter EProgCounter() only; none of them reads the physical counter ProgCounter(): inside a PHASE '
             'block whose offset is not a multiple of the operand size an alignment computed on the load address is wrong '
             'and shifts everything behind it', min_instances=4)
    n = 0
    for f in P.all_funcs():
        if f.entry is None or not f.unit.name.endswith('pseudo.c'):
            continue
        for b, i, ln, m in f.calls({'EProgCounter', 'ProgCounter'}):
            n += 1
            ok = callee_name(m) == 'EProgCounter'
            chk.ob(rule, '%s:%s:%s@%d' % (f.unit.name, f.name, callee_name(m), n), ok, f.loc(ln),
                   'logical counter' if ok else
                   'ProgCounter() (load address, without the PHASE offset) is read in a pseudo-instruction handler: '
                   'alignment / reservation arithmetic on it is wrong inside PHASE')
    return n


def c03_r35(chk, facts, rule='C03-R35'):
    chk.rule(rule, 'as.c: the position callbacks (*_GetPos, called for every diagnostic) build their text in fixed String '
             'buffers from macro arguments and file names of any length; none of them uses an unbounded copy (strcpy, '
             'strcat, sprintf) - only the strmax*/as_sn* family with the buffer size (F85: IRP_GetPos copied a 2000 '
             'character IRP argument with strcpy and crashed)', min_instances=5)
    u = facts.unit('as.c')
    n = 0
    for f in u.funcs.values():
        if f.entry is None or not f.name.endswith('_GetPos'):
            continue
        n += 1
        bad = [(ln, callee_name(m)) for b, i, ln, m in f.calls({'strcpy', 'strcat', 'sprintf', 'vsprintf', 'stpcpy'})]
        chk.ob(rule, 'as.c:%s' % f.name, not bad, f.loc(bad[0][0] if bad else None),
               'bounded copies only' if not bad else
               '%s() into a fixed-size position buffer: the source (macro argument, file name) has no length limit, a long '
               'one overflows the buffer when a diagnostic is printed inside the expansion' % bad[0][1])
    return n


def c03_r36(chk, facts, rule='C03-R36'):
    chk.rule(rule, 'as.c ProcessIRPNArgs(): the parameter count of IRPN, an arbitrary user expression, is compared with an '
             'upper bound (> constant) as well as with zero before it is accepted; ExpandIRPN() computes 1 + 2*count and '
             'pads count - 1 arguments (F86: irpn 1073741824,x overflowed the sum and allocated 2^30 strings)', min_instances=1)
    f = facts.unit('as.c').funcs['ProcessIRPNArgs']
    upper = lower = False
    for b, blk in f.blocks.items():
        c = blk.get('cond')
        if c is None:
            continue
        for x in walk(c):
            if isinstance(x, (list, tuple)) and x and x[0] == 'b' and x[1] in ('>', '>=', '<', '<='):
                l, r = nocast(x[2]), nocast(x[3])
                if l[0] == 'm' and l[2].endswith('.ParamCnt') and const_val(r) is not None:
                    if x[1] in ('>', '>=') and const_val(r) > 0:
                        upper = True
                    if x[1] in ('<', '<='):
                        lower = True
    chk.ob(rule, 'as.c:ProcessIRPNArgs:ParamCnt-bounds', upper and lower, f.loc(),
           'count tested against zero and against an upper constant' if upper and lower else
           'the IRPN count is %s: a huge count overflows 1 + 2*count in ExpandIRPN() and the padding loop allocates count '
           'strings (hang / memory exhaustion)' % ('not compared with an upper bound' if lower else 'not range-checked'))
    return 1
