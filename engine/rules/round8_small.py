"""Two small who-may / must-use rules added after round 8 of the seeded changes."""
from core import *
from .common import *


def literals(f):
    out = set()
    for b, blk in f.blocks.items():
        for ln, ex in blk['elems']:
            for x in walk(ex):
                if isinstance(x, (list, tuple)) and len(x) >= 2 and x[0] == 's' and isinstance(x[1], str):
                    out.add(x[1])
    return out


def c12_r8(chk, facts, rule='C12-R8'):
    chk.rule(rule, 'as.c: every line skipper that counts nested bodies ("FirstOutputTag->NestLevel++") recognises the '
             'start of a nested body through MacroStart(), the one list of MACRO/IRP/IRPC/IRPN/REPT/WHILE, or names at least '
             'the mnemonics MacroStart() names: a start keyword the skipper does not know lets the inner ENDM end the '
             'skipped body, and the rest of a non-selected branch is assembled', min_instances=5)
    u = facts.unit('as.c')
    ms = u.funcs['MacroStart']
    want = {s for s in literals(ms) if s.isupper()}
    if len(want) < 5:
        raise AnalysisBroken('MacroStart() names only %s' % sorted(want))
    n = 0
    for f in u.funcs.values():
        if f.entry is None or f.file != 'as.c':
            continue
        for b, i, ln, m in f.nodes():
            if not (is_incdec(m) and '++' in m[1]):
                continue
            t = nocast(m[2])
            if not (t[0] == 'm' and t[2].endswith('.NestLevel')):
                continue
            n += 1
            ok, w = f.guarded(b, i, lambda l: l is not None and l[0] == 'T' and any(
                isinstance(x, (list, tuple)) and x and x[0] == 'call' and callee_name(x) == 'MacroStart' for x in walk(l[1])))
            have = {s for s in literals(f) if s.isupper()}
            if not ok and want <= have:
                ok = True
            chk.ob(rule, 'as.c:%s:NestLevel++' % f.name, ok, f.loc(ln),
                   'nested starts recognised by MacroStart() (%s)' % ', '.join(sorted(want)) if ok else
                   'the nesting level is raised without MacroStart(); the function itself names %s, MacroStart() knows %s: '
                   'a nested %s inside a skipped body is not counted' % (sorted(have & want), sorted(want), '/'.join(sorted(want - have))))
    return n


def c10_r15(chk, facts, P, rule='C10-R15'):
    chk.rule(rule, 'the pseudo-instruction libraries (*pseudo.c) compute reservations, alignments and label values on the '
             'logical counter EProgCounter() only; none of them reads the physical counter ProgCounter(): inside a PHASE '
             'block whose offset is not a multiple of the operand size an alignment computed on the load address is wrong '
             'and shifts everything behind it', min_instances=4)
    n = 0
    for f in P.all_funcs():
        if f.entry is None or not f.unit.name.endswith('pseudo.c'):
            continue
        for b, i, ln, m in f.calls({'EProgCounter', 'ProgCounter'}):
            n += 1
            ok = callee_name(m) == 'EProgCounter'
            chk.ob(rule, '%s:%s:%s@%d' % (f.unit.name, f.name, callee_name(m), n), ok, f.loc(ln),
                   'logical counter' if ok else
                   'ProgCounter() (load address, without the PHASE offset) is read in a pseudo-instruction handler: '
                   'alignment / reservation arithmetic on it is wrong inside PHASE')
    return n
