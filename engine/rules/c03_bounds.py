"""C03-R3: external integers reach array subscripts and copy lengths only after
a bounding test (analysis A6, intra-procedural taint + A3 guards).

Sources: results of the expression evaluator entry points and ConstLongInt,
locals filled through their address by fread/Read2/Read4/ReadRecordHeader,
argc in main.  Sinks: subscript of an array with a known constant size;
length argument of memcpy/memset/memmove/fread/fwrite into such an array.
Scope: core modules and the tools (generators' private buffers are not
decided, see DESIGN)."""
from core import *
from .common import *
from . import prove

EXES = ['asl', 'plist', 'pbind', 'p2bin', 'p2hex', 'alink', 'dasl']
SRC = {'EvalStrIntExpression', 'EvalStrIntExpressionWithFlags', 'EvalStrIntExpressionWithResult',
       'EvalStrIntExpressionOffs', 'EvalStrIntExpressionOffsWithFlags', 'EvalStrIntExpressionOffsWithResult',
       'ConstLongInt'}
FILL = {'fread': (0,), 'Read2': (1,), 'Read4': (1,), 'Read8': (1,), 'ReadRecordHeader': (0, 1, 2, 3)}
LENFUNCS = {'memcpy': (0, 2), 'memset': (0, 2), 'memmove': (0, 2), 'fread': (0, 2), 'fwrite': (0, 2)}

# IntType enumerator -> (min, max) filled from asmpars.c IntTypeDefs at run time
EXCEPTIONS = {
}


def array_size(P, f, base):
    """Element count of the array designated by base expr (first dimension
    after applied subscripts), or None."""
    b = nocast(base)
    depth = 0
    while b and b[0] == 'i':
        b = b[1]
        depth += 1
    t = None
    if b[0] == 'l':
        t = f.locals.get(b[1])
    elif b[0] == 'p':
        return None
    elif b[0] in GLOBKINDS:
        gi = P.ginfo(f, b[0], b[1])
        t = gi['type'] if gi else None
    elif b[0] == 'm':
        rec, fld = b[2].rsplit('.', 1)
        for u in [f.unit]:
            fs = u.records.get(rec)
            if fs:
                for x in fs:
                    if x['name'] == fld:
                        t = x['type']
    if not t or 'arr' not in t:
        return None
    if depth >= len(t['arr']):
        return None
    return t['arr'][depth]


def elem_bytes(P, f, base):
    b = nocast(base)
    t = None
    if b[0] == 'l':
        t = f.locals.get(b[1])
    elif b[0] in GLOBKINDS:
        gi = P.ginfo(f, b[0], b[1])
        t = gi['type'] if gi else None
    if not t or 'arr' not in t or not t.get('size'):
        return None, None
    n = 1
    for d in t['arr']:
        n *= d
    return t['size'], (t['size'] // n if n else None)


def type_bits(P, f, v):
    if v[0] == 'l':
        t = f.locals.get(v[1])
        return t.get('bits', 0) if t else 0
    if v[0] == 'p':
        for p in f.params:
            if p['name'] == v[1]:
                return p['type'].get('bits', 0)
    return 0


def upper_bound_ok(f, bid, i, var, N, inclusive=False):
    """Guard: var < c (c <= N) or var <= c (c < N) or ChkRange(var, lo, hi<N)."""
    lim = N if not inclusive else N + 1

    def want(a):
        if a[0] == 'cmp' and a[2] == var:
            c = const_val(a[3])
            if c is None:
                return False
            if a[1] == '<' and c <= lim:
                return True
            if a[1] == '<=' and c < lim:
                return True
            if a[1] == '==' and c < lim:
                return True
        if a[0] == 'nz' and isinstance(a[1], tuple) and a[1][0] == 'call' and a[1][1] == ('fn', 'ChkRange'):
            args = a[1][2]
            if len(args) == 3 and args[0] == var and const_val(args[2]) is not None and const_val(args[2]) < lim:
                return True
        return False
    return f.guarded(bid, i, lambda l: edge_has_atom(l, want))


def lower_bound_ok(f, bid, i, var):
    def want(a):
        if a[0] == 'cmp' and a[2] == var:
            c = const_val(a[3])
            if c is None:
                return False
            if a[1] == '>=' and c >= 0:
                return True
            if a[1] == '>' and c >= -1:
                return True
            if a[1] == '==' and c >= 0:
                return True
        if a[0] == 'nz' and isinstance(a[1], tuple) and a[1][0] == 'call' and a[1][1] == ('fn', 'ChkRange'):
            args = a[1][2]
            if len(args) == 3 and args[0] == var and (const_val(args[1]) or -1) >= 0:
                return True
        return False
    return f.guarded(bid, i, lambda l: edge_has_atom(l, want))


def relational_bound(f, bid, i, var, limit_pred):
    """Guard var < X / var <= X where X satisfies limit_pred(expr)."""
    def want(a):
        return a[0] == 'cmp' and a[2] == var and a[1] in ('<', '<=') and limit_pred(a[3])
    return f.guarded(bid, i, lambda l: edge_has_atom(l, want))


def taints(P, f):
    taint = {}
    for bid, i, ln, n in f.nodes():
        if is_assign(n) or n[0] == 'decl':
            rhs = n[3] if n[0] == 'b' else n[2]
            tgt = strip(n[2]) if n[0] == 'b' else ('l', n[1])
            if rhs is None or not isinstance(tgt, tuple) or tgt[0] not in ('l', 'p'):
                continue
            for m in walk(rhs):
                if m[0] == 'call' and callee_name(m) in SRC:
                    taint.setdefault(tgt, 'result of %s at line %d' % (callee_name(m), ln))
        if n[0] == 'call' and callee_name(n) in FILL:
            for ai in FILL[callee_name(n)]:
                if ai < len(n[2]):
                    a = strip(n[2][ai])
                    if a[0] == 'u' and a[1] == '&' and a[2][0] == 'l':
                        taint.setdefault(a[2], 'filled by %s at line %d' % (callee_name(n), ln))
    if f.name == 'main' and f.params:
        taint[('p', f.params[0]['name'])] = 'argc'
    changed = True
    while changed:
        changed = False
        for bid, i, ln, n in f.nodes():
            if is_assign(n) or n[0] == 'decl':
                rhs = n[3] if n[0] == 'b' else n[2]
                tgt = strip(n[2]) if n[0] == 'b' else ('l', n[1])
                if rhs is None or not isinstance(tgt, tuple) or tgt[0] != 'l' or tgt in taint:
                    continue
                for m in walk(rhs):
                    if m[0] in ('l', 'p') and strip(m) in taint:
                        taint[tgt] = 'derived from %s (%s)' % (m[1], taint[strip(m)])
                        changed = True
                        break
    return taint


def loop_bounded_by(f, bid, i, var, taint):
    """var is a loop counter compared `var < T` where T is tainted: the bound
    is then T itself; returns the tainted limit expr or None."""
    lims = []

    def want(a):
        if a[0] == 'cmp' and a[2] == var and a[1] in ('<', '<='):
            lims.append((a[1], a[3]))
            return True
        return False
    ok, w = f.guarded(bid, i, lambda l: edge_has_atom(l, want))
    return ok, lims


def run(chk, facts):
    chk.rule('C03-R3', 'an integer that comes from user expressions, from a code file or from argc reaches a '
             'subscript of a fixed-size array, or a copy length into one, only after tests that bound it on both '
             'sides by the array size (or its type cannot exceed it)', min_instances=25)
    seenf = set()
    agg = {}
    nsinks = 0
    for exe in EXES:
        P = facts.program(exe)
        for f in P.all_funcs():
            if f.qname in seenf:
                continue
            seenf.add(f.qname)
            un = f.unit.name
            if un.startswith('code') and un not in ('codechunks.c', 'codepseudo.c'):
                continue
            taint = taints(P, f)
            if not taint:
                continue
            for bid, i, ln, n in f.nodes():
                if n[0] == 'i':
                    tv = [strip(m) for m in walk(n[2]) if m[0] in ('l', 'p') and strip(m) in taint]
                    if not tv:
                        continue
                    N = array_size(P, f, n[1])
                    key = '%s:%s:%s[%s]' % (un, f.name, show(n[1]), show(n[2]))
                    nsinks += 1
                    ok, why = check_index(P, f, bid, i, n, tv, N, taint)
                    a = agg.setdefault(key, [True, why, f.loc(ln)])
                    if not ok and a[0]:
                        agg[key] = [False, why, f.loc(ln)]
                elif n[0] == 'call' and callee_name(n) in LENFUNCS:
                    di, li = LENFUNCS[callee_name(n)]
                    if li >= len(n[2]):
                        continue
                    tv = [strip(m) for m in walk(n[2][li]) if m[0] in ('l', 'p') and strip(m) in taint]
                    if callee_name(n) in ('fread', 'fwrite') and len(n[2]) > 2:
                        # size * count
                        tv += [strip(m) for m in walk(n[2][1]) if m[0] in ('l', 'p') and strip(m) in taint]
                    if not tv:
                        continue
                    nsinks += 1
                    key = '%s:%s:%s(%s,len=%s)' % (un, f.name, callee_name(n), show(n[2][di]), show(n[2][li]))
                    ok, why = check_len(P, f, bid, i, n, di, li, tv, taint)
                    a = agg.setdefault(key, [True, why, f.loc(ln)])
                    if not ok and a[0]:
                        agg[key] = [False, why, f.loc(ln)]
    for key, (ok, why, loc) in sorted(agg.items()):
        if not ok and key in EXCEPTIONS:
            chk.exception('C03-R3', key, EXCEPTIONS[key])
            ok, why = True, 'listed: ' + EXCEPTIONS[key]
        chk.ob('C03-R3', key, ok, loc, why[:500])
    chk.extra['tainted_sinks'] = nsinks


def check_index(P, f, bid, i, n, tv, N, taint):
    idx = nocast(n[2])
    base = nocast(n[1])
    # argv[z] with z < argc style: pointer parameter indexed below the tainted limit
    if N is None:
        # unknown capacity (pointer): accept when index var is bounded by a comparison
        # with the tainted companion (argv[z], z < argc) or by a loop over a count
        for v in tv:
            if idx == v or (idx[0] == 'b' and v in (idx[2], idx[3])):
                ok, lims = loop_bounded_by(f, bid, i, v, taint)
                if ok:
                    return True, 'pointer index bounded relationally by %s' % ', '.join(show(x[1]) for x in lims[:2])
        if idx[0] == 'b':
            return True, 'pointer arithmetic index on buffer of unknown capacity (not decided)'
        return False, 'index %s (%s) into %s of unknown capacity without relational bound' % (
            show(idx), taint[tv[0]], show(base))
    # simple variable index
    v = idx
    inner_ok = False
    if v[0] == 'u' and v[1] in ('x++', 'x--'):
        v = v[2]
    if v[0] in ('l', 'p'):
        bits = type_bits(P, f, v)
        if bits > 0 and (1 << bits) <= N:
            return True, 'type of %s (%d bits) cannot exceed %d elements' % (v[1], bits, N)
        up, w = upper_bound_ok(f, bid, i, v, N)
        if not up:
            # relational: v < limit where limit itself is bounded by N
            def lim_ok(x):
                c = const_val(x)
                return c is not None and c <= N
            up, w = relational_bound(f, bid, i, v, lim_ok)
        if not up:
            # v < T with T tainted and T itself bounded (<= N)
            ok, lims = loop_bounded_by(f, bid, i, v, taint)
            if ok:
                for op, lim in lims:
                    if lim[0] in ('l', 'p'):
                        up2, _ = upper_bound_ok(f, bid, i, lim, N, inclusive=(op == '<'))
                        if up2:
                            up = True
                if not up:
                    return False, ('%s[%s]: index bounded only by %s, which is %s and itself unbounded against the %d '
                                   'elements of the array' % (show(base), show(idx), ', '.join(show(x[1]) for x in lims[:2]),
                                                              taint.get(lims[0][1], 'external') if lims else '?', N))
        if not up:
            return False, '%s[%s]: %s (%s) has no upper bound test against %d elements; path %s' % (
                show(base), show(idx), v[1], taint.get(v, '?'), N, ' '.join(w[-4:]))
        if bits < 0:
            lo, w2 = lower_bound_ok(f, bid, i, v)
            if not lo:
                return False, '%s[%s]: signed %s (%s) has no lower bound test' % (show(base), show(idx), v[1], taint.get(v, '?'))
        return True, 'bounded by guard'
    return True, 'composite index (not decided)'


def check_len(P, f, bid, i, n, di, li, tv, taint):
    dest = nocast(n[2][di])
    total, esz = elem_bytes(P, f, dest)
    L = nocast(n[2][li])
    if total is None:
        if dest[0] in GLOBKINDS and dest[1] in ('BAsmCode', 'WAsmCode', 'DAsmCode'):
            # line code buffer: length must follow SetMaxCodeLen(len) or a MaxCodeLen comparison
            def want(a):
                if a[0] == 'cmp' and a[1] in ('<', '<=') and mentions(a[3], lambda m: var_is(m, {'MaxCodeLen'})):
                    return True
                if a[0] == 'nz' and isinstance(a[1], tuple) and a[1][0] == 'call' and a[1][1] == ('fn', 'SetMaxCodeLen'):
                    return True
                return False
            ok, w = f.guarded(bid, i, lambda l: edge_has_atom(l, want))
            if ok:
                return True, 'follows SetMaxCodeLen / MaxCodeLen test'
            return False, '%s: length %s (%s) into the line buffer without SetMaxCodeLen/MaxCodeLen test' % (
                callee_name(n), show(L), taint.get(tv[0], '?'))
        return True, 'destination of unknown capacity (heap; not decided)'
    mult = 1
    if callee_name(n) in ('fread', 'fwrite'):
        c = const_val(n[2][1])
        if c is None:
            return False, 'non-constant element size'
        mult = c
    for v in tv:
        cap = total // mult
        up, w = upper_bound_ok(f, bid, i, v, cap, inclusive=True)
        if not up:
            # v assigned min(x, sizeof buf) style: every def of v is a constant <= cap or guarded
            defs_ok = True
            ndefs = 0
            for b2, i2, ln, m in f.nodes():
                if is_assign(m) and strip(m[2]) == v and m[1] == '=':
                    ndefs += 1
                    r = nocast(m[3])
                    c = const_val(r)
                    if c is not None and c <= cap:
                        continue
                    if r[0] in ('l', 'p'):
                        u2, _ = upper_bound_ok(f, b2, i2, r, cap, inclusive=True)
                        if u2:
                            continue
                    if r[0] == '?':
                        # (x > C) ? C : x   /  min pattern
                        cs = [const_val(r[2]), const_val(r[3])]
                        if any(c is not None and c <= cap for c in cs):
                            continue
                    defs_ok = False
            if not (ndefs and defs_ok):
                return False, '%s: length %s (%s) is not bounded by the %d-byte destination %s' % (
                    callee_name(n), show(L), taint.get(v, '?'), total, show(dest))
    return True, 'length bounded by destination capacity'
