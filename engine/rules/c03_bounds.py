"""C03-R3: external integers reach array subscripts and copy lengths only after
a bounding test (analysis A6, intra-procedural taint + A3 guards).

Sources: results of the expression evaluator entry points and ConstLongInt,
locals filled through their address by fread/Read2/Read4/ReadRecordHeader,
argc in main.  Sinks: subscript of an array with a known constant size;
length argument of memcpy/memset/memmove/fread/fwrite into such an array.
Scope: core modules and the tools (generators' private buffers are not
decided, see DESIGN)."""
from core import *
from .common import *
from . import prove

EXES = ['asl', 'plist', 'pbind', 'p2bin', 'p2hex', 'alink', 'dasl']
SRC = {'EvalStrIntExpression', 'EvalStrIntExpressionWithFlags', 'EvalStrIntExpressionWithResult',
       'EvalStrIntExpressionOffs', 'EvalStrIntExpressionOffsWithFlags', 'EvalStrIntExpressionOffsWithResult',
       'ConstLongInt'}
FILL = {'fread': (0,), 'Read2': (1,), 'Read4': (1,), 'Read8': (1,), 'ReadRecordHeader': (0, 1, 2, 3)}
LENFUNCS = {'memcpy': (0, 2), 'memset': (0, 2), 'memmove': (0, 2), 'fread': (0, 2), 'fwrite': (0, 2)}

# IntType enumerator -> (min, max) filled from asmpars.c IntTypeDefs at run time
EXCEPTIONS = {
    'p2bin.c:ProcessFile:Buffer[ResLen++]':
        'ResLen counts a subset of the iterations of a loop bounded by TransLen = min(BufferSize, ErgLen)',
    'p2bin.c:ProcessFile:fwrite(Buffer,len=ResLen)':
        'ResLen <= TransLen = min(BufferSize, ErgLen) (relational; the min() definition is checked for TransLen)',
    'p2hex.c:ProcessFile:fread(Buffer,len=TransLen)':
        'TransLen = min(LineLen, ErgLen) and later redefinitions only shrink it; LineLen <= MaxLineLen is enforced '
        'by its option writer (supporting check: every store to LineLen is bounded by the buffer size)',
}


def is_generator(un):
    return (un.startswith('code') and un not in ('codechunks.c', 'codepseudo.c')) or un.startswith('deco')


def array_size(P, f, base):
    """Element count of the array designated by base expr (first dimension
    after applied subscripts), or None."""
    b = nocast(base)
    depth = 0
    while b and b[0] == 'i':
        b = b[1]
        depth += 1
    t = None
    if b[0] == 'l':
        t = f.locals.get(b[1])
    elif b[0] == 'p':
        for p in f.params:
            if p['name'] == b[1] and 'otype' in p:
                t = p['otype']
    elif b[0] in GLOBKINDS:
        gi = P.ginfo(f, b[0], b[1])
        t = gi['type'] if gi else None
    elif b[0] == 'm':
        rec, fld = b[2].rsplit('.', 1)
        for u in [f.unit]:
            fs = u.records.get(rec)
            if fs:
                for x in fs:
                    if x['name'] == fld:
                        t = x['type']
    if not t or 'arr' not in t:
        return None
    if depth >= len(t['arr']):
        return None
    return t['arr'][depth]


def elem_bytes(P, f, base):
    b = nocast(base)
    t = None
    if b[0] == 'l':
        t = f.locals.get(b[1])
    elif b[0] in GLOBKINDS:
        gi = P.ginfo(f, b[0], b[1])
        t = gi['type'] if gi else None
    if not t or 'arr' not in t or not t.get('size'):
        return None, None
    n = 1
    for d in t['arr']:
        n *= d
    return t['size'], (t['size'] // n if n else None)


def type_bits(P, f, v):
    if v[0] == 'l':
        t = f.locals.get(v[1])
        return t.get('bits', 0) if t else 0
    if v[0] == 'p':
        for p in f.params:
            if p['name'] == v[1]:
                return p['type'].get('bits', 0)
    return 0


def upper_bound_ok(f, bid, i, var, N, inclusive=False):
    """Guard: var < c (c <= N) or var <= c (c < N) or ChkRange(var, lo, hi<N)."""
    lim = N if not inclusive else N + 1

    def want(a):
        if a[0] == 'cmp' and a[2] == var:
            c = const_val(a[3])
            if c is None:
                return False
            if a[1] == '<' and c <= lim:
                return True
            if a[1] == '<=' and c < lim:
                return True
            if a[1] == '==' and c < lim:
                return True
        if a[0] == 'nz' and isinstance(a[1], tuple) and a[1][0] == 'call' and a[1][1] == ('fn', 'ChkRange'):
            args = a[1][2]
            if len(args) == 3 and args[0] == var and const_val(args[2]) is not None and const_val(args[2]) < lim:
                return True
        return False
    return f.guarded(bid, i, lambda l: edge_has_atom(l, want))


def lower_bound_ok(f, bid, i, var):
    def want(a):
        if a[0] == 'cmp' and a[2] == var:
            c = const_val(a[3])
            if c is None:
                return False
            if a[1] == '>=' and c >= 0:
                return True
            if a[1] == '>' and c >= -1:
                return True
            if a[1] == '==' and c >= 0:
                return True
        if a[0] == 'nz' and isinstance(a[1], tuple) and a[1][0] == 'call' and a[1][1] == ('fn', 'ChkRange'):
            args = a[1][2]
            if len(args) == 3 and args[0] == var and (const_val(args[1]) or -1) >= 0:
                return True
        return False
    return f.guarded(bid, i, lambda l: edge_has_atom(l, want))


def assigns_const_in(var, lo, hi):
    def pred(ex):
        for m in walk_own(ex):
            if is_assign(m) and m[1] == '=' and strip(m[2]) == var:
                c = const_val(m[3])
                if c is not None and lo <= c <= hi:
                    return True
        return False
    return pred


def bounded_at(P, f, bid, i, var, N, need_lower, depth=2):
    """var in [0, N-1] at the site: by guards, by clamping assignments, or (for
    a parameter) at every call site."""
    def up_want(a):
        if a[0] == 'cmp' and a[2] == var:
            c = const_val(a[3])
            if c is None:
                return False
            return (a[1] == '<' and c <= N) or (a[1] in ('<=', '==') and c < N)
        if a[0] == 'nz' and isinstance(a[1], tuple) and a[1][0] == 'call' and a[1][1] == ('fn', 'ChkRange'):
            args = a[1][2]
            return len(args) == 3 and args[0] == var and const_val(args[2]) is not None and const_val(args[2]) < N
        return False

    def lo_want(a):
        if a[0] == 'cmp' and a[2] == var:
            c = const_val(a[3])
            if c is None:
                return False
            return (a[1] == '>=' and c >= 0) or (a[1] == '>' and c >= -1) or (a[1] == '==' and c >= 0)
        if a[0] == 'nz' and isinstance(a[1], tuple) and a[1][0] == 'call' and a[1][1] == ('fn', 'ChkRange'):
            args = a[1][2]
            return len(args) == 3 and args[0] == var and (const_val(args[1]) if const_val(args[1]) is not None else -1) >= 0
        return False
    clamp = assigns_const_in(var, 0, N - 1)
    if any((is_incdec(m) or (is_assign(m) and m[1] != '=')) and strip(m[2]) == var for b, j, l, m in f.nodes()):
        clamp = None   # counters are not clamped by their initialisation
    up, w = f.guarded(bid, i, lambda l: edge_has_atom(l, up_want), clamp)
    lo = True
    if need_lower:
        lo, w2 = f.guarded(bid, i, lambda l: edge_has_atom(l, lo_want), clamp)
        if up and not lo:
            w = w2
    if up and lo:
        return True, 'guard/clamp'
    if var[0] == 'p' and depth > 0:
        names = [p['name'] for p in f.params]
        if var[1] in names and not any((is_assign(m) or is_incdec(m)) and strip(m[2]) == var for b, j, l, m in f.nodes()):
            pi = names.index(var[1])
            sites = call_sites(P, f)
            if sites:
                for (g, b2, i2, ln, n, direct) in sites:
                    if pi >= len(n[2]):
                        return False, 'arity'
                    a = nocast(n[2][pi])
                    c = const_val(a)
                    if c is not None:
                        if 0 <= c < N:
                            continue
                        return False, 'constant %d out of range at %s' % (c, g.loc(ln))
                    if a[0] in ('l', 'p'):
                        nl = need_lower
                        ok, why = bounded_at(P, g, b2, i2, a, N, nl, depth - 1)
                        if ok:
                            continue
                        return False, 'argument %s unbounded at %s' % (show(a), g.loc(ln))
                    # not a local/parameter: not an external integer at this
                    # call site (globals are outside the taint scope)
                    continue
                return True, 'bounded at every call site that passes an external integer'
    return False, ' '.join(w[-4:])


def defs_bounded(P, f, bid, i, v, N):
    """Every definition of v that reaches the site is a constant < N, X or
    X - c (X validated <= N by a callee that dominates the site), or a
    decrement."""
    ds = f.reaching_defs(bid, i, v)
    if not ds:
        return False
    nd = 0
    for m in ds:
        if is_incdec(m):
            if m[1] in ('x++', '++x'):
                return False
            continue
        if m[0] == 'decl':
            rhs = m[2]
        else:
            if m[1] == '-=':
                continue
            if m[1] != '=':
                return False
            rhs = m[3]
        nd += 1
        r = nocast(rhs)
        c = const_val(r)
        if c is not None:
            if not (0 <= c < N):
                return False
            continue
        off = 0
        if r[0] == 'b' and r[1] == '-' and const_val(r[3]) is not None and const_val(r[3]) >= 0:
            off = const_val(r[3])
            r = r[2]
        if r[0] in ('l', 'p'):
            ok, cn = validated_by_callee(P, f, bid, i, r, N + off)
            if ok:
                continue
        return False
    return nd > 0


def relational_bound(f, bid, i, var, limit_pred):
    """Guard var < X / var <= X where X satisfies limit_pred(expr)."""
    def want(a):
        return a[0] == 'cmp' and a[2] == var and a[1] in ('<', '<=') and limit_pred(a[3])
    return f.guarded(bid, i, lambda l: edge_has_atom(l, want))


def taints(P, f):
    taint = {}
    for bid, i, ln, n in f.nodes():
        if is_assign(n) or n[0] == 'decl':
            rhs = n[3] if n[0] == 'b' else n[2]
            tgt = strip(n[2]) if n[0] == 'b' else ('l', n[1])
            if rhs is None or not isinstance(tgt, tuple) or tgt[0] not in ('l', 'p'):
                continue
            for m in walk(rhs):
                if m[0] == 'call' and callee_name(m) in SRC:
                    taint.setdefault(tgt, 'result of %s at line %d' % (callee_name(m), ln))
        if n[0] == 'call' and callee_name(n) in FILL:
            for ai in FILL[callee_name(n)]:
                if ai < len(n[2]):
                    a = strip(n[2][ai])
                    if a[0] == 'u' and a[1] == '&' and a[2][0] == 'l':
                        taint.setdefault(a[2], 'filled by %s at line %d' % (callee_name(n), ln))
    if f.name == 'main' and f.params:
        taint[('p', f.params[0]['name'])] = 'argc'
    changed = True
    while changed:
        changed = False
        for bid, i, ln, n in f.nodes():
            if is_assign(n) or n[0] == 'decl':
                rhs = n[3] if n[0] == 'b' else n[2]
                tgt = strip(n[2]) if n[0] == 'b' else ('l', n[1])
                if rhs is None or not isinstance(tgt, tuple) or tgt[0] != 'l' or tgt in taint:
                    continue
                for m in walk(rhs):
                    if m[0] in ('l', 'p') and strip(m) in taint:
                        taint[tgt] = 'derived from %s (%s)' % (m[1], taint[strip(m)])
                        changed = True
                        break
    return taint


def all_taints(P):
    """Local taints plus parameters that receive tainted arguments (bounded
    interprocedural propagation)."""
    T = {}
    for f in P.all_funcs():
        T[f] = taints(P, f)
    for rnd in range(3):
        changed = False
        for f in P.all_funcs():
            tf = T[f]
            if not tf or is_generator(f.unit.name):
                continue
            for bid, i, ln, n in f.nodes():
                if n[0] != 'call':
                    continue
                t = P.resolve(f.unit, callee_name(n) or '')
                if t is None or t is f:
                    continue
                for ai, a in enumerate(n[2]):
                    a2 = nocast(a)
                    if a2 and a2[0] in ('l', 'p') and a2 in tf and ai < len(t.params):
                        pv = ('p', t.params[ai]['name'])
                        if t.params[ai]['type'].get('bits') and pv not in T[t]:
                            T[t][pv] = 'argument %s of %s (%s)' % (a2[1], f.name, tf[a2][:80])
                            changed = True
        if not changed:
            break
        # re-propagate inside callees
        for f in P.all_funcs():
            tf = T[f]
            if not tf:
                continue
            ch = True
            while ch:
                ch = False
                for bid, i, ln, n in f.nodes():
                    if is_assign(n) or n[0] == 'decl':
                        rhs = n[3] if n[0] == 'b' else n[2]
                        tgt = strip(n[2]) if n[0] == 'b' else ('l', n[1])
                        if rhs is None or not isinstance(tgt, tuple) or tgt[0] != 'l' or tgt in tf:
                            continue
                        for m in walk(rhs):
                            if m[0] in ('l', 'p') and strip(m) in tf:
                                tf[tgt] = 'derived from %s (%s)' % (m[1], tf[strip(m)][:80])
                                ch = True
                                break
    return T


def outparam_bounded(P, f, v, N):
    """v is filled through &v by a callee that rejects values >= N before it
    returns (validated at origin)."""
    found = False
    for b2, i2, ln, n in f.nodes():
        if n[0] != 'call':
            continue
        for ai, a in enumerate(n[2]):
            if strip(a) == ('u', '&', v):
                t = P.resolve(f.unit, callee_name(n) or '')
                if t is None or ai >= len(t.params):
                    return False
                pn = t.params[ai]['name']
                deref = ('u', '*', ('p', pn))

                def want(a2):
                    if a2[0] == 'cmp' and a2[2] == deref and a2[1] in ('<', '<='):
                        c = const_val(a2[3])
                        return c is not None and (c <= N if a2[1] == '<' else c < N)
                    return False
                stores = 0
                for b3, i3, l3, m in t.nodes():
                    st = False
                    if is_assign(m) and strip(m[2]) == deref:
                        c = const_val(m[3])
                        if m[1] == '=' and c is not None and 0 <= c < N:
                            stores += 1
                            continue
                        st = True
                    elif m[0] == 'call' and any(strip(x) == ('p', pn) for x in m[2]):
                        st = True
                    if st:
                        stores += 1
                        ok, w = prove.noreturn_or_nz_exit(t, b3, i3, want)
                        if not ok:
                            return False
                if not stores:
                    return False
                found = True
    return found


def loop_bounded_by(f, bid, i, var, taint):
    """var is a loop counter compared `var < T` where T is tainted: the bound
    is then T itself; returns the tainted limit expr or None."""
    lims = []

    def want(a):
        if a[0] == 'cmp' and a[2] == var and a[1] in ('<', '<='):
            lims.append((a[1], a[3]))
            return True
        return False
    ok, w = f.guarded(bid, i, lambda l: edge_has_atom(l, want))
    return ok, lims


def run(chk, facts):
    chk.rule('C03-R3', 'an integer that comes from user expressions, from a code file or from argc reaches a '
             'subscript of a fixed-size array, or a copy length into one, only after tests that bound it on both '
             'sides by the array size (or its type cannot exceed it)', min_instances=25)
    seenf = set()
    agg = {}
    nsinks = 0
    for exe in EXES:
        P = facts.program(exe)
        AT = all_taints(P)
        for f in P.all_funcs():
            if f.qname in seenf:
                continue
            seenf.add(f.qname)
            un = f.unit.name
            if is_generator(un):
                continue
            taint = AT[f]
            if not taint:
                continue
            for bid, i, ln, n in f.nodes():
                if n[0] == 'i':
                    tv = [strip(m) for m in walk(n[2]) if m[0] in ('l', 'p') and strip(m) in taint]
                    if not tv:
                        continue
                    N = array_size(P, f, n[1])
                    key = '%s:%s:%s[%s]' % (un, f.name, show(n[1]), show(n[2]))
                    nsinks += 1
                    ok, why = check_index(P, f, bid, i, n, tv, N, taint)
                    a = agg.setdefault(key, [True, why, f.loc(ln)])
                    if not ok and a[0]:
                        agg[key] = [False, why, f.loc(ln)]
                elif n[0] == 'call' and callee_name(n) in LENFUNCS:
                    di, li = LENFUNCS[callee_name(n)]
                    if li >= len(n[2]):
                        continue
                    tv = [strip(m) for m in walk(n[2][li]) if m[0] in ('l', 'p') and strip(m) in taint]
                    if callee_name(n) in ('fread', 'fwrite') and len(n[2]) > 2:
                        # size * count
                        tv += [strip(m) for m in walk(n[2][1]) if m[0] in ('l', 'p') and strip(m) in taint]
                    if not tv:
                        continue
                    nsinks += 1
                    key = '%s:%s:%s(%s,len=%s)' % (un, f.name, callee_name(n), show(n[2][di]), show(n[2][li]))
                    ok, why = check_len(P, f, bid, i, n, di, li, tv, taint)
                    a = agg.setdefault(key, [True, why, f.loc(ln)])
                    if not ok and a[0]:
                        agg[key] = [False, why, f.loc(ln)]
    for key, (ok, why, loc) in sorted(agg.items()):
        if not ok and key in EXCEPTIONS:
            sup = True
            if key.startswith('p2hex.c:ProcessFile:fread(Buffer'):
                P = facts.program('p2hex')
                sup, sw = global_upper_bounded(P, 'p2hex.c:LineLen', 254)
                if not sup:
                    why = 'supporting check failed: ' + sw
            if sup:
                chk.exception('C03-R3', key, EXCEPTIONS[key])
                ok, why = True, 'listed: ' + EXCEPTIONS[key]
        chk.ob('C03-R3', key, ok, loc, why[:500])
    chk.extra['tainted_sinks'] = nsinks


def check_index(P, f, bid, i, n, tv, N, taint):
    idx = nocast(n[2])
    base = nocast(n[1])
    # argv[z] with z < argc style: pointer parameter indexed below the tainted limit
    if N is None:
        return True, 'array of unknown capacity (pointer, e.g. argv): not decided'
    # simple variable index
    v = idx
    inner_ok = False
    if v[0] == 'u' and v[1] in ('x++', 'x--'):
        v = v[2]
    if v[0] in ('l', 'p'):
        bits = type_bits(P, f, v)
        if bits > 0 and (1 << bits) <= N:
            return True, 'type of %s (%d bits) cannot exceed %d elements' % (v[1], bits, N)
        okb, whyb = bounded_at(P, f, bid, i, v, N, bits < 0)
        if okb:
            return True, 'bounded: ' + whyb
        up, w = upper_bound_ok(f, bid, i, v, N)
        if not up and outparam_bounded(P, f, v, N):
            return True, 'validated at origin by the callee that fills it'
        if not up:
            # relational: v < limit where limit itself is bounded by N
            def lim_ok(x):
                c = const_val(x)
                return c is not None and c <= N
            up, w = relational_bound(f, bid, i, v, lim_ok)
        if not up:
            # v < T with T tainted and T itself bounded (<= N)
            ok, lims = loop_bounded_by(f, bid, i, v, taint)
            if ok:
                for op, lim in lims:
                    if lim[0] in ('l', 'p'):
                        up2, _ = bounded_at(P, f, bid, i, lim, N + (1 if op == '<' else 0), False)
                        if up2:
                            up = True
                        if not up:
                            okc, cn = validated_by_callee(P, f, bid, i, lim, N + (1 if op == '<' else 0))
                            if okc:
                                up = True
                if not up:
                    return False, ('%s[%s]: index bounded only by %s, which is %s and itself unbounded against the %d '
                                   'elements of the array' % (show(base), show(idx), ', '.join(show(x[1]) for x in lims[:2]),
                                                              taint.get(lims[0][1], 'external') if lims else '?', N))
        if not up:
            up = defs_bounded(P, f, bid, i, v, N)
        if not up:
            return False, '%s[%s]: %s (%s) has no upper bound test against %d elements; path %s; %s' % (
                show(base), show(idx), v[1], taint.get(v, '?'), N, ' '.join(w[-4:]), whyb)
        if bits < 0 and 'argc' not in taint.get(v, ''):
            lo, w2 = lower_bound_ok(f, bid, i, v)
            if not lo:
                return False, '%s[%s]: signed %s (%s) has no lower bound test' % (show(base), show(idx), v[1], taint.get(v, '?'))
        return True, 'bounded by guard'
    return True, 'composite index (not decided)'


def min_pattern_ok(r, cap):
    """(c ? a : b) where each branch is a constant <= cap or is bounded by the
    condition with the branch's polarity."""
    if r[0] != '?':
        return False
    for br, pol in ((r[2], True), (r[3], False)):
        c = const_val(br)
        if c is not None:
            if c > cap:
                return False
            continue
        ok = False
        for a in atoms(r[1], pol):
            if a[0] == 'cmp' and a[2] == br and a[1] in ('<', '<='):
                c2 = const_val(a[3])
                if c2 is not None and c2 <= cap:
                    ok = True
        if not ok:
            return False
    return True


def global_upper_bounded(P, gkey, cap):
    """Every store to the global is a constant <= cap, is followed on all
    paths to a successful return by a test that rejects values > cap, or is
    `x += x & c` after such a test."""
    ws = P.write_index().get(gkey, [])
    if not ws:
        return False, 'no stores'
    for (g, how, ln, node, b2, i2) in ws:
        tgt = strip(node[2])

        def want(a, tgt=tgt):
            if a[0] == 'cmp' and a[2] == tgt and a[1] in ('<', '<='):
                c = const_val(a[3])
                return c is not None and c <= cap
            return False
        if how == '=':
            c = const_val(node[3])
            if c is not None and c <= cap:
                continue
            ok, w = g.must_pass(b2, i2, prove._ret_enum('CMDErr'),
                                edge_ok=lambda s, d, l: not (l is not None and edge_has_atom(l, want)))
            if ok:
                continue
            return False, 'store at %s is not bounded by %d' % (g.loc(ln), cap)
        if how == 'op' and is_assign(node) and node[1] == '+=':
            r = nocast(node[3])
            if r[0] == 'b' and r[1] == '&' and const_val(r[3]) == 1 and cap % 2 == 0:
                ok, w = g.guarded(b2, i2, lambda l: edge_has_atom(l, want))
                if ok:
                    continue
        return False, 'store at %s (%s) not understood' % (g.loc(ln), how)
    return True, '%d stores bounded' % len(ws)


def validated_by_callee(P, f, bid, i, v, N):
    """v was passed by value to a callee that only returns when v <= N-1, and
    that call dominates the site."""
    cands = []
    for b2, i2, ln, n in f.nodes():
        if n[0] != 'call':
            continue
        t = P.resolve(f.unit, callee_name(n) or '')
        if t is None:
            continue
        for ai, a in enumerate(n[2]):
            if strip(a) == v and ai < len(t.params):
                pv = ('p', t.params[ai]['name'])

                def want(a2, pv=pv):
                    if a2[0] == 'cmp' and a2[2] == pv and a2[1] in ('<', '<='):
                        c = const_val(a2[3])
                        return c is not None and (c <= N if a2[1] == '<' else c < N)
                    return False
                ok, w = t.guarded(t.exit, 0, lambda l: edge_has_atom(l, want))
                if ok:
                    cands.append((callee_name(n), n))
    for name, calln in cands:
        def is_call(ex, calln=calln):
            return any(m is calln or (m[0] == 'call' and callee_name(m) == name) for m in walk_own(ex))
        ok, w = f.guarded(bid, i, lambda l: False, is_call)
        if ok:
            # v must not be modified in f
            if not any((is_assign(m) or is_incdec(m)) and strip(m[2]) == v for b3, i3, l3, m in f.nodes()):
                return True, name
    return False, None


def check_len(P, f, bid, i, n, di, li, tv, taint):
    dest = nocast(n[2][di])
    total, esz = elem_bytes(P, f, dest)
    L = nocast(n[2][li])
    if total is None:
        if dest[0] in GLOBKINDS and dest[1] in ('BAsmCode', 'WAsmCode', 'DAsmCode'):
            # line code buffer: length must follow SetMaxCodeLen(len) or a MaxCodeLen comparison
            def want(a):
                if a[0] == 'cmp' and a[1] in ('<', '<=') and mentions(a[3], lambda m: var_is(m, {'MaxCodeLen'})):
                    return True
                if a[0] == 'nz' and isinstance(a[1], tuple) and a[1][0] == 'call' and a[1][1] == ('fn', 'SetMaxCodeLen'):
                    return True
                return False
            ok, w = f.guarded(bid, i, lambda l: edge_has_atom(l, want))
            if not ok:
                # constant-capped length not above the initial buffer size
                ini = []
                for g in P.all_funcs():
                    if g.unit.name == 'asmdef.c':
                        for b2, i2, l2, m in g.calls('SetMaxCodeLen'):
                            if const_val(m[2][0]) is not None:
                                ini.append(const_val(m[2][0]))
                cap0 = min(ini) if ini else 0
                for v in tv:
                    defs = [m for b3, i3, l3, m in f.nodes() if is_assign(m) and strip(m[2]) == v and m[1] == '=']
                    if defs and all(min_pattern_ok(nocast(m[3]), cap0) for m in defs):
                        return True, 'length is min(.., c) with c <= initial MaxCodeLen %d' % cap0
            if ok:
                return True, 'follows SetMaxCodeLen / MaxCodeLen test'
            return False, '%s: length %s (%s) into the line buffer without SetMaxCodeLen/MaxCodeLen test' % (
                callee_name(n), show(L), taint.get(tv[0], '?'))
        return True, 'destination of unknown capacity (heap; not decided)'
    mult = 1
    if callee_name(n) in ('fread', 'fwrite'):
        c = const_val(n[2][1])
        if c is None:
            return False, 'non-constant element size'
        mult = c
    for v in tv:
        cap = total // mult
        up, w = upper_bound_ok(f, bid, i, v, cap, inclusive=True)
        if not up:
            # v assigned min(x, sizeof buf) style: every def of v is a constant <= cap or guarded
            defs_ok = True
            ndefs = 0
            for b2, i2, ln, m in f.nodes():
                if is_assign(m) and strip(m[2]) == v and m[1] == '=':
                    ndefs += 1
                    r = nocast(m[3])
                    c = const_val(r)
                    if c is not None and c <= cap:
                        continue
                    if r[0] in ('l', 'p'):
                        u2, _ = upper_bound_ok(f, b2, i2, r, cap, inclusive=True)
                        if u2:
                            continue
                    if min_pattern_ok(r, cap):
                        continue
                    defs_ok = False
            if not (ndefs and defs_ok):
                return False, '%s: length %s (%s) is not bounded by the %d-byte destination %s' % (
                    callee_name(n), show(L), taint.get(v, '?'), total, show(dest))
    return True, 'length bounded by destination capacity'
