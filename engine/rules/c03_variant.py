"""C03-R18: loops whose only progress is "v += step" / "v -= step".

If the exit condition of a loop reads a variable that the body changes only
by adding or subtracting a non-constant step, a step of zero repeats the
iteration with the same state for ever.  For each such loop (core modules,
tools, disassembler) the rule decides whether zero is among the values the
step can have where it is added:

  * a test of the step against zero on every path of the iteration to the
    update settles it;
  * otherwise an interval analysis (sets of integer intervals, flow- and
    path-sensitive for locals, whole-program invariants for globals and
    record fields: the union of everything the program stores into them)
    evaluates the step.  Values that come from the user or from a file
    (expression evaluator, fread/Read2/Read4) are "anything".

A loop is reported only when zero is known to be possible (an explicit
constant, an unclamped external value).  Where the analysis meets something
it does not model (results of other calls, parameters) the loop is counted
as undecided in the evidence and not claimed."""
from core import *
from .common import *

INF = float('inf')
EXT_CALLS = {'EvalStrIntExpression', 'EvalStrIntExpressionWithFlags', 'EvalStrIntExpressionWithResult',
             'EvalStrIntExpressionOffs', 'EvalStrIntExpressionOffsWithFlags', 'EvalStrIntExpressionOffsWithResult',
             'ConstLongInt', 'strtol', 'atoi'}
FILL = {'fread': (0,), 'Read2': (1,), 'Read4': (1,), 'Read8': (1,), 'ReadRecordHeader': (0, 1, 2, 3)}
EXCEPTIONS = {
    'deco68.c:RetrieveData:Count': 'Trans = 0x10000 - Address is 0 only for Address = 0x10000 (argument "address + 1" at the '
                                   'top of memory); that iteration wraps Address to 0 and the next one makes progress',
    'deco87c800.c:RetrieveData:Count': 'as deco68.c:RetrieveData',
    'deco4004.c:RetrieveData:Count': 'as deco68.c:RetrieveData (0x1000)',
    'p2hex.c:ProcessFile:ErgLen': 'the Intel32 bank split "TransLen = Gran * (0x10000 - (ErgStart & 0xffff))" is taken only when '
                                  '(ErgStart & 0xffff) + TransLen / Gran >= 0x10000 with TransLen >= 1 (relational: the product is '
                                  'then between 1 and the old TransLen); Gran is validated non-zero where the header is read',
}


class V:
    """set of integer intervals plus 'unk' (may also be something unmodelled).  'weak' marks intervals that were
    obtained by applying a test to a value nothing was known about: they bound the value from outside (good enough to
    exclude zero) but are no evidence that a particular value occurs."""
    __slots__ = ('iv', 'unk', 'weak')

    def __init__(self, iv=(), unk=False, weak=False):
        self.iv = norm(iv)
        self.unk = unk
        self.weak = weak

    def __eq__(self, o):
        return self.iv == o.iv and self.unk == o.unk and self.weak == o.weak

    def has_zero(self):
        return any(lo <= 0 <= hi for lo, hi in self.iv)

    def __repr__(self):
        return ('{%s}' % ','.join('%s..%s' % (lo, hi) if lo != hi else str(lo) for lo, hi in self.iv)) + ('?' if self.unk else '')


def norm(iv):
    iv = sorted((lo, hi) for lo, hi in iv if lo <= hi)
    out = []
    for lo, hi in iv:
        if out and lo <= out[-1][1] + 1:
            out[-1] = (out[-1][0], max(out[-1][1], hi))
        else:
            out.append((lo, hi))
    if len(out) > 6:
        out = [(out[0][0], out[-1][1])]
    return tuple(out)


UNK = V((), True)
ANY = V(((-INF, INF),), False)


def join(a, b):
    return V(a.iv + b.iv, a.unk or b.unk, a.weak or b.weak)


def lift2(a, b, fn):
    iv = []
    for x in a.iv:
        for y in b.iv:
            r = fn(x, y)
            if r is None:
                return V((), True)
            iv.extend(r if isinstance(r, list) else [r])
    return V(iv, a.unk or b.unk, a.weak or b.weak)


def refine(v, op, c):
    """v restricted to values x with x op c"""
    out = []
    for lo, hi in v.iv:
        if op == '<':
            hi = min(hi, c - 1)
        elif op == '<=':
            hi = min(hi, c)
        elif op == '>':
            lo = max(lo, c + 1)
        elif op == '>=':
            lo = max(lo, c)
        elif op == '==':
            lo, hi = max(lo, c), min(hi, c)
        elif op == '!=':
            if lo == c == hi:
                continue
            if lo == c:
                lo += 1
            elif hi == c:
                hi -= 1
            elif lo < c < hi:
                out.append((lo, c - 1))
                lo = c + 1
        out.append((lo, hi))
    if not v.iv and v.unk:
        # nothing known: the test itself is knowledge
        base = {'<': (-INF, c - 1), '<=': (-INF, c), '>': (c + 1, INF), '>=': (c, INF), '==': (c, c)}.get(op)
        if base:
            return V((base,), False, op != '==')
        if op == '!=':
            return V(((-INF, c - 1), (c + 1, INF)), False, True)
    return V(out, v.unk and op not in ('==',), v.weak)


class Analysis:
    def __init__(self, facts, P):
        self.facts = facts
        self.P = P
        self.ginv = {}
        self.finv = {}
        self.lstate = {}
        self.stack = set()
        self._stores = None

    # ---- whole-program store index
    def stores(self):
        if self._stores is None:
            g, fl = {}, {}
            for f in self.P.all_funcs():
                if f.entry is None:
                    continue
                for b, i, ln, m in f.nodes():
                    if is_assign(m) or is_incdec(m):
                        t = nocast(m[2])
                        if t[0] in ('g', 'gs'):
                            g.setdefault(self.P.gkey(f, t[0], t[1]), []).append((f, b, i, m))
                        elif t[0] == 'm':
                            fl.setdefault(t[2], []).append((f, b, i, m))
                    if m[0] == 'call':
                        for a in m[2]:
                            a = nocast(a)
                            if a[0] == 'u' and a[1] == '&':
                                t = nocast(a[2])
                                if t[0] in ('g', 'gs'):
                                    g.setdefault(self.P.gkey(f, t[0], t[1]), []).append((f, b, i, None))
                                elif t[0] == 'm':
                                    fl.setdefault(t[2], []).append((f, b, i, None))
            self._stores = (g, fl)
        return self._stores

    def width(self, v, bits):
        """value after storing into an integer of `bits` (negative = signed)"""
        if not isinstance(bits, int) or bits == 0 or abs(bits) >= 64:
            return v
        n = abs(bits)
        lo, hi = (-(1 << (n - 1)), (1 << (n - 1)) - 1) if bits < 0 else (0, (1 << n) - 1)
        out = []
        for a, b in v.iv:
            if a >= lo and b <= hi:
                out.append((a, b))
            else:
                out.append((lo, hi))
        return V(out, v.unk, v.weak)

    def store_value(self, f, b, i, m, self_val):
        if m is None:
            return UNK
        if is_incdec(m):
            d = 1 if '+' in m[1] else -1
            return lift2(self_val, V(((d, d),)), lambda x, y: (x[0] + y[0], x[1] + y[1]))
        r0 = nocast(m[3])
        if r0[0] == 'call' and callee_name(r0) in EXT_CALLS:
            return UNK          # stored raw and (usually) validated afterwards: not decided
        rhs = self.eval(f, b, i, m[3])
        if m[1] == '=':
            return rhs
        op = m[1][:-1]
        return self.binop(op, self_val, rhs)

    def global_inv(self, f, kind, name):
        key = self.P.gkey(f, kind, name)
        if key in self.ginv:
            return self.ginv[key]
        if ('g', key) in self.stack:
            return UNK
        self.stack.add(('g', key))
        gi = self.P.ginfo(f, kind, name) or {}
        bits = (gi.get('type') or {}).get('bits')
        # the start value (zero-initialised static storage or an initialiser) is not used as evidence: most globals are
        # written before they are read; it only makes the result 'not fully known'
        v = V((), not self.stores()[0].get(key))
        for it in range(3):
            new = v
            for (g, b, i, m) in self.stores()[0].get(key, []):
                new = join(new, self.width(self.store_value(g, b, i, m, v), bits))
            if new == v:
                break
            v = new
        self.stack.discard(('g', key))
        self.ginv[key] = v
        return v

    def field_inv(self, fld):
        if fld in self.finv:
            return self.finv[fld]
        if ('f', fld) in self.stack:
            return UNK
        self.stack.add(('f', fld))
        sts = self.stores()[1].get(fld, [])
        v = V(()) if sts else UNK
        for it in range(3):
            new = v
            for (g, b, i, m) in sts:
                new = join(new, self.store_value(g, b, i, m, v))
            if new == v:
                break
            v = new
        self.stack.discard(('f', fld))
        self.finv[fld] = v
        return v

    # ---- expressions
    def binop(self, op, a, b):
        if op == '+':
            return lift2(a, b, lambda x, y: (x[0] + y[0], x[1] + y[1]))
        if op == '-':
            return lift2(a, b, lambda x, y: (x[0] - y[1], x[1] - y[0]))
        if op == '*':
            def mul(x, y):
                ps = []
                for p in (x[0], x[1]):
                    for q in (y[0], y[1]):
                        if (p in (INF, -INF) and q == 0) or (q in (INF, -INF) and p == 0):
                            ps.append(0)
                        else:
                            ps.append(p * q)
                return (min(ps), max(ps))
            return lift2(a, b, mul)
        if op == '>>':
            def shr(x, y):
                if y[0] != y[1] or y[0] < 0 or y[0] > 63:
                    return None
                k = int(y[0])
                return (x[0] if x[0] in (INF, -INF) else int(x[0]) >> k, x[1] if x[1] in (INF, -INF) else int(x[1]) >> k)
            return lift2(a, b, shr)
        if op == '<<':
            def shl(x, y):
                if y[0] != y[1] or y[0] < 0 or y[0] > 62:
                    return None
                k = int(y[0])
                return (x[0] if x[0] in (INF, -INF) else int(x[0]) << k, x[1] if x[1] in (INF, -INF) else int(x[1]) << k)
            return lift2(a, b, shl)
        if op == '&':
            def band(x, y):
                if y[0] == y[1] and y[0] >= 0:
                    return (0, y[0]) if not (x[0] == x[1] and x[0] >= 0) else (int(x[0]) & int(y[0]), int(x[0]) & int(y[0]))
                if x[0] == x[1] and x[0] >= 0:
                    return (0, x[0])
                return None
            return lift2(a, b, band)
        if op == '%':
            def mod(x, y):
                if y[0] == y[1] and y[0] > 0:
                    m_ = y[0]
                    if x[0] >= 0:
                        return (0, min(x[1], m_ - 1))
                    return (-(m_ - 1), m_ - 1)
                return None
            return lift2(a, b, mod)
        if op == '/':
            def div(x, y):
                if y[0] == y[1] and y[0] > 0 and x[0] >= 0:
                    return (x[0] // y[0] if x[0] != INF else INF, x[1] // y[0] if x[1] != INF else INF)
                return None
            return lift2(a, b, div)
        return UNK

    def eval(self, f, b, i, e, env=None):
        e0 = e
        while isinstance(e, (list, tuple)) and e and e[0] in ('ref', 'cf'):
            e = e[1]
        if e is None:
            return UNK
        k = e[0]
        if env:
            ne = nocast(e)
            if ne in env:
                return env[ne]
        c = const_val(e)
        if c is not None and isinstance(c, int):
            return V(((c, c),))
        if k == 'cast':
            v = self.eval(f, b, i, e[4], env)
            if e[1] in ('i', 'e') and isinstance(e[2], int):
                return self.width(v, e[2])
            return v
        if k in ('l', 'p'):
            t = (k, e[1])
            if env is not None and t in env:
                return env[t]
            if k == 'p':
                return UNK
            return self.local_at(f, t, b, i)
        if k in ('g', 'gs'):
            return self.global_inv(f, k, e[1])
        if k == 'm':
            return self.field_inv(e[2])
        if k == '?':
            ct, cf_ = self.cond_env(f, b, i, e[1], True, env), self.cond_env(f, b, i, e[1], False, env)
            return join(self.eval(f, b, i, e[2], ct), self.eval(f, b, i, e[3], cf_))
        if k == 'u':
            v = self.eval(f, b, i, e[2], env)
            if e[1] == '-':
                return V(tuple((-hi, -lo) for lo, hi in v.iv), v.unk, v.weak)
            if e[1] == '!':
                return V(((0, 1),))
            return UNK
        if k == 'b':
            if e[1] in ('==', '!=', '<', '>', '<=', '>=', '&&', '||'):
                return V(((0, 1),))
            if e[1] == ',':
                return self.eval(f, b, i, e[3], env)
            if e[1] == '=' or e[1].endswith('='):
                return UNK
            return self.binop(e[1], self.eval(f, b, i, e[2], env), self.eval(f, b, i, e[3], env))
        if k == 'call':
            cn = callee_name(e)
            if cn in EXT_CALLS:
                # the evaluator checks the value against the integer type it is asked for
                if cn.startswith('EvalStrInt') and len(e[2]) > 1:
                    t = e[2][1]
                    while isinstance(t, (list, tuple)) and t and t[0] in ('ref', 'cf', 'cast'):
                        t = t[1] if t[0] != 'cast' else t[4]
                    nm = t[1] if isinstance(t, (list, tuple)) and len(t) > 1 and isinstance(t[1], str) else ''
                    import re as _re
                    mm = _re.match(r'(U|S)?Int(\d+)$', nm)
                    if mm:
                        nb = int(mm.group(2))
                        if mm.group(1) == 'U':
                            return V(((0, (1 << nb) - 1),))
                        if mm.group(1) == 'S':
                            return V(((-(1 << (nb - 1)), (1 << (nb - 1)) - 1),))
                        return V(((-(1 << (nb - 1)), (1 << nb) - 1),))
                return ANY
            if cn == 'strlen':
                return V(((0, INF),))
            if cn == 'abs':
                return V(((0, INF),))
            g = self.P.resolve(f.unit, cn) if cn else None
            if g is not None and g.entry is not None and len(g.blocks) <= 40 and ('c', g.qname) not in self.stack and len(self.stack) < 12:
                self.stack.add(('c', g.qname))
                try:
                    args = [self.eval(f, b, i, a, env) for a in e[2]]
                    res = None
                    for b2, i2, l2, m2 in g.nodes():
                        if m2[0] != 'ret' or m2[1] is None:
                            continue
                        penv = {}
                        for ai, prm in enumerate(g.params):
                            if ai < len(args):
                                penv[('p', prm['name'])] = self.param_at(g, ai, args[ai], b2, i2)
                        v = self.eval(g, b2, i2, m2[1], penv)
                        res = v if res is None else join(res, v)
                    if res is not None:
                        return res
                finally:
                    self.stack.discard(('c', g.qname))
            return UNK
        return UNK

    def cond_env(self, f, b, i, cond, pol, env):
        """environment refined by cond being pol, for locals/params compared with constants"""
        out = dict(env or {})
        for a in atoms(cond, pol):
            if a[0] == 'cmp' and isinstance(a[2], tuple) and a[2] and a[2][0] in ('l', 'p', 'g', 'gs', 'm') and const_val(a[3]) is not None:
                cur = out.get(a[2]) or self.eval(f, b, i, a[2], out)
                out[a[2]] = refine(cur, a[1], const_val(a[3]))
            elif a[0] in ('nz', 'z') and isinstance(a[1], tuple) and a[1] and a[1][0] in ('l', 'p', 'g', 'gs', 'm'):
                cur = out.get(a[1]) or self.eval(f, b, i, a[1], out)
                out[a[1]] = refine(cur, '!=' if a[0] == 'nz' else '==', 0)
            elif a[0] == 'cmp' and isinstance(a[2], tuple) and a[2] and a[2][0] in ('l', 'p') and isinstance(a[3], tuple) and a[3] and a[3][0] in ('l', 'p', 'g', 'gs'):
                # variable against variable: use the other side's bounds
                ov = out.get(a[3]) or self.eval(f, b, i, list(a[3]), out)
                cur = out.get(a[2]) or (self.local_at(f, a[2], b, i) if a[2][0] == 'l' else UNK)
                if ov.iv and not ov.unk:
                    lo, hi = ov.iv[0][0], ov.iv[-1][1]
                    if a[1] in ('<', '<=') and hi != INF:
                        out[a[2]] = refine(cur, a[1], hi)
                    elif a[1] in ('>', '>=') and lo != -INF:
                        out[a[2]] = refine(cur, a[1], lo)
        return out

    # ---- locals: forward dataflow of one local through its function
    def local_states(self, f, L, init=None):
        key = (f.qname, L, repr(init))
        if key in self.lstate:
            return self.lstate[key]
        if ('l', key) in self.stack:
            return None
        self.stack.add(('l', key))
        bits = (f.locals.get(L[1]) or {}).get('bits')
        if L[0] == 'p':
            for prm in f.params:
                if prm['name'] == L[1]:
                    bits = prm['type'].get('bits')
        unsigned = isinstance(bits, int) and bits > 0
        succ = f.succs()
        inn = {f.entry: UNK if init is None else init}
        count = {}
        work = [f.entry]
        self.lstate[key] = None

        def transfer(bb, st, upto=None):
            els = f.blocks[bb]['elems']
            for j, (ln, ex) in enumerate(els):
                if upto is not None and j >= upto:
                    break
                for m in walk_own(ex):
                    if (is_assign(m) or is_incdec(m)) and nocast(m[2]) == L:
                        if is_incdec(m):
                            d = 1 if '+' in m[1] else -1
                            st = lift2(st, V(((d, d),)), lambda x, y: (x[0] + y[0], x[1] + y[1]))
                        elif m[1] == '=':
                            st = self.eval(f, bb, j, m[3], {L: st})
                        else:
                            st = self.binop(m[1][:-1], st, self.eval(f, bb, j, m[3], {L: st}))
                        st = self.width(st, bits)
                    elif m[0] == 'call':
                        for ai, a in enumerate(m[2]):
                            a = nocast(a)
                            if a[0] == 'u' and a[1] == '&' and nocast(a[2]) == L:
                                st = ANY if ai in FILL.get(callee_name(m), ()) else UNK
            return st
        it = 0
        while work:
            it += 1
            if it > 4000:
                break
            bb = work.pop()
            st = transfer(bb, inn[bb])
            for t, l in succ.get(bb, ()):
                o = st
                if l is not None and l[0] in ('T', 'F'):
                    for a in atoms(l[1], l[0] == 'T'):
                        if a[0] == 'cmp' and a[2] == L and const_val(a[3]) is not None:
                            o = refine(o, a[1], const_val(a[3]))
                        elif a[0] == 'nz' and a[1] == L:
                            o = refine(o, '!=', 0)
                            if unsigned:
                                o = refine(o, '>=', 1) if o.iv else V(((1, INF),), False, True)
                        elif a[0] == 'z' and a[1] == L:
                            o = refine(o, '==', 0)
                    if unsigned and o.iv:
                        o = V(tuple((max(lo, 0), hi) for lo, hi in o.iv), o.unk, o.weak)
                old = inn.get(t)
                new = o if old is None else join(old, o)
                if old is None or not (new == old):
                    count[t] = count.get(t, 0) + 1
                    if count[t] > 12 and new.iv:
                        # widen to the bounds of the variable's type
                        if isinstance(bits, int) and 0 < abs(bits) < 64:
                            tlo, thi = (0, (1 << bits) - 1) if bits > 0 else (-(1 << (-bits - 1)), (1 << (-bits - 1)) - 1)
                        else:
                            tlo, thi = -INF, INF
                        new = V(((new.iv[0][0] if count[t] < 20 else tlo, thi),), new.unk, new.weak)
                    inn[t] = new
                    work.append(t)
        self.stack.discard(('l', key))
        self.lstate[key] = (inn, transfer)
        return self.lstate[key]

    def param_at(self, g, idx, init, b, i):
        """value of parameter idx of g at (b, i) when it is `init` on entry"""
        L = ('p', g.params[idx]['name'])
        r = self.local_states(g, L, init)
        if r is None:
            return init
        inn, transfer = r
        if b not in inn:
            return init
        return transfer(b, inn[b], upto=i)

    def local_at(self, f, L, b, i):
        r = self.local_states(f, L)
        if r is None:
            return UNK
        inn, transfer = r
        if b not in inn:
            return UNK
        return transfer(b, inn[b], upto=i)


def candidate_loops(f):
    """(header, body, var, updates[(b, i, ln, node)]) for loops whose condition variable changes only by += / -= of a
    non-constant step inside the body."""
    for h, s0 in f.loops():
        c = f.blocks[h].get('cond')
        if c is None:
            continue
        body = f.loop_body(h, s0)
        cv = set(nocast(x) for x in walk(c) if isinstance(x, (list, tuple)) and x and x[0] in ('l', 'p'))
        cv = {v for v in cv if isinstance(v, tuple)}
        ups = {}
        for b in body:
            for j, (ln, ex) in enumerate(f.blocks[b]['elems']):
                for m in walk_own(ex):
                    if is_assign(m) or is_incdec(m):
                        t = nocast(m[2])
                        if t in cv:
                            ups.setdefault(t, []).append((b, j, ln, m))
                    if m[0] == 'call':
                        for a in m[2]:
                            a = nocast(a)
                            if a[0] == 'u' and a[1] == '&' and nocast(a[2]) in cv:
                                ups.setdefault(nocast(a[2]), []).append((b, j, ln, None))
        for v, us in ups.items():
            if all(m is not None and is_assign(m) and m[1] in ('+=', '-=') and const_val(nocast(m[3])) is None for b, j, ln, m in us):
                yield h, s0, body, v, us


def run(chk, facts, rule='C03-R18'):
    chk.rule(rule, 'a loop whose exit condition reads a variable that the body changes only by adding or subtracting a '
             'non-constant step does not add zero: the step is tested against zero on the way to the update, or interval '
             'analysis (flow-sensitive locals, whole-program invariants of globals and record fields, external values = '
             'anything) excludes zero.  Loops the analysis cannot decide are listed as undecided and not claimed',
             min_instances=6)
    from .c03_bounds import is_generator
    seen = set()
    undecided = []
    n = 0
    for exe in ('asl', 'plist', 'pbind', 'p2bin', 'p2hex', 'alink', 'dasl'):
        P = facts.program(exe)
        A = Analysis(facts, P)
        for f in P.all_funcs():
            if f.entry is None or f.qname in seen:
                continue
            if is_generator(f.unit.name) and not f.unit.name.startswith('deco'):
                continue
            seen.add(f.qname)
            for h, s0, body, v, us in candidate_loops(f):
                key = '%s:%s:%s' % (f.unit.name, f.name, show(v))
                verdicts = []
                for (b, j, ln, m) in us:
                    step = nocast(m[3])
                    # (1) tested against zero on every path of the iteration

                    def nonzero(lab, step=step):
                        return edge_has_atom(lab, lambda a: (a[0] == 'nz' and a[1] == step) or
                                             (a[0] == 'cmp' and a[2] == step and ((a[1] == '!=' and const_val(a[3]) == 0) or
                                                                                (a[1] == '>' and const_val(a[3]) is not None and const_val(a[3]) >= 0) or
                                                                                (a[1] == '>=' and const_val(a[3]) is not None and const_val(a[3]) >= 1))))
                    ok, w = f.guarded(b, j, nonzero, start=s0)
                    if ok:
                        verdicts.append(('ok', 'step tested against zero in the iteration', ln))
                        continue
                    val = A.eval(f, b, j, m[3])
                    if val.has_zero() and not val.weak:
                        verdicts.append(('zero', 'the step %s can be 0 (values %r) when it is added at line %d' % (show(step), val, ln), ln))
                    elif val.unk or not val.iv or val.has_zero():
                        verdicts.append(('unk', 'step %s not decided (%r)' % (show(step), val), ln))
                    else:
                        verdicts.append(('ok', 'step %s in %r' % (show(step), val), ln))
                kinds = {x[0] for x in verdicts}
                if 'zero' in kinds:
                    n += 1
                    if key in EXCEPTIONS:
                        chk.exception(rule, key, EXCEPTIONS[key])
                        chk.ob(rule, key, True, f.loc(verdicts[0][2]), 'listed: ' + EXCEPTIONS[key])
                    else:
                        why = [x[1] for x in verdicts if x[0] == 'zero'][0]
                        chk.ob(rule, key, False, f.loc(verdicts[0][2]),
                               '%s: the loop condition %s then sees the same state again and the loop never ends' % (
                                   why, show(f.blocks[h]['cond'])[:60]))
                elif 'unk' in kinds:
                    undecided.append('%s (%s)' % (key, [x[1] for x in verdicts if x[0] == 'unk'][0]))
                else:
                    n += 1
                    chk.ob(rule, key, True, f.loc(verdicts[0][2]), '; '.join(sorted({x[1] for x in verdicts}))[:200])
    chk.note('C03-R18 undecided loops (not claimed): ' + '; '.join(undecided))
    return n
