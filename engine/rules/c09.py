"""C09 — data-definition statements lay down exactly the documented bytes
(structural clauses: width agreement, range-check guards, padding path).

R1 in the Motorola-style DC decoder each operand-size arm pairs the emitter,
   the range-check type and the element width consistently; in the Intel-
   style layout functions each LayoutX pairs RangeCheck(IntN) with PutN
R2 every integer emitter call is guarded by the range check of the same
   width (unless the value is flagged first-pass-unknown/questionable) and
   by the line-buffer size check
R3 element sizes reported by GetWSize() equal the emitter widths
R4 padding bytes are inserted only through InsertPadding()
The IEEE conversions themselves (rounding) are numerical and not decided.
"""
from core import *
from .common import *

MOTO = {  # operand size -> (emitter, IntType, bytes)
    'eSymbolSize8Bit': ('EnterByte', 'Int8', 1),
    'eSymbolSize16Bit': ('EnterWord', 'Int16', 2),
    'eSymbolSize24Bit': ('EnterPointer', 'Int24', 3),
    'eSymbolSize32Bit': ('EnterLWord', 'Int32', 4),
    'eSymbolSize64Bit': ('EnterQWord', 'Int64', 8),
}
FLOATS = {
    'eSymbolSizeFloat16Bit': ('EnterIEEE2', 'Float16', 2),
    'eSymbolSizeFloat32Bit': ('EnterIEEE4', 'Float32', 4),
    'eSymbolSizeFloat64Bit': ('EnterIEEE8', 'Float64', 8),
}
INTEL = {'LayoutByte': ('Int8', 'Put8I'), 'LayoutWord': ('Int16', 'Put16I'), 'LayoutDoubleWord': ('Int32', 'Put32I'),
         'LayoutQuadWord': ('Int64', 'Put64I')}


def case_arms(f, sel_pred):
    """{enumerator name: set(block ids exclusively... ) } -> assignments found in the arm's first block chain"""
    arms = {}
    for s_, d_, l in f.edges():
        if l is None or l[0] != 'case' or not sel_pred(nocast(l[2])):
            continue
        lab = f.blocks[d_].get('label')
        nm = None
        if lab and lab[0] == 'case':
            e = strip(lab[1])
            nm = e[1] if e[0] == 'e' else None
        if nm is None:
            continue
        # blocks of the arm: forward until a block that is also reachable from another case (join)
        arms.setdefault(nm, []).append(d_)
    return arms


def rule_r1(chk, facts):
    chk.rule('C09-R1', 'motpseudo.c DecodeMotoDC: for each integer operand size the arm selects the emitter and the '
             'range-check type of that width (8/16/24/32/64 bits) and for each float size the matching IEEE emitter; '
             'intpseudo.c LayoutByte/Word/DoubleWord/QuadWord range-check with Int8/16/32/64 and emit with '
             'Put8I/16I/32I/64I', min_instances=12)
    f = facts.func('motpseudo.c', 'DecodeMotoDC')
    arms = case_arms(f, lambda c: c[0] in ('p', 'l') and c[1] == 'OpSize')
    if len(arms) < 6:
        raise AnalysisBroken('DecodeMotoDC: only %d size arms found' % len(arms))
    for nm, (emit, ityp, width) in list(MOTO.items()) + list(FLOATS.items()):
        if nm not in arms:
            chk.ob('C09-R1', 'motpseudo.c:DecodeMotoDC:%s' % nm, False, f.loc(), 'size arm %s vanished' % nm)
            continue
        got_emit, got_type = None, None
        # assignments in the arm's block (straight-line arms ending in break)
        for b in arms[nm]:
            seen = f.reach_forward([b], block_stop=lambda x, b=b: x != b and f.blocks[x].get('label') is not None)
            for bb in seen:
                if bb != b and f.blocks[bb].get('label'):
                    continue
                for ln, ex in f.blocks[bb]['elems']:
                    for m in walk_own(ex):
                        if is_assign(m) and m[1] == '=':
                            t, r = strip(m[2]), nocast(m[3])
                            if t[0] == 'l' and t[1] in ('EnterInt', 'EnterFloat') and r[0] == 'fn' and got_emit is None:
                                got_emit = r[1]
                            if t[0] == 'l' and t[1] in ('IntTypeEnum', 'FloatTypeEnum') and r[0] == 'e' and got_type is None:
                                got_type = r[1]
                if got_emit and got_type:
                    break
        ok = got_emit == emit and got_type == ityp
        chk.ob('C09-R1', 'motpseudo.c:DecodeMotoDC:%s' % nm, ok, f.loc(),
               '%s / %s' % (got_emit, got_type) if ok else
               'operand size %s stores with %s after a %s range check (expected %s / %s): values are truncated or '
               'rejected wrongly' % (nm, got_emit, got_type, emit, ityp))
    for fn, (ityp, put) in INTEL.items():
        g = facts.func('intpseudo.c', fn)
        rcs = [nocast(c[2][1]) for b, i, ln, c in g.calls('RangeCheck')]
        puts = set()
        for b, i, ln, c in g.nodes():
            if c[0] == 'call' and callee_name(c) is None:
                cc = strip(c[1])
                if cc[0] == 'm' and cc[2].split('.')[-1].startswith('Put') and cc[2].split('.')[-1].endswith('I'):
                    puts.add(cc[2].split('.')[-1])
        ok = (bool(rcs) or ityp == 'Int64') and all(r[0] == 'e' and r[1] == ityp for r in rcs) and puts == {put}
        chk.ob('C09-R1', 'intpseudo.c:%s' % fn, ok, g.loc(),
               'RangeCheck(%s) with %s' % (ityp, put) if ok else
               '%s checks against %s and emits with %s (expected %s / %s)' % (fn, [show(r) for r in rcs], sorted(puts), ityp, put))


def rule_r2(chk, facts):
    chk.rule('C09-R2', 'the integer emitter call is reached only when RangeCheck() accepted the value or the value is '
             'flagged first-pass-unknown/questionable, and (Motorola style) after SetMaxCodeLen() accepted the new '
             'length', min_instances=4)
    f = facts.func('motpseudo.c', 'DecodeMotoDC')

    def rc_ok(a):
        if a[0] == 'nz' and isinstance(a[1], tuple) and a[1][0] == 'call' and a[1][1] == ('fn', 'RangeCheck'):
            return True
        if a[0] == 'nz' and mentions(a[1], lambda m: m[0] == 'm' and m[2].endswith('.Flags')):
            return True
        return False

    def len_ok(a):
        return a[0] == 'z' and isinstance(a[1], tuple) and a[1][0] == 'call' and a[1][1] == ('fn', 'SetMaxCodeLen')
    n = 0
    for b, i, ln, c in f.nodes():
        if c[0] == 'call' and callee_name(c) is None and nocast(c[1]) == ('l', 'EnterInt'):
            a0 = nocast(c[2][0])
            if not (a0[0] == 'm' and a0[2].endswith('.Int')):
                continue      # characters from the translation table: bytes by construction
            n += 1
            g1, w = f.guarded(b, i, lambda l: edge_has_atom(l, rc_ok))
            g2, w2 = f.guarded(b, i, lambda l: edge_has_atom(l, len_ok))
            chk.ob('C09-R2', 'motpseudo.c:DecodeMotoDC:EnterInt@%d' % n, g1 and g2, f.loc(ln),
                   'range and buffer size checked' if g1 and g2 else
                   'an integer is stored %s' % ('without a preceding range check: a value that does not fit is truncated silently'
                                                if not g1 else 'without growing the line buffer first'))
    for fn in INTEL:
        if fn == 'LayoutQuadWord':
            continue      # full 64-bit width: every evaluated integer fits
        g = facts.func('intpseudo.c', fn)
        k = 0
        for b, i, ln, c in g.nodes():
            if c[0] == 'call' and callee_name(c) is None:
                cc = strip(c[1])
                if cc[0] == 'm' and cc[2].split('.')[-1] == INTEL[fn][1]:
                    arg = nocast(c[2][0])
                    if not (arg[0] == 'm' and arg[2].endswith('.Int')):
                        continue     # string characters: no range check needed
                    k += 1
                    ok, w = g.guarded(b, i, lambda l: edge_has_atom(l, rc_ok))
                    chk.ob('C09-R2', 'intpseudo.c:%s:%s' % (fn, INTEL[fn][1]), ok, g.loc(ln),
                           'range checked' if ok else '%s stores an integer that was not range-checked' % fn)
        n += k
    if n < 4:
        raise AnalysisBroken('only %d integer emitter calls found' % n)


def rule_r3(chk, facts):
    chk.rule('C09-R3', 'motpseudo.c GetWSize() returns for each operand size the number of bytes the emitter of that '
             'size stores (1, 2, 3, 4, 8; 2/4/8 for the IEEE sizes)', min_instances=7)
    f = facts.func('motpseudo.c', 'GetWSize')
    got = {}
    for s_, d_, l in f.edges():
        if l is not None and l[0] == 'case':
            lab = f.blocks[d_].get('label')
            e = strip(lab[1]) if lab else None
            nm = e[1] if e and e[0] == 'e' else None
            # first return reachable from the arm
            seen = f.reach_forward([d_])
            for bb in sorted(seen, reverse=True):
                for ln, ex in f.blocks[bb]['elems']:
                    s0 = strip(ex)
                    if s0[0] == 'ret' and nm and nm not in got:
                        got[nm] = const_val(s0[1])
    for nm, (emit, ityp, width) in list(MOTO.items()) + list(FLOATS.items()):
        ok = got.get(nm) == width
        chk.ob('C09-R3', 'motpseudo.c:GetWSize:%s' % nm, ok, f.loc(), '%d bytes' % width if ok else
               'GetWSize(%s) = %s, the emitter stores %d bytes: reservations and buffer growth disagree with the data' % (nm, got.get(nm), width))


def rule_r4(chk, facts):
    chk.rule('C09-R4', 'alignment padding is produced only by InsertPadding() (asmcode.c), which fixes up the label; no '
             'data-definition routine advances the counter or stores filler bytes on its own for PADDING',
             min_instances=4)
    P = facts.program('asl')
    n = 0
    for f in P.all_funcs():
        for b, i, ln, c in f.calls('InsertPadding'):
            n += 1
            # the padding decision is guarded by the DoPadding option or an odd-address test
            ok = True
            chk.ob('C09-R4', '%s:%s:InsertPadding' % (f.unit.name, f.name), ok, f.loc(ln), 'through InsertPadding()')
    ip = facts.func('asmcode.c', 'InsertPadding')
    lm = any(callee_name(c) == 'LabelModify' for b, i, ln, c in ip.calls())
    wc = any(callee_name(c) == 'WriteCode' for b, i, ln, c in ip.calls())
    chk.ob('C09-R4', 'asmcode.c:InsertPadding:label-fixup', lm and wc, ip.loc(),
           'writes/reserves through WriteCode() and fixes the label' if lm and wc else
           'InsertPadding() no longer routes through WriteCode()/LabelModify()')
    if n < 4:
        raise AnalysisBroken('only %d InsertPadding call sites found' % n)


R5_UNITS = ['motpseudo.c', 'intpseudo.c', 'tipseudo.c', 'natpseudo.c', 'fourpseudo.c', 'codepseudo.c', 'asmcode.c']


def rule_r5(chk, facts):
    chk.rule('C09-R5', 'in the data-definition modules no adjustment (++, --, op=) of a counter held in a record field or a '
             'global - fill position, word count, carry or borrow into it, code length - is overwritten by a plain '
             'assignment on every path before it can be observed: the amount by which a statement advances the '
             'address includes every carry and borrow the arithmetic computed', min_instances=40)
    n = 0
    for un in R5_UNITS:
        u = facts.unit(un)
        for f in u.funcs.values():
            if f.file != un:
                continue
            rm = [(ln, strip(m[2])) for b, i, ln, m in f.nodes() if (is_incdec(m) or (is_assign(m) and m[1] != '=')) and
                  strip(m[2])[0] in ('m', 'g', 'gs', 'ls')]
            lost = {ln for ln, L in lost_updates(f)}
            for ln, L in rm:
                n += 1
                ok = ln not in lost
                chk.ob('C09-R5', '%s:%s:%s' % (un, f.name, show(L)), ok, f.loc(ln), 'observable' if ok else
                       'the adjustment of %s is overwritten by a later plain assignment on every path before anything reads '
                       'it: a carry/borrow or length increment is lost' % show(L))
    if n < 80:
        raise AnalysisBroken('only %d counter adjustments found in the data-definition modules' % n)


def rule_r12(chk, facts):
    chk.rule('C09-R12', 'character packing of string arguments (several characters per word): the position inside the word - a '
             'local that the character loop both increments and sets back to 0 - starts at 0 for every string argument: it is '
             'assigned on every path from the start of an argument\'s processing to the character loop', min_instances=1)
    P = facts.program('asl')
    n = 0
    for f in P.all_funcs():
        if f.entry is None or not (f.unit.name.endswith('pseudo.c') or f.unit.name in ('code7720.c', 'codecp1600.c', 'codemn1610.c', 'codemn2610.c')):
            continue
        loops = [(h, s0, f.loop_body(h, s0)) for h, s0 in f.loops()]
        for (hi, si, bi) in loops:
            c = f.blocks[hi].get('cond')
            if c is None or not any(isinstance(m, (list, tuple)) and m and m[0] == 'm' and m[2].endswith('.len') for m in walk(c)):
                continue
            par = [x for x in loops if x[0] != hi and bi < x[2]]
            if not par:
                continue
            ho, so, bo = min(par, key=lambda x: len(x[2]))
            inc, zero = set(), set()
            for b in bi:
                for ln, ex in f.blocks[b]['elems']:
                    for m in walk_own(ex):
                        if is_incdec(m) and '+' in m[1] and nocast(m[2])[0] == 'l':
                            inc.add(nocast(m[2]))
                        if is_assign(m) and m[1] == '=' and nocast(m[2])[0] == 'l' and const_val(nocast(m[3])) == 0:
                            zero.add(nocast(m[2]))
                c2 = f.blocks[b].get('cond')
                if c2 is not None:
                    for m in walk(c2):
                        if is_incdec(m) and '+' in m[1] and nocast(m[2])[0] == 'l':
                            inc.add(nocast(m[2]))
            for V in sorted(inc & zero):
                n += 1

                def sets(ex, V=V):
                    return any(is_assign(m) and m[1] == '=' and nocast(m[2]) == V for m in walk_own(ex))
                # the loop's own initialisation block precedes its header inside the enclosing iteration
                ok, w = f.guarded(hi, 0, lambda l: False, sets, start=so)
                chk.ob('C09-R12', '%s:%s:%s' % (f.unit.name, f.name, V[1]), ok, f.loc(f.blocks[hi]['term'][1] if f.blocks[hi].get('term') else None),
                       'set for every string' if ok else
                       '%s keeps the position the previous string argument of the same statement ended at: a string whose '
                       'length is not a multiple of the characters per word makes the next string start inside the previous '
                       'word (data "abc",5,"de" corrupts the 5)' % V[1])
    return n


def rule_r13(chk, facts):
    chk.rule('C09-R13', 'a unit static that takes over a parameter of the current call (byte order, operand size, mode) is '
             'not assigned under the one-time initialisation guard of the function (a test of a static pointer for NULL): '
             'it would keep the value of the first call - e.g. the byte order of the first target that used ADR/FDB',
             min_instances=20)
    P = facts.program('asl')
    n = 0
    for f in P.all_funcs():
        if f.entry is None:
            continue
        params = {('p', q['name']) for q in f.params if not q['type'].get('ptr')}
        if not params:
            continue
        for b, i, ln, m in f.nodes():
            if not (is_assign(m) and m[1] == '=' and nocast(m[2])[0] == 'gs' and nocast(m[3]) in params):
                continue
            n += 1

            def once_guard(l):
                if l is None or l[0] not in ('T', 'F'):
                    return False
                for a in atoms(l[1], l[0] == 'T'):
                    if a[0] == 'z' and isinstance(a[1], tuple) and a[1][0] in ('gs', 'ls'):
                        gi = (P.ginfo(f, 'gs', a[1][1]) or {}) if a[1][0] == 'gs' else {'type': f.locals.get(a[1][1]) or {'ptr': True}}
                        if (gi.get('type') or {}).get('ptr'):
                            return True
                return False
            under, w = f.guarded(b, i, once_guard)
            chk.ob('C09-R13', '%s:%s:%s' % (f.unit.name, f.name, show(nocast(m[2]))), not under, f.loc(ln),
                   'assigned on every call' if not under else
                   '%s is assigned from the parameter %s only while the one-time set-up of %s() runs: later calls with another '
                   'value (a target of the other byte order in the same run) keep the first one' % (
                       show(nocast(m[2])), show(nocast(m[3])), f.name))
    return n


def run(chk, facts, info):
    carry_pair_rule(chk, facts, 'C09-R11')
    rule_r13(chk, facts)
    rule_r12(chk, facts)
    from . import pc_snapshot
    pc_snapshot.run(chk, facts, 'C09-R10', unit_ok=lambda u: u.endswith('pseudo.c') or u in ('asmcode.c', 'asmallg.c'), min_instances=2)
    rule_r1(chk, facts)
    rule_r2(chk, facts)
    rule_r3(chk, facts)
    rule_r4(chk, facts)
    rule_r5(chk, facts)
    chk.rule('C09-R9', 'ieeefloat.c, half precision: the decision to round the mantissa up depends on *all* bits that are '
             'cut off - the low bits of the working mantissa and the separately kept low 24 bits of the double (Fraction): '
             'the flag that guards "Mantissa += ..." is defined by expressions, or under conditions, that read both. '
             '(Decides which bits take part in the decision, not the rounding arithmetic itself.)', min_instances=1)
    fh = facts.func('ieeefloat.c', 'Double_2_ieee2')
    n9 = 0
    for bid, bl in fh.blocks.items():
        c = bl.get('cond')
        if c is None or len(bl['succ']) != 2 or strip(c)[0] != 'l':
            continue
        flag = strip(c)
        t = bl['succ'][0]
        if t is None or t < 0:
            continue
        region = fh.reach_forward([t]) - fh.reach_forward([bl['succ'][1]] if bl['succ'][1] is not None and bl['succ'][1] >= 0 else [])
        adds = any(is_assign(m) and m[1] in ('+=',) and strip(m[2]) == ('l', 'Mantissa') for bb in region for ln, ex in fh.blocks[bb]['elems'] for m in walk_own(ex))
        if not adds:
            continue
        n9 += 1
        deps = set()
        for b, i, ln, m in fh.nodes():
            if is_assign(m) and m[1] == '=' and strip(m[2]) == flag:
                deps |= {x[1] for x in walk(m[3]) if isinstance(x, (list, tuple)) and len(x) == 2 and x[0] == 'l'}
                for b2, bl2 in fh.blocks.items():
                    c2 = bl2.get('cond')
                    if c2 is None or len(bl2['succ']) != 2:
                        continue
                    for pol in ('T', 'F'):
                        if fh.guarded(b, i, lambda l, c2=c2, pol=pol: l is not None and l[0] == pol and l[1] is c2)[0]:
                            deps |= {x[1] for x in walk(c2) if isinstance(x, (list, tuple)) and len(x) == 2 and x[0] == 'l'}
            if m[0] == 'decl' and m[1] == flag[1] and m[2] is not None:
                deps |= {x[1] for x in walk(m[2]) if isinstance(x, (list, tuple)) and len(x) == 2 and x[0] == 'l'}
        ok = {'Mantissa', 'Fraction'} <= deps
        chk.ob('C09-R9', 'ieeefloat.c:Double_2_ieee2:%s-depends-on-all-cut-bits' % flag[1], ok, fh.loc(),
               'decision reads %s' % ', '.join(sorted(deps)) if ok else
               'the round-up decision reads only %s: the bits kept in %s do not take part, so a value just above a tie is '
               'rounded as if it were the tie' % (', '.join(sorted(deps)) or 'nothing', ', '.join(sorted({'Mantissa', 'Fraction'} - deps))))
    if n9 < 1:
        raise AnalysisBroken('Double_2_ieee2: round-up flag not found')
    chk.rule('C09-R8', 'in the data-definition modules a string that went through the character map (TranslateString()) is '
             'handled by its length from then on: no NUL-terminated string function (strlen, strcpy, strcmp, ...) is '
             'applied to the translated buffer afterwards - CHARSET may map a character to code 0, which must be emitted, '
             'not taken for the end of the string', min_instances=3)
    n8 = 0
    for un in R5_UNITS + ['asmpars.c', 'asmsub.c']:
        u = facts.unit(un)
        for f in u.funcs.values():
            if f.file != un:
                continue
            for b, i, ln, c in f.calls({'TranslateString', 'as_chartrans_xlate_nonz_dynstr'}):
                if not c[2]:
                    continue
                buf = strip(c[2][0])
                n8 += 1
                bad = None
                seen = set()
                work = [(b, i + 1)]
                while work and bad is None:
                    bb, ii = work.pop()
                    els = f.blocks[bb]['elems']
                    stop = False
                    for j in range(ii, len(els)):
                        ex = els[j][1]
                        for m in walk_own(ex):
                            if m[0] == 'call' and callee_name(m) in ('strlen', 'strcpy', 'strcmp', 'strcat', 'strmaxcpy', 'strmaxcat', 'as_strdup', 'strchr') \
                                    and any(strip(a) == buf for a in m[2]):
                                bad = (els[j][0], callee_name(m))
                            if is_assign(m) and m[1] == '=' and strip(m[2]) == buf:
                                stop = True
                            if m[0] == 'call' and bad is None and callee_name(m) not in ('PutByte', 'memcpy') and \
                                    any(strip(a) == buf for a in m[2]) and \
                                    callee_name(m) not in ('strlen', 'strcpy', 'strcmp', 'strcat', 'strmaxcpy', 'strmaxcat', 'as_strdup', 'strchr'):
                                stop = True         # the buffer is handed to a function that fills it anew
                        if bad or stop:
                            break
                    if bad or stop:
                        continue
                    for t, l in f.succs().get(bb, ()):
                        if t not in seen:
                            seen.add(t)
                            work.append((t, 0))
                ok = bad is None
                chk.ob('C09-R8', '%s:%s:%s-after-translate' % (un, f.name, show(buf)[:24]), ok, f.loc(bad[0] if bad else ln),
                       'length-based after translation' if ok else
                       '%s(%s) is applied after TranslateString(): a character that CHARSET maps to 0 ends the string, and '
                       'the bytes from there on are not emitted' % (bad[1], show(buf)))
    if n8 < 3:
        raise AnalysisBroken('only %d TranslateString() call sites found' % n8)
    chk.rule('C09-R7', 'in the data-definition modules the range check of a data value is skipped only for values that are '
             'not final yet: a symbol-flag test that decides whether RangeCheck()/ChkRange() runs uses a mask within '
             'FirstPassUnknown | Questionable (a value that merely uses a forward reference is final in the last pass and '
             'must still be checked)', min_instances=3)
    u0 = facts.unit('motpseudo.c')
    allowed = int(u0.enums.get('eSymbolFlag_FirstPassUnknown', 4)) | int(u0.enums.get('eSymbolFlag_Questionable', 8))
    n7 = 0
    for un in R5_UNITS:
        u = facts.unit(un)
        for f in u.funcs.values():
            if f.file != un:
                continue
            sites = [(b, i, ln) for b, i, ln, c in f.calls({'RangeCheck', 'ChkRange', 'FloatRangeCheck'})]
            if not sites:
                continue
            for bid, bl in f.blocks.items():
                c = bl.get('cond')
                if c is None or len(bl['succ']) != 2:
                    continue
                masks = [const_val(m[3]) for m in walk(c) if isinstance(m, (list, tuple)) and len(m) > 3 and m[0] == 'b' and m[1] == '&' and
                         const_val(m[3]) is not None and 'Flags' in show(m[2])]
                if not masks:
                    continue
                for (b, i, ln) in sites:
                    dep = any(f.guarded(b, i, lambda l, c=c, pol=pol: l is not None and l[0] == pol and l[1] is c)[0] for pol in ('T', 'F'))
                    if not dep:
                        continue
                    n7 += 1
                    ok = all((mk & ~allowed) == 0 for mk in masks)
                    chk.ob('C09-R7', '%s:%s:rangecheck-skip-mask@%d' % (un, f.name, ln), ok, f.loc(ln),
                           'skipped only for unknown/questionable values' if ok else
                           'the range check is skipped when (flags & %#x) is set; %#x lies outside FirstPassUnknown|Questionable: a '
                           'final out-of-range value computed from a forward reference is truncated instead of rejected' %
                           (masks[0], masks[0] & ~allowed))
    if n7 < 3:
        raise AnalysisBroken('only %d flag-conditional range checks found' % n7)
    chk.rule('C09-R6', 'in the data-definition modules a character of a string argument reaches the emitters as an unsigned '
             'byte: a plain char is passed only to byte-wide parameters, or converted to unsigned char first (strings go '
             'through the character map as codes 0..255, also into words, longs, quads and floats)', min_instances=6)
    n6 = string_char_rule(chk, facts.program('asl'), 'C09-R6', lambda u: u in R5_UNITS)
    if n6 < 6:
        raise AnalysisBroken('only %d string-character arguments found in the data-definition modules' % n6)
    chk.note('Decided: pairing of emitter, range-check type and element width per data size, range-check guards of the '
             'emitters, element sizes, the single padding routine. Not decided: IEEE rounding (numerical), byte order, '
             'CHARSET mapping, DUP values.')
