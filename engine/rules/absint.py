"""Constant propagation through small functions (no execution: an abstract
evaluator over the extracted CFG facts).  Values are Python ints, ('ptr',
string, offset) for pointers into a known NUL-terminated constant string, or
None (unknown).  Control flow is followed only where the branch condition is
known; anything else yields None, i.e. "cannot tell"."""
from core import *

UNKNOWN = None


class GiveUp(Exception):
    pass


def _truth(v):
    if v is None:
        return None
    if isinstance(v, tuple):
        return True            # pointer into an object: non-null
    return v != 0


class Eval:
    def __init__(self, P, depth=4, steps=400):
        self.P = P
        self.depth = depth
        self.steps = steps

    def call(self, f, args, depth=None):
        """Value returned by f for abstract arguments args (list), or None."""
        depth = self.depth if depth is None else depth
        if depth <= 0 or f.entry is None:
            return None
        env = {}
        for p, a in zip(f.params, args):
            env[('p', p['name'])] = a
        cache = {}
        b = f.entry
        n = 0
        try:
            while True:
                n += 1
                if n > self.steps:
                    return None
                bl = f.blocks[b]
                for ln, ex in bl['elems']:
                    e = ex
                    while isinstance(e, (list, tuple)) and e and e[0] in ('ref', 'cf'):
                        e = e[1]
                    if e[0] == 'ret':
                        return self.ev(f, e[1], env, cache, depth) if e[1] is not None else None
                    v = self.ev(f, e, env, cache, depth)
                    cache[repr(e)] = v
                succ = [s for s in bl['succ']]
                lab = f.succs().get(b, ())
                if any(l is not None and l[0] in ('case', 'default') for t, l in lab):
                    sw = [l for t, l in lab if l is not None and l[0] in ('case', 'default')]
                    expr = sw[0][2] if sw[0][0] == 'case' else sw[0][1]
                    v = self.ev(f, expr, env, cache, depth)
                    if not isinstance(v, int):
                        return None
                    nb = None
                    for t, l in lab:
                        if l is not None and l[0] == 'case' and v in l[1]:
                            nb = t
                    if nb is None:
                        for t, l in lab:
                            if l is not None and l[0] == 'default':
                                nb = t
                    if nb is None or nb < 0:
                        return None
                    b = nb
                elif len(succ) == 1:
                    if succ[0] is None or succ[0] < 0:
                        return None
                    b = succ[0]
                elif len(succ) == 2 and bl.get('cond') is not None:
                    t = _truth(self.ev(f, bl['cond'], env, cache, depth))
                    if t is None:
                        return None
                    nb = succ[0] if t else succ[1]
                    if nb is None or nb < 0:
                        return None
                    b = nb
                else:
                    return None
        except GiveUp:
            return None

    def ev(self, f, e, env, cache, depth):
        if e is None:
            return None
        k = e[0]
        if k in ('ref', 'cf'):
            key = repr(e[1])
            if k == 'ref' and key in cache:
                return cache[key]
            return self.ev(f, e[1], env, cache, depth)
        if k == 'c':
            return e[1]
        if k == 'e':
            return e[2]
        if k == 's':
            return ('ptr', e[1], 0)
        if k in ('l', 'p'):
            return env.get((k, e[1]))
        if k == 'cast':
            v = self.ev(f, e[4], env, cache, depth)
            if isinstance(v, int) and e[1] in ('i', 'e') and isinstance(e[2], int) and 0 < abs(e[2]) < 64:
                bits = abs(e[2])
                v &= (1 << bits) - 1
                if e[2] < 0 and v >= 1 << (bits - 1):
                    v -= 1 << bits
            return v
        if k == 'decl' or k == 'sdecl':
            if k == 'sdecl':
                raise GiveUp()
            env[('l', e[1])] = self.ev(f, e[2], env, cache, depth) if e[2] is not None else None
            return None
        if k == '?':
            t = _truth(self.ev(f, e[1], env, cache, depth))
            if t is None:
                return None
            return self.ev(f, e[2] if t else e[3], env, cache, depth)
        if k == 'u':
            op = e[1]
            if op in ('x++', 'x--', '++x', '--x'):
                t = strip(e[2])
                old = self.ev(f, e[2], env, cache, depth)
                if t[0] not in ('l', 'p'):
                    raise GiveUp()
                d = 1 if '+' in op else -1
                new = None
                if isinstance(old, int):
                    new = old + d
                elif isinstance(old, tuple):
                    new = ('ptr', old[1], old[2] + d)
                env[t] = new
                return old if op[0] == 'x' else new
            v = self.ev(f, e[2], env, cache, depth)
            if op == '*':
                if isinstance(v, tuple):
                    s_, o = v[1], v[2]
                    if 0 <= o < len(s_):
                        return ord(s_[o])
                    if o == len(s_):
                        return 0
                return None
            if op == '!':
                t = _truth(v)
                return None if t is None else int(not t)
            if op == '-':
                return -v if isinstance(v, int) else None
            if op == '~':
                return ~v if isinstance(v, int) else None
            if op == '&':
                return None
            return None
        if k == 'i':
            base = self.ev(f, e[1], env, cache, depth)
            idx = self.ev(f, e[2], env, cache, depth)
            if isinstance(base, tuple) and isinstance(idx, int):
                o = base[2] + idx
                if 0 <= o < len(base[1]):
                    return ord(base[1][o])
                if o == len(base[1]):
                    return 0
            return None
        if k == 'b':
            op = e[1]
            if op == '=':
                t = strip(e[2])
                v = self.ev(f, e[3], env, cache, depth)
                if t[0] in ('l', 'p'):
                    env[t] = v
                    return v
                raise GiveUp()            # store to memory we do not model
            if op.endswith('=') and op not in ('==', '!=', '<=', '>='):
                t = strip(e[2])
                if t[0] in ('l', 'p'):
                    env[t] = None
                    return None
                raise GiveUp()
            if op == '&&':
                a = _truth(self.ev(f, e[2], env, cache, depth))
                if a is False:
                    return 0
                b = _truth(self.ev(f, e[3], env, cache, depth))
                if b is False and a is not None:
                    return 0
                if a is None or b is None:
                    return 0 if b is False and False else None
                return int(a and b)
            if op == '||':
                a = _truth(self.ev(f, e[2], env, cache, depth))
                if a is True:
                    return 1
                b = _truth(self.ev(f, e[3], env, cache, depth))
                if a is None or b is None:
                    return None
                return int(a or b)
            a = self.ev(f, e[2], env, cache, depth)
            b = self.ev(f, e[3], env, cache, depth)
            if op == ',':
                return b
            if op in ('==', '!='):
                if a is None or b is None:
                    return None
                if isinstance(a, tuple) and isinstance(b, int):
                    r = False if b == 0 else None
                elif isinstance(b, tuple) and isinstance(a, int):
                    r = False if a == 0 else None
                elif isinstance(a, tuple) and isinstance(b, tuple):
                    r = (a == b) if a[1] == b[1] else None
                else:
                    r = a == b
                if r is None:
                    return None
                return int(r if op == '==' else not r)
            if isinstance(a, tuple) and isinstance(b, int) and op in ('+', '-'):
                return ('ptr', a[1], a[2] + (b if op == '+' else -b))
            if isinstance(a, int) and isinstance(b, int):
                try:
                    return {'+': lambda: a + b, '-': lambda: a - b, '*': lambda: a * b, '&': lambda: a & b,
                            '|': lambda: a | b, '^': lambda: a ^ b, '<': lambda: int(a < b), '>': lambda: int(a > b),
                            '<=': lambda: int(a <= b), '>=': lambda: int(a >= b), '<<': lambda: a << b if 0 <= b < 64 else None,
                            '>>': lambda: a >> b if 0 <= b < 64 else None}.get(op, lambda: None)()
                except Exception:
                    return None
            return None
        if k == 'call':
            cn = callee_name(e)
            args = [self.ev(f, a, env, cache, depth) for a in e[2]]
            if cn == 'strlen' and args and isinstance(args[0], tuple):
                return max(0, len(args[0][1]) - args[0][2])
            g = self.P.resolve(f.unit, cn) if cn else None
            if g is None:
                return None
            return self.call(g, args, depth - 1)
        if k in ('m', 'g', 'gs', 'ls', 'fn', 'il'):
            return None
        return None
