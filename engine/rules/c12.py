"""C12 — conditional assembly selects exactly the documented branch
(structural clauses).

R1 the (state, event) relation extracted from the handlers equals the
   documented protocol: legal events perform the documented transition, every
   other event reaches an error call
R2 the construct-stack head is null-guarded in every handler (C03-R2)
R3 IfAsm can only be narrowed by an inner construct
R4 every effectful dispatch of the line decoder is guarded by IfAsm
R5 loops over the argument list step their index exactly once per iteration
R6 every construct stack has an end-of-pass balance check
"""
from core import *
from .common import *
from .c06 import specialise

STATES = ['IfState_IFIF', 'IfState_IFELSE', 'IfState_CASESWITCH', 'IfState_CASECASE', 'IfState_CASEELSE']

# event handler -> {state: next state or 'pop'}; everything else is an error
PROTOCOL = {
    'CodeELSEIF': {'IfState_IFIF': ('IfState_IFELSE', 'IfState_IFIF')},          # ELSE -> IFELSE, ELSEIF cond -> stays IFIF
    'CodeENDIF': {'IfState_IFIF': 'pop', 'IfState_IFELSE': 'pop'},
    'CodeCASE': {'IfState_CASESWITCH': 'IfState_CASECASE', 'IfState_CASECASE': 'IfState_CASECASE'},
    'CodeELSECASE': {'IfState_CASESWITCH': 'IfState_CASEELSE', 'IfState_CASECASE': 'IfState_CASEELSE'},
    'CodeENDCASE': {'IfState_CASESWITCH': 'pop', 'IfState_CASECASE': 'pop', 'IfState_CASEELSE': 'pop'},
}
STATE_EXPR = ('m', ('g', 'FirstIfSave'), 'tag_TIfSave.State', 1)


def is_error_call(ex):
    for m in walk_own(ex):
        if m[0] == 'call' and callee_name(m) in ('WrError', 'WrXError', 'WrStrErrorPos', 'WrXErrorPos'):
            return True
    return False


def argcnt_ok_edges(s, d, l):
    """Assume the argument count is acceptable (the error under test is the
    state, not the operand count)."""
    if l is None:
        return True
    if l[0] in ('T', 'F'):
        for a in atoms(l[1], l[0] == 'T'):
            if a[0] == 'z' and isinstance(a[1], tuple) and a[1][0] == 'call' and a[1][1][1].startswith('ChkArgCnt'):
                return False
            if a[0] in ('z',) and a[1] == ('g', 'FirstIfSave'):
                return False   # the stack is non-empty in every state
    return True


def rule_r1(chk, facts, u):
    chk.rule('C12-R1', 'asmif.c: for every handler and every construct state, a legal event performs exactly the '
             'documented transition (new state / pop) and raises no state error; an illegal event reaches an error '
             'call on every path; IF* push IFIF and SWITCH pushes CASESWITCH', min_instances=25)
    vals = {n: int(u.enums[n]) for n in STATES}
    for hn, proto in PROTOCOL.items():
        f = facts.func('asmif.c', hn)
        state_writes = []
        pops = []
        for b, i, ln, n in f.nodes():
            if is_assign(n) and n[1] == '=':
                t = strip(n[2])
                if t == STATE_EXPR:
                    state_writes.append((b, i, ln, nocast(n[3])))
                elif t == ('g', 'FirstIfSave'):
                    pops.append((b, i, ln))
            elif n[0] == 'call' and callee_name(n):
                # a helper of the module that unlinks the head on every path counts as the pop
                g = u.funcs.get(callee_name(n))
                if g is not None and g.file == 'asmif.c' and g.name not in PROTOCOL and g.entry is not None and \
                        g.must_pass(g.entry, -1, lambda ex: any(is_assign(m) and m[1] == '=' and strip(m[2]) == ('g', 'FirstIfSave') and
                                                                  nocast(m[3])[0] == 'm' and nocast(m[3])[2].endswith('.Next')
                                                                  for m in walk_own(ex)))[0]:
                    pops.append((b, i, ln))
        for sn in STATES:
            k = vals[sn]
            sp = specialise(STATE_EXPR, k)

            def eok(s, d, l, sp=sp):
                return sp(s, d, l) and argcnt_ok_edges(s, d, l)
            seen = f.reach_forward([f.entry], eok)
            key = 'asmif.c:%s:%s' % (hn, sn.replace('IfState_', ''))
            reached_w = [(ln, v) for (b, i, ln, v) in state_writes if b in seen]
            reached_p = [ln for (b, i, ln) in pops if b in seen]
            err_blocks = [b for b in seen if any(is_error_call(ex) for l2, ex in f.blocks[b]['elems'])]
            if sn in proto:
                want = proto[sn]
                if want == 'pop':
                    ok = bool(reached_p) and not reached_w and not err_state_error(f, seen, eok)
                    det = 'pops the construct' if ok else 'expected a pop without state error (pops %s, state writes %s)' % (
                        reached_p, reached_w)
                else:
                    wants = want if isinstance(want, tuple) else (want,)
                    got = {v[1] if v[0] == 'e' else show(v) for (ln, v) in reached_w}
                    # staying in the same state needs no write
                    got_eff = got | ({sn} if sn in wants else set())
                    ok = got <= set(wants) and bool(got_eff & set(wants)) and not reached_p \
                        and not err_state_error(f, seen, eok)
                    det = ('transition to %s' % sorted(got_eff & set(wants))) if ok else (
                        'expected transition to %s, found state writes %s, pops %s' % (list(wants), sorted(got), reached_p))
                chk.ob('C12-R1', key, ok, f.loc(), det)
            else:
                # illegal: every path to exit passes an error call, and no pop
                okm, w = f.must_pass(f.entry, -1, is_error_call, edge_ok=eok)
                ok = okm and not reached_p
                chk.ob('C12-R1', key, ok, f.loc(),
                       'rejected with an error' if ok else
                       ('misplaced %s in state %s is accepted silently on path %s' % (hn[4:], sn, ' '.join(w[-5:]))
                        if not okm else 'misplaced %s in state %s pops the construct' % (hn[4:], sn)))
    # pushes
    push = facts.func('asmif.c', 'PushIF')
    ok = any(callee_name(n) == 'ifsave_create' and nocast(n[2][0])[:2] == ('e', 'IfState_IFIF') for b, i, ln, n in push.calls())
    chk.ob('C12-R1', 'asmif.c:PushIF:initial-state', ok, push.loc(), 'IF* constructs start in IFIF')
    sw = facts.func('asmif.c', 'CodeSWITCH')
    ok = any(callee_name(n) == 'ifsave_create' and nocast(n[2][0])[:2] == ('e', 'IfState_CASESWITCH') for b, i, ln, n in sw.calls())
    chk.ob('C12-R1', 'asmif.c:CodeSWITCH:initial-state', ok, sw.loc(), 'SWITCH starts in CASESWITCH')
    for hn in ('CodeIF', 'CodeIFDEF', 'CodeIFUSED', 'CodeIFEXIST', 'CodeIFB'):
        f = facts.func('asmif.c', hn)
        okm, w = f.must_pass(f.entry, -1, lambda ex: any(m[0] == 'call' and callee_name(m) == 'PushIF' for m in walk_own(ex)))
        chk.ob('C12-R1', 'asmif.c:%s:pushes' % hn, okm, f.loc(),
               'pushes exactly on every path (also while skipping)' if okm else
               '%s can return without pushing the construct: the matching ENDIF then closes an outer one; path %s'
               % (hn, ' '.join(w[-5:])))


def err_state_error(f, seen, eok):
    """In a legal state no InvIfConst/MissingIf error may be reachable."""
    for b in seen:
        for ln, ex in f.blocks[b]['elems']:
            for m in walk_own(ex):
                if m[0] == 'call' and callee_name(m) == 'WrError':
                    a = nocast(m[2][0])
                    if a[0] == 'e' and a[1] in ('ErrNum_InvIfConst', 'ErrNum_MissingIf'):
                        return True
    return False


BODYSET = [set()]


def rule_r3(chk, facts, u):
    P = facts.program('asl')
    BODYSET[0] = asl_phases(facts, P)['BODY']
    chk.rule('C12-R3', 'asmif.c: every assignment to IfAsm either restores the saved outer value, has IfAsm/SaveIfAsm '
             'as a conjunct, or is guarded by SaveIfAsm: a construct can only narrow what its parent enabled; '
             'CaseFound is only ever set to true after creation', min_instances=6)
    for f in u.funcs.values():
        if f.file != 'asmif.c':
            continue
        for b, i, ln, n in f.nodes():
            if is_assign(n) and strip(n[2]) == ('g', 'IfAsm'):
                r = nocast(n[3])
                key = 'asmif.c:%s:IfAsm=%s' % (f.name, show(r)[:60])
                if f not in BODYSET[0] and const_val(r) == 1:
                    chk.ob('C12-R3', key, True, f.loc(ln), 'initial value set outside the body of a pass')
                    continue

                def conj(e):
                    if e[0] == 'b' and e[1] == '&&':
                        return conj(e[2]) + conj(e[3])
                    return [e]

                def is_outer(e):
                    return e == ('g', 'IfAsm') or (e[0] == 'm' and e[2].endswith('.SaveIfAsm'))
                ok = any(is_outer(c) for c in conj(r))
                how = 'outer value is a conjunct'
                if not ok:
                    g, w = f.guarded(b, i, lambda l: edge_has_atom(l, lambda a: a[0] == 'nz' and a[1][0] == 'm' and a[1][2].endswith('.SaveIfAsm')))
                    ok = g
                    how = 'guarded by SaveIfAsm'
                chk.ob('C12-R3', key, ok, f.loc(ln), how if ok else
                       'IfAsm is assigned %s, which can enable assembly inside a disabled parent construct' % show(r))
            if is_assign(n) and strip(n[2])[0] == 'm' and strip(n[2])[2].endswith('.CaseFound'):
                ok = n[1] == '=' and (const_val(n[3]) == 1 or f.name == 'ifsave_create')
                chk.ob('C12-R3', 'asmif.c:%s:CaseFound' % f.name, ok, f.loc(ln),
                       'only set to true' if ok else 'CaseFound is reset to %s' % show(n[3]))


EFFECTS = {'LabelHandle', 'ExpandMacro', 'ExpandStruct', 'CodeGlobalPseudo'}
EFFECT_SLOTS = {'MakeCode', 'DecodeAttrPart'}


def rule_r4(chk, facts):
    chk.rule('C12-R4', 'as.c Produce_Code: label definition, macro call, structure expansion, pseudo-instruction and '
             'machine-instruction decoding are reached only on paths on which IfAsm is true; the conditional '
             'dispatcher CodeIFs() is called on every line regardless of IfAsm', min_instances=6)
    f = facts.func('as.c', 'Produce_Code')
    guard = nz_guard(('g', 'IfAsm'))
    n_ = 0
    for b, i, ln, n in f.calls():
        cn = callee_name(n)
        tgt = None
        if cn in EFFECTS:
            tgt = cn
        elif cn is None:
            c = nocast(n[1])
            if c[0] == 'g' and c[1] in EFFECT_SLOTS:
                tgt = c[1]
        if tgt is None:
            continue
        n_ += 1
        ok, w = f.guarded(b, i, guard)
        chk.ob('C12-R4', 'as.c:Produce_Code:%s' % tgt, ok, f.loc(ln),
               'guarded by IfAsm' if ok else
               '%s is reachable while IfAsm is false: statements in a skipped branch take effect; path %s' % (tgt, ' '.join(w[-6:])))
    if n_ < 5:
        raise AnalysisBroken('Produce_Code: effect calls not found (%d)' % n_)
    # CodeIFs not guarded by IfAsm
    for b, i, ln, n in f.calls('CodeIFs'):
        seen = f.reach_forward([f.entry], lambda s, d, l: not (l is not None and l[0] in ('T', 'F') and any(
            a[0] == 'nz' and a[1] == ('g', 'IfAsm') for a in atoms(l[1], l[0] == 'T'))))
        chk.ob('C12-R4', 'as.c:Produce_Code:CodeIFs-while-skipping', b in seen, f.loc(ln),
               'dispatcher reachable with IfAsm false' if b in seen else
               'CodeIFs() is only reachable when IfAsm is true: ELSE/ENDIF of a skipped branch are never seen')


def rule_r5(chk, facts, u):
    chk.rule('C12-R5', 'asmif.c: in every counting loop the index variable is modified only by the loop\'s own '
             'increment (each argument takes part in IFB/IFNB and CASE)', min_instances=1)
    n_ = 0
    for f in u.funcs.values():
        if f.file != 'asmif.c':
            continue
        for (h, s0) in f.loops():
            body = f.loop_body(h, s0)
            # increment block: predecessor of the header inside the body with an inc/dec or assignment
            cands = []
            for p, l in f.preds().get(h, ()):
                if p in body:
                    for ln, ex in f.blocks[p]['elems']:
                        for m in walk_own(ex):
                            if is_incdec(m) and strip(m[2])[0] == 'l':
                                cands.append((p, strip(m[2]), ln))
            hb = f.blocks[h]
            for (p, v, ln) in cands:
                # v must be the variable tested by the loop condition
                if not mentions(hb.get('cond'), lambda m: strip(m) == v):
                    continue
                n_ += 1
                extra = []
                for b in body:
                    for j, (l2, ex) in enumerate(f.blocks[b]['elems']):
                        for m in walk_own(ex):
                            if (is_incdec(m) or is_assign(m)) and strip(m[2]) == v and not (b == p):
                                extra.append(l2)
                chk.ob('C12-R5', 'asmif.c:%s:loop-index-%s' % (f.name, v[1]), not extra, f.loc(ln),
                       'stepped once per iteration' if not extra else
                       'loop index %s is also modified inside the loop body at line %s: every second argument is skipped '
                       '(IFB ,x is judged blank)' % (v[1], extra))
    if not n_:
        raise AnalysisBroken('asmif.c: no counting loops found')


def rule_r6(chk, facts):
    chk.rule('C12-R6', 'every construct stack that the body of a pass can push (IF/SWITCH, SAVE, SECTION, STRUCT) is '
             'tested at the end of the pass and a non-empty stack raises an error', min_instances=4)
    f = facts.func('as.c', 'AssembleFile_ExitPass')
    for head in ('FirstIfSave', 'FirstSaveState', 'SectionStack', 'StructStack'):
        ok = False
        for b, i, ln, ex in f.elems():
            if is_error_call(ex):
                g, w = f.guarded(b, i, nz_guard(('g', head)))
                if g:
                    # and the error is on every path with the head non-null: T edge leads to it
                    ok = True
        chk.ob('C12-R6', 'as.c:AssembleFile_ExitPass:%s' % head, ok, f.loc(),
               'open construct reported at end of pass' if ok else
               'no end-of-pass error for a non-empty %s: an unbalanced construct is accepted silently' % head)


def boolean_valued(f, e):
    e = nocast(e) if not (isinstance(e, (list, tuple)) and e and e[0] == 'cast') else e
    e = strip(e)
    if not isinstance(e, tuple) or not e:
        return False
    k = e[0]
    if k == 'cast':
        return boolean_valued(f, e[4])
    if k == 'c':
        return e[1] in (0, 1)
    if k == 'b' and e[1] in ('==', '!=', '<', '>', '<=', '>=', '&&', '||'):
        return True
    if k == 'u' and e[1] == '!':
        return True
    if k == '?':
        return boolean_valued(f, e[2]) and boolean_valued(f, e[3])
    if k == 'b' and e[1] == '=':
        return boolean_valued(f, e[3])
    if k in ('l', 'p'):
        t = f.locals.get(e[1]) if k == 'l' else next((p['type'] for p in f.params if p['name'] == e[1]), None)
        return bool(t and abs(t.get('bits', 0)) in (1, 8))
    if k == 'm':
        return False
    return False


def rule_r7(chk, facts, u):
    chk.rule('C12-R7', 'asmif.c: a value is implicitly narrowed to the 8-bit Boolean type only when it is already a '
             'truth value (comparison, logical operation, Boolean variable): the 32-bit result of a condition '
             'expression is compared with zero before it is stored or passed as a flag', min_instances=15)
    for f in u.funcs.values():
        if f.file != 'asmif.c':
            continue
        for b, i, ln, ex in f.elems():
            for m in walk_own(ex):
                if m[0] == 'cast' and m[1] == 'i' and abs(m[2]) in (1, 8):
                    ok = boolean_valued(f, m[4]) or (strip(m[4])[0] == 'm' and True and _field_bits_le8(facts, strip(m[4])))
                    chk.ob('C12-R7', 'asmif.c:%s:narrow:%s' % (f.name, show(m[4])[:50]), ok, f.loc(ln),
                           'truth value' if ok else
                           'the %d-bit value %s is truncated to 8 bits where a truth value is expected: a condition '
                           'such as 256 or 4096 (low byte zero) is taken for FALSE' % (abs(m[3]), show(m[4])))


def _field_bits_le8(facts, e):
    return False


def run(chk, facts, info):
    u = facts.unit('asmif.c')
    rule_r1(chk, facts, u)
    # R2 = C03-R2 restricted to FirstIfSave
    chk.rule('C12-R2', 'every dereference of FirstIfSave is null-guarded (see C03-R2)', min_instances=6)
    from . import c03
    sub = _Sub(chk, 'C12-R2', lambda key: key.endswith(':FirstIfSave'))
    c03.rule_r2(sub, facts)
    rule_r3(chk, facts, u)
    rule_r4(chk, facts)
    rule_r5(chk, facts, u)
    rule_r6(chk, facts)
    rule_r7(chk, facts, u)
    from . import round8_small
    round8_small.c12_r8(chk, facts)
    chk.note('Decided: state machine of the conditional handlers against the documented protocol, null guards, '
             'monotone narrowing of IfAsm, IfAsm guards of the line decoder, argument loops, end-of-pass balance '
             'checks. Not decided: truth of individual conditions.')


class _Sub:
    """Adapter: run another property's rule function, keeping only matching
    instances and recording them under a rule id of this property."""

    def __init__(self, chk, rule, keep):
        self.chk, self.rule_id, self.keep = chk, rule, keep
        self.extra = {}

    def rule(self, rid, text, min_instances=1):
        pass

    def ob(self, rule, key, ok, loc='', detail='', witness=None):
        if self.keep(key):
            self.chk.ob(self.rule_id, key, ok, loc, detail, witness)

    def exception(self, rule, key, reason):
        pass

    def note(self, s):
        pass
