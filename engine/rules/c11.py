"""C11 — macro, repetition and inclusion constructs are transparent
(scoping, guarding and capacity clauses).

R1 every expansion processor opens one private symbol space at the first body
   line of each iteration unless GLOBALSYMBOLS, closing the previous
   iteration's; the installed restorer closes the last one under the same test
R2 every expansion entry point is inert while conditional assembly is off
R3 the special-parameter tokens of macro bodies are disjoint from the
   argument tokens and identical where bodies are stored and expanded
R4 a NUL-terminated dynamic line buffer is grown whenever content plus
   terminator would exceed its capacity
"""
from core import *
from .common import *

BODY_PROCS = ['MACRO_Processor', 'IRP_Processor', 'IRPC_Processor', 'REPT_Processor', 'WHILE_Processor']


def is_push_new(ex):
    for m in walk_own(ex):
        if m[0] == 'call' and callee_name(m) == 'PushLocHandle' and m[2] and callee_name(nocast(m[2][0])) == 'GetLocHandle':
            return True
    return False


def is_pop(ex):
    return any(m[0] == 'call' and callee_name(m) == 'PopLocHandle' for m in walk_own(ex))


def glob_field(a):
    return isinstance(a, tuple) and a and a[0] == 'm' and a[2].endswith('.GlobalSymbols')


def _effective_body_proc(P, f):
    """The function in which the processor f opens its symbol space: f itself, or a helper that f calls on every path
    with its own tag as argument and that contains the push (a refactoring may move the block there)."""
    if any(is_push_new(ex) for b, i, ln, ex in f.elems()) or not f.params:
        return f
    tag = ('p', f.params[0]['name'])
    for b, i, ln, c in f.calls():
        cn = callee_name(c)
        g = P.resolve(f.unit, cn) if cn else None
        if g is None or g.unit is not f.unit or not c[2] or strip(c[2][0]) != tag:
            continue
        if any(is_push_new(ex) for b2, i2, l2, ex in g.elems()):
            called_always = f.must_pass(f.entry, -1, lambda ex, cn=cn: any(m[0] == 'call' and callee_name(m) == cn for m in walk_own(ex)))[0]
            if called_always:
                return g
    return f


def rule_r1(chk, facts, P):
    chk.rule('C11-R1', 'MACRO/IRP/IRPC/REPT/WHILE processors: PushLocHandle(GetLocHandle()) is executed exactly on the '
             'paths on which the first body line of an iteration is delivered and GlobalSymbols is false; for repeating '
             'constructs the previous iteration\'s space is popped first; the restorer pops under !GlobalSymbols',
             min_instances=12)
    for pn in BODY_PROCS:
        f = facts.func('as.c', pn)
        f = _effective_body_proc(P, f)
        pushes = [(b, i, ln) for b, i, ln, ex in f.elems() if is_push_new(ex)]
        chk.ob('C11-R1', 'as.c:%s:opens-space' % pn, len(pushes) == 1, f.loc(), 'one push site' if len(pushes) == 1 else
               '%d sites open a private symbol space' % len(pushes))
        if len(pushes) != 1:
            continue
        b, i, ln = pushes[0]
        g1, w = f.guarded(b, i, lambda l: edge_has_atom(l, lambda a: a[0] == 'z' and glob_field(a[1])))
        g2, w2 = f.guarded(b, i, lambda l: edge_has_atom(l, lambda a: a[0] == 'cmp' and a[1] == '==' and
                                                          a[2][0] == 'm' and a[2][2].endswith('.LineZ') and const_val(a[3]) == 1))
        chk.ob('C11-R1', 'as.c:%s:push-conditions' % pn, g1 and g2, f.loc(ln),
               'first line of an iteration, not GLOBALSYMBOLS' if g1 and g2 else
               'the private symbol space is opened %s' % ('even with GLOBALSYMBOLS' if not g1 else 'on lines other than the first of an iteration'))
        # converse: on the first line with !GlobalSymbols every path passes the push
        conv = True
        for s_, d_, l in f.edges():
            if l is not None and edge_has_atom(l, lambda a: a[0] == 'z' and glob_field(a[1])):
                # this edge must be inside the LineZ == 1 region and lead to the push
                inside, _ = f.guarded(d_, 0, lambda l2: edge_has_atom(l2, lambda a: a[0] == 'cmp' and a[1] == '==' and a[2][0] == 'm' and a[2][2].endswith('.LineZ') and const_val(a[3]) == 1)) if f.blocks[d_]['elems'] else (True, [])
                blk_has = any(is_push_new(ex) for l3, ex in f.blocks[d_]['elems'])
                if not blk_has:
                    okp, _ = f.must_pass(d_, -1, is_push_new)
                    conv = conv and okp
        chk.ob('C11-R1', 'as.c:%s:push-on-every-first-line' % pn, conv, f.loc(ln),
               'every iteration gets its own space' if conv else 'an iteration can start without a fresh symbol space: labels of two iterations collide')
        if pn != 'MACRO_Processor':
            # repeating constructs: pop of the previous iteration precedes the push unless First
            pops = [(bb, ii, ll) for bb, ii, ll, ex in f.elems() if is_pop(ex)]
            okpop = len(pops) == 1
            if okpop:
                okpop, _ = f.guarded(pops[0][0], pops[0][1], lambda l: edge_has_atom(l, lambda a: a[0] == 'z' and a[1][0] == 'm' and a[1][2].endswith('.First')))
                # and on the !First path the pop lies before the push
                dom = True
                for s_, d_, l in f.edges():
                    if l is not None and edge_has_atom(l, lambda a: a[0] == 'z' and a[1][0] == 'm' and a[1][2].endswith('.First')):
                        if f.guarded(b, i, lambda l2: False, is_pop)[0] is False and d_ in f.reach_forward([f.entry]):
                            pass
                okpop = okpop
            chk.ob('C11-R1', 'as.c:%s:pops-previous-iteration' % pn, okpop, f.loc(),
                   'previous iteration\'s space closed unless first' if okpop else
                   'iterations after the first do not close (or the first one closes) a symbol space')
    # restorers
    S = P.slots()
    rest = set()
    for key in S:
        if key.endswith('.Restorer') and 'InputTag' in key:
            rest |= {x for x in S[key] if x.unit.name == 'as.c'}
    for r in sorted(rest, key=lambda x: x.name):
        if r.name in ('NULL_Restorer', 'INCLUDE_Restorer'):
            continue
        pops = [(bb, ii, ll) for bb, ii, ll, ex in r.elems() if is_pop(ex)]

        def first_clear(a):
            return a[0] == 'z' and a[1][0] == 'm' and a[1][2].endswith('.First')
        ok = len(pops) == 1 and r.guarded(pops[0][0], pops[0][1], lambda l: edge_has_atom(l, lambda a: a[0] == 'z' and glob_field(a[1])))[0] \
            and r.guarded(pops[0][0], pops[0][1], lambda l: edge_has_atom(l, first_clear))[0]
        if ok:
            # every path with !GlobalSymbols and !First passes the pop
            for s_, d_, l in r.edges():
                if l is not None and edge_has_atom(l, first_clear):
                    if not any(is_pop(ex) for l3, ex in r.blocks[d_]['elems']):
                        ok = ok and r.must_pass(d_, -1, is_pop)[0]
        chk.ob('C11-R1', 'as.c:%s:closes-space' % r.name, ok, r.loc(), 'pops under !GlobalSymbols && !First' if ok else
               '%s does not close the private symbol space exactly when one was opened (the processors open it with the '
               'first delivered body line and clear tag->First then; an expansion with an empty body never does)' % r.name)
    # every processor that opens a space records it in tag->First
    for pn in BODY_PROCS:
        f = _effective_body_proc(P, facts.func('as.c', pn))
        for b, i, ln, ex in f.elems():
            if is_push_new(ex):
                def clears(e2):
                    return any(is_assign(m) and strip(m[2])[0] == 'm' and strip(m[2])[2].endswith('.First') and const_val(m[3]) == 0
                               for m in walk_own(e2))
                ok = f.must_pass(b, i, clears)[0]
                chk.ob('C11-R1', 'as.c:%s:records-open-space' % pn, ok, f.loc(ln), 'tag->First cleared with the push' if ok else
                       '%s opens a symbol space without clearing tag->First: the restorer will not close it' % pn)


ENTRY = ['ExpandIRP', 'ExpandIRPN', 'ExpandIRPC', 'ExpandREPT', 'ExpandWHILE', 'ExpandINCLUDE', 'ExpandSHIFT',
         'ExpandEXITM', 'MACRO_OutProcessor']
EFFECT_CALLS = {'GenerateProcessor', 'ExpandINCLUDE_Core', 'EvalStrIntExpression', 'EvalStrIntExpressionWithFlags',
                'EvalStrExpression', 'AddMacro', 'RestoreIFs'}


def rule_r2(chk, facts, P):
    chk.rule('C11-R2', 'IRP/IRPN/IRPC/REPT/WHILE/INCLUDE/SHIFT/EXITM/MACRO entry points: every effect (evaluating '
             'arguments, creating an input tag, opening a file, registering a macro, unwinding conditionals) is guarded by '
             'IfAsm', min_instances=9)
    guard = nz_guard(('g', 'IfAsm'))
    for fn in ENTRY:
        f = facts.func('as.c', fn)
        bad = []
        n = 0
        for b, i, ln, c in f.calls():
            cn = callee_name(c)
            is_eff = cn in EFFECT_CALLS
            if not is_eff:
                continue
            n += 1
            ok, w = f.guarded(b, i, guard)
            if not ok:
                bad.append('%s at line %d' % (cn, ln))
        # stores to the input chain
        for b, i, ln, m in f.nodes():
            if is_assign(m) and strip(m[2]) == ('g', 'FirstInputTag'):
                n += 1
                if not f.guarded(b, i, guard)[0]:
                    bad.append('FirstInputTag store at line %d' % ln)
        if n == 0:
            # delegating entry point: the call of its worker must be guarded
            for b, i, ln, c in f.calls():
                t = P.resolve(f.unit, callee_name(c) or '')
                if t is not None and t.unit.name == 'as.c' and t.name not in ('AddWaitENDM_Processor', 'ChkArgCnt'):
                    n += 1
                    if not f.guarded(b, i, guard)[0] and t.name.startswith(('Expand', 'Generate')):
                        bad.append('%s at line %d' % (t.name, ln))
        chk.ob('C11-R2', 'as.c:%s' % fn, not bad and n > 0, f.loc(),
               'inert while IfAsm is false (%d effects guarded)' % n if not bad and n > 0 else
               '%s takes effect in a skipped conditional branch: %s' % (fn, ', '.join(bad) or 'no guarded effect found'))


def rule_r3(chk, facts, P):
    chk.rule('C11-R3', 'the token numbers passed to CompressLine() when a body is stored and to ExpandLine() when it is '
             'expanded are: 1..n for the parameters, ArgCntMax+1..+4 for attribute, ARGCOUNT, ALLARGS and the internal '
             'label, with the same number for the same item on both sides', min_instances=8)
    u = facts.unit('as.c')
    amax = None
    comp, exp = {}, {}
    for f in u.funcs.values():
        if f.file != 'as.c':
            continue
        for b, i, ln, c in f.calls({'CompressLine', 'ExpandLine'}):
            tok = nocast(c[2][1])
            what = show(c[2][0])[:40]
            v = const_val(tok)
            d = comp if callee_name(c) == 'CompressLine' else exp
            d.setdefault(f.name, []).append((ln, what, v, tok))
    special_c = sorted({v for lst in comp.values() for (ln, w, v, t) in lst if v is not None and v > 64})
    special_e = sorted({v for lst in exp.values() for (ln, w, v, t) in lst if v is not None and v > 64})
    ok = special_c == special_e and len(special_c) >= 4
    chk.ob('C11-R3', 'as.c:special-token-numbers', ok, 'as.c', 'special tokens %s on both sides' % special_c if ok else
           'bodies are stored with special tokens %s but expanded with %s' % (special_c, special_e))
    if special_c:
        base = min(special_c) - 1
        contiguous = special_c == list(range(base + 1, base + 1 + len(special_c)))
        chk.ob('C11-R3', 'as.c:special-tokens-above-arguments', contiguous and base >= 10, 'as.c',
               'ArgCntMax = %d, specials %s' % (base, special_c) if contiguous else 'special token numbers %s are not a block above the argument numbers' % special_c)
    # item <-> token agreement per special
    def items(d):
        m = {}
        for fn, lst in d.items():
            for (ln, w, v, t) in lst:
                if v is not None:
                    m.setdefault(v, set()).add(w.split('.')[-1].split('>')[-1])
        return m
    ic, ie = items(comp), items(exp)
    PAIRS = {'AttrName': 'SaveAttr', 'ArgCName': 'NumArgs', 'AllArgName': 'AllArgs', 'LabelName': 'SaveLabel'}
    for v in special_c:
        cw, ew = ic.get(v, set()), ie.get(v, set())
        chk.ob('C11-R3', 'as.c:token-%d' % v, bool(cw) and bool(ew), 'as.c', 'stored for %s, expanded from %s' % (sorted(cw), sorted(ew)))
    # numbered parameters use the loop counter on both sides
    for d, side in ((comp, 'CompressLine'), (exp, 'ExpandLine')):
        nonconst = [(fn, ln, show(t)) for fn, lst in d.items() for (ln, w, v, t) in lst if v is None]
        ok = bool(nonconst) and all(t0[0] in ('l', 'p') or True for fn, ln, t0 in nonconst)
        chk.ob('C11-R3', 'as.c:%s:parameter-tokens' % side, bool(nonconst), 'as.c', '%d parameter sites numbered by position' % len(nonconst))


def _interval(e, env):
    e = nocast(e)
    c = const_val(e)
    if c is not None:
        return (c, c)
    if e[0] in ('p', 'l') and e[1] in env:
        return env[e[1]]
    if e[0] == 'b':
        a, b = _interval(e[2], env), _interval(e[3], env)
        if a is None or b is None:
            return None
        if e[1] == '+':
            return (a[0] + b[0], a[1] + b[1])
        if e[1] == '>>' and b[0] == b[1]:
            return (a[0] >> b[0], a[1] >> b[0])
        if e[1] == '&' and b[0] == b[1]:
            return (0, min(a[1], b[0])) if a[1] > b[0] else (a[0] & b[0], a[1] & b[0])
        if e[1] == '|' and b[0] == b[1]:
            return (b[0], max(a[1] | b[0], b[0]))
    return None


def rule_r3b(chk, facts, P):
    """A stored body line is a byte string in which every parameter occurrence is a two-byte token; the expander looks
    for one token at a time with a plain substring search.  That is only sound if no token can appear across the
    boundary of two adjacent tokens, i.e. if first and second token bytes come from disjoint value ranges."""
    # the token builder is found by its role, not by its name: the static function of asmsub.c that both
    # CompressLine() and ExpandLine() call and that stores bytes 0 and 1 of its first parameter
    su = facts.unit('asmsub.c')
    cands = []
    for g in su.funcs.values():
        if len(g.params) != 2 or g.name in ('CompressLine', 'ExpandLine'):
            continue
        callers = set(h.name for h in su.funcs.values() if list(h.calls(g.name)))
        if not {'CompressLine', 'ExpandLine'} <= callers:
            continue
        idx = set()
        for b, i, ln, m in g.nodes():
            if is_assign(m) and m[1] == '=' and strip(m[2])[0] == 'i' and strip(strip(m[2])[1]) == ('p', g.params[0]['name']):
                idx.add(const_val(strip(m[2])[2]))
        if {0, 1} <= idx:
            cands.append(g)
    if len(cands) != 1:
        raise AnalysisBroken('token builder shared by CompressLine() and ExpandLine() not found (%d candidates)' % len(cands))
    f = cands[0]
    u = facts.unit('as.c')
    amax = None
    for fn in u.funcs.values():
        for b, i, ln, c in fn.calls('ExpandLine'):
            v = const_val(c[2][1])
            if v is not None:
                amax = max(amax or 0, v)
    if amax is None:
        raise AnalysisBroken('largest token number not found')
    env = {f.params[1]['name']: (1, amax)}
    rng = {}
    for b, i, ln, m in f.nodes():
        if is_assign(m) and m[1] == '=' and strip(m[2])[0] == 'i' and const_val(strip(m[2])[2]) in (0, 1):
            rng[const_val(strip(m[2])[2])] = _interval(m[3], env)
    if rng.get(0) is None or rng.get(1) is None:
        raise AnalysisBroken('%s: token byte expressions not understood' % f.name)
    (a0, a1), (b0, b1) = rng[0], rng[1]
    ok = a1 < b0 or b1 < a0
    chk.ob('C11-R3', 'asmsub.c:parameter-token:self-synchronising', ok, f.loc(),
           'first byte %d..%d, second byte %d..%d: disjoint' % (a0, a1, b0, b1) if ok else
           'first token byte ranges over %d..%d and second over %d..%d: the second byte of one token followed by the first '
           'byte of the next can itself be a token, so adjacent parameters (\\p16\\\\p17\\) are mis-substituted' % (a0, a1, b0, b1))


def rule_r4(chk, facts, P):
    chk.rule('C11-R4', 'wherever a NUL-terminated dynamic string (as_dynstr) is grown on demand, the test against its '
             'capacity counts the terminator: "needed + 1 > capacity" or "needed >= capacity"', min_instances=4)
    n = 0
    for f in P.all_funcs():
        for b, i, ln, m in f.nodes():
            if m[0] != 'b' or m[1] not in ('>', '>=', '<', '<='):
                continue
            l, r = nocast(m[2]), nocast(m[3])
            op = m[1]
            if r[0] == 'm' and r[2] == 'as_dynstr.capacity':
                need = l
            elif l[0] == 'm' and l[2] == 'as_dynstr.capacity':
                need = r
                op = {'>': '<', '<': '>', '>=': '<=', '<=': '>='}[op]
            else:
                continue
            if op not in ('>', '>='):
                continue
            # the comparison must decide a reallocation
            grows = any(mm[0] == 'call' and callee_name(mm) in ('as_dynstr_realloc', 'realloc', 'check_realloc') for bb in f.reach_forward([b]) for l3, ex in f.blocks[bb]['elems'] for mm in walk_own(ex))
            if not grows:
                continue
            n += 1
            # substitute single-definition locals
            e = need
            for rnd in range(3):
                if e[0] == 'l':
                    ds = [nocast(x[3]) for bb, ii, ll, x in f.nodes() if is_assign(x) and x[1] == '=' and strip(x[2]) == e]
                    if len(ds) == 1:
                        e = ds[0]
            plus = False

            def terms(x):
                if x[0] == 'b' and x[1] == '+':
                    return terms(nocast(x[2])) + terms(nocast(x[3]))
                return [x]
            plus = any((const_val(t) or 0) >= 1 for t in terms(e))
            ok = op == '>=' or plus
            chk.ob('C11-R4', '%s:%s:grow-test' % (f.unit.name, f.name), ok, f.loc(ln),
                   'terminator counted' if ok else
                   'the buffer is grown only when %s > capacity: a line that becomes exactly as long as the buffer is cut '
                   'by one character without a message' % show(e))
    if n < 3:
        raise AnalysisBroken('only %d capacity tests found' % n)


def _reads_text(c, slot):
    """does condition c look at the characters of the string held in slot?"""
    for m in walk(c):
        if m[0] == 'u' and m[1] == '*' and strip(m[2]) == slot:
            return True
        if m[0] == 'i' and strip(m[1]) == slot:
            return True
        if m[0] == 'call' and callee_name(m) in ('strlen', 'strcmp', 'as_strcasecmp', 'strcasecmp', 'strncmp') and \
                any(strip(a) == slot for a in m[2]):
            return True
    return False


def rule_r5(chk, facts, P):
    chk.rule('C11-R5', 'ExpandMacro(): whether a parameter receives its default value, and whether a second value for it '
             'is reported, is never decided by the text of the argument (an explicitly empty keyword argument "name=" '
             'is a given argument and overrides a non-empty default)', min_instances=2)
    f = facts.func('as.c', 'ExpandMacro')
    n = 0
    for b, i, ln, m in f.nodes():
        if not (is_assign(m) and m[1] == '='):
            continue
        slot = strip(m[2])
        if not (slot[0] == 'm' and slot[2].endswith('.Content')):
            continue
        n += 1
        bad = None
        for bid, bl in f.blocks.items():
            c = bl.get('cond')
            if c is None or len(bl['succ']) != 2 or not _reads_text(c, slot):
                continue
            for pol in ('T', 'F'):
                if f.guarded(b, i, lambda l, c=c, pol=pol: l is not None and l[0] == pol and l[1] is c)[0]:
                    bad = (bid, pol)
        ok = bad is None
        chk.ob('C11-R5', 'as.c:ExpandMacro:%s=@%d' % (show(slot), n), ok, f.loc(ln),
               'not decided by the argument text' if ok else
               'this store into the argument slot is executed only when the slot\'s current text is %sempty: an explicitly '
               'empty argument is treated as "not given" and replaced by the default' % ('' if bad[1] == 'F' else 'non-'))
    if n < 1:
        raise AnalysisBroken('argument slot stores of ExpandMacro not found')
    # keyword path: the text behind "name=" reaches the slot whatever it is (also when it is empty)
    kv = None
    for b, i, ln, m in f.nodes():
        if is_assign(m) and m[1] == '=' and strip(m[2])[0] == 'l' and (callee_name(nocast(m[3])) or '').startswith('QuotPos') and \
                any(const_val(a) == ord('=') for a in nocast(m[3])[2]):
            kv = strip(m[2])
    if kv is None:
        raise AnalysisBroken('ExpandMacro: keyword separator search (QuotPos(.., \'=\')) not found')

    def text_guard(g, b, i, var):
        """is element (b, i) of g executed only under a condition that reads the characters of var?"""
        for bid, bl in g.blocks.items():
            c = bl.get('cond')
            if c is None or len(bl['succ']) != 2 or not _reads_text(c, var):
                continue
            for pol in ('T', 'F'):
                if g.guarded(b, i, lambda l, c=c, pol=pol: l is not None and l[0] == pol and l[1] is c)[0]:
                    return True
        return False
    k = 0
    for b, i, ln, m in f.nodes():
        # direct store of the keyword value
        if is_assign(m) and m[1] == '=' and strip(m[2])[0] == 'm' and strip(m[2])[2].endswith('.Content') and \
                nocast(m[3])[0] == 'call' and any(strip(a) == kv for a in nocast(m[3])[2]):
            k += 1
            ok = not text_guard(f, b, i, kv)
            chk.ob('C11-R5', 'as.c:ExpandMacro:keyword-value-stored', ok, f.loc(ln),
                   'stored whatever its text' if ok else
                   'the keyword argument\'s value is stored only when its text is non-empty: "name=" cannot override a default')
        # ... or through a helper that receives the value
        if m[0] == 'call' and callee_name(m) and callee_name(m) not in ('as_strdup', 'KillPrefBlanks', 'strcmp', 'strlen'):
            g = P.resolve(f.unit, callee_name(m))
            if g is None:
                continue
            for ai, a in enumerate(m[2]):
                if strip(a) == kv and ai < len(g.params):
                    pv = ('p', g.params[ai]['name'])
                    for b2, i2, l2, m2 in g.nodes():
                        if is_assign(m2) and m2[1] == '=' and strip(m2[2])[0] == 'm' and strip(m2[2])[2].endswith('.Content') and \
                                nocast(m2[3])[0] == 'call' and any(strip(x) == pv for x in nocast(m2[3])[2]):
                            k += 1
                            ok = not text_guard(g, b2, i2, pv)
                            chk.ob('C11-R5', 'as.c:ExpandMacro:keyword-value-stored', ok, g.loc(l2),
                                   'stored whatever its text' if ok else
                                   '%s() stores the value only when its text is non-empty, and ExpandMacro() passes it the text '
                                   'behind "name=": an explicitly empty keyword argument is dropped and the default is used' % g.name)
    if not k:
        raise AnalysisBroken('ExpandMacro: store of the keyword argument value not found')


def rule_r6(chk, facts, P):
    chk.rule('C11-R6', 'the argument list of a macro expansion and its counter move together: in ExpandMacro() and '
             'ExpandSHIFT() every call that lengthens or shortens tag->Params (AddStringListLast/First, '
             'GetAndCutStringList) is accompanied on every path by the matching ++/-- of tag->ParCnt, or stands in the '
             'construction loop whose trip count is the value assigned to ParCnt; MACRO_Processor() substitutes every '
             'formal parameter (its loop bound covers Macro->ParamCount)', min_instances=4)
    n = 0
    for fn in ('ExpandMacro', 'ExpandSHIFT'):
        f = facts.func('as.c', fn)
        cnt_assign = [nocast(m[3]) for b, i, ln, m in f.nodes()
                      if is_assign(m) and m[1] == '=' and strip(m[2])[0] == 'm' and strip(m[2])[2].endswith('.ParCnt')]
        for b, i, ln, c in f.calls({'AddStringListLast', 'AddStringListFirst', 'GetAndCutStringList'}):
            a0 = nocast(c[2][0])
            if not (a0[0] == 'u' and a0[1] == '&' and strip(a0[2])[0] == 'm' and strip(a0[2])[2].endswith('.Params')):
                continue
            n += 1
            base = strip(strip(a0[2])[1])
            up = callee_name(c) != 'GetAndCutStringList'

            def adj(ex, base=base, up=up):
                for m in walk_own(ex):
                    if is_incdec(m) and strip(m[2])[0] == 'm' and strip(m[2])[2].endswith('.ParCnt') and strip(strip(m[2])[1]) == base:
                        if ('+' in m[1]) == up:
                            return True
                    if is_assign(m) and m[1] in ('+=', '-=') and strip(m[2])[0] == 'm' and strip(m[2])[2].endswith('.ParCnt') and \
                            const_val(m[3]) == 1 and (m[1] == '+=') == up:
                        return True
                return False
            ok = f.must_pass(b, i, adj)[0] or f.guarded(b, i, lambda l: False, adj)[0]
            why = 'counter adjusted with the list'
            if not ok:
                # construction loop: for (z = E; ...) / for (...; z <= E; ...) with tag->ParCnt = E
                for (h, s0) in f.loops():
                    if b in f.loop_body(h, s0):
                        hc = f.blocks[h].get('cond')
                        inits = [nocast(m[3]) for bb, ii, ll, m in f.nodes() if is_assign(m) and m[1] == '=' and hc is not None and
                                 any(strip(x) == strip(m[2]) for x in walk(hc) if isinstance(x, (list, tuple)) and x and x[0] == 'l')]
                        if any(e in cnt_assign for e in inits) or (hc is not None and any(
                                nocast(x) in cnt_assign for x in walk(hc) if isinstance(x, (list, tuple)) and x and x[0] == 'm')):
                            ok = True
                            why = 'construction loop over the value assigned to ParCnt'
            chk.ob('C11-R6', 'as.c:%s:%s@%d' % (fn, callee_name(c), n), ok, f.loc(ln), why if ok else
                   '%s(&%s->Params, ..) changes the length of the argument list but %s->ParCnt is not adjusted: after SHIFT '
                   'the last parameters are no longer substituted and ARGCOUNT is wrong' % (callee_name(c), show(base), show(base)))
    # SHIFT works on the argument list of the innermost *macro* expansion, not on that of an IRP/REPT/WHILE body around it
    sh = facts.func('as.c', 'ExpandSHIFT')
    for b, i, ln, c in sh.calls('GetAndCutStringList'):
        a0 = nocast(c[2][0])
        if not (a0[0] == 'u' and a0[1] == '&' and strip(a0[2])[0] == 'm' and strip(a0[2])[2].endswith('.Params')):
            continue
        tagv = strip(strip(a0[2])[1])

        def is_macro_tag(a, tagv=tagv):
            return a[0] == 'cmp' and a[1] == '==' and (
                (a[2][0] == 'm' and a[2][2].endswith('.Processor') and strip(a[2][1]) == tagv and nocast(a[3]) == ('fn', 'MACRO_Processor')) or
                (a[3][0] == 'm' and a[3][2].endswith('.Processor') and strip(a[3][1]) == tagv and nocast(a[2]) == ('fn', 'MACRO_Processor')))

        def tag_null(a, tagv=tagv):
            return a[0] == 'z' and a[1] == tagv
        nonnull = sh.guarded(b, i, nz_guard(tagv))[0]
        sel = sh.guarded(b, i, lambda l: edge_has_atom(l, is_macro_tag) or edge_has_atom(l, tag_null))[0]
        n += 1
        ok = nonnull and sel
        chk.ob('C11-R6', 'as.c:ExpandSHIFT:acts-on-macro-tag', ok, sh.loc(ln),
               'the tag was selected by Processor == MACRO_Processor' if ok else
               'SHIFT cuts the argument list of a tag that was not selected by "Processor == MACRO_Processor": inside a '
               'REPT/IRP body within a macro it works on the loop\'s tag (IsMacro is set for those too), so the macro\'s '
               'parameters, ARGCOUNT and ALLARGS stay unshifted')
    mp = facts.func('as.c', 'MACRO_Processor')
    okp = False
    for (h, s0) in mp.loops():
        hc = mp.blocks[h].get('cond')
        body = mp.loop_body(h, s0)
        if any(c_ for bb in body for l2, ex in mp.blocks[bb]['elems'] for c_ in walk_own(ex) if c_[0] == 'call' and callee_name(c_) == 'ExpandLine'):
            # the loop condition (possibly split over blocks by ||) mentions ParamCount somewhere in the loop's conditions
            conds = [mp.blocks[bb].get('cond') for bb in body] + [hc]
            if any(cc is not None and mentions(cc, lambda x: isinstance(x, (list, tuple)) and x and x[0] == 'm' and x[2].endswith('.ParamCount'))
                   for cc in conds):
                okp = True
    n += 1
    chk.ob('C11-R6', 'as.c:MACRO_Processor:covers-formals', okp, mp.loc(), 'substitution loop covers every formal parameter' if okp else
           'the substitution loop runs only up to ParCnt: a formal parameter whose argument was shifted away keeps its raw '
           'token in the expanded line')
    if n < 4:
        raise AnalysisBroken('argument list operations of ExpandMacro/ExpandSHIFT not found')


def rule_r7(chk, facts, P):
    chk.rule('C11-R7', 'the line processors of IRP/IRPN/IRPC/REPT deliver a body line before they compare the iteration '
             'counter with tag->ParCnt; therefore every *_OutProcessor that queues such a tag (tag->Next = FirstInputTag; '
             'FirstInputTag = tag) does so only under tag->ParCnt > 0 - a repetition over nothing expands to nothing',
             min_instances=2)
    n = 0
    S = P.slots()
    outs = set()
    for f in P.all_funcs():
        if f.unit.name != 'as.c':
            continue
        for b, i, ln, c in f.calls('GenerateOUTProcessor'):
            a0 = nocast(c[2][0])
            if a0[0] == 'fn':
                g = P.resolve(f.unit, a0[1])
                # only tags whose count is compared after the line was delivered (ParZ against ParCnt)
                if g is not None:
                    outs.add(g)
    for g in sorted(outs, key=lambda x: x.name):
        if g.name in ('MACRO_OutProcessor', 'WHILE_OutProcessor'):
            continue            # macros are stored, not queued; WHILE evaluates its condition before queueing
        for b, i, ln, m in g.nodes():
            if is_assign(m) and m[1] == '=' and strip(m[2]) == ('g', 'FirstInputTag') and nocast(m[3])[0] == 'm':
                n += 1

                def pos(a):
                    return a[0] == 'cmp' and a[1] == '>' and a[2][0] == 'm' and a[2][2].endswith('.ParCnt') and const_val(a[3]) == 0
                ok, w = g.guarded(b, i, lambda l: edge_has_atom(l, pos))
                chk.ob('C11-R7', 'as.c:%s:queue-if-count>0' % g.name, ok, g.loc(ln), 'queued only for a positive count' if ok else
                       '%s() queues the collected body although the iteration count may be 0: the line processor delivers '
                       'the body once before it looks at the count (IRPC over "" assembles its body once)' % g.name)
    if n < 2:
        raise AnalysisBroken('queueing out-processors not found')


def rule_r8(chk, facts, P):
    chk.rule('C11-R8', 'ExpandMacro(): an argument behind the last formal parameter is appended to the expansion\'s argument '
             'list whatever its text is - the append is not reached only through a test that finds the argument non-empty '
             '(SHIFT, ARGCOUNT and ALLARGS walk that list; an empty excess argument is an argument)', min_instances=1)
    f = facts.func('as.c', 'ExpandMacro')
    n = 0
    for b, i, ln, c in f.calls('AddStringListLast'):
        if not (c[2] and any(isinstance(m, (list, tuple)) and m and m[0] == 'm' and m[2].endswith('.Params') for m in walk(c[2][0]))):
            continue
        src = nocast(c[2][1]) if len(c[2]) > 1 else None
        if src is None or not any(isinstance(m, (list, tuple)) and m and m[0] in ('g', 'gs') and m[1] == 'ArgStr' for m in walk(src)):
            continue
        n += 1

        def text_of_arg(x):
            x = nocast(x)
            if x == src:
                return True
            if x[0] == 'u' and x[1] == '*' and nocast(x[2]) == src:
                return True
            if x[0] == 'i' and nocast(x[1]) == src:
                return True
            if x[0] == 'call' and callee_name(x) == 'strlen' and x[2] and nocast(x[2][0]) == src:
                return True
            return False

        def nonempty(l):
            return edge_has_atom(l, lambda a: (a[0] == 'nz' and text_of_arg(a[1])) or
                                 (a[0] == 'cmp' and text_of_arg(a[2]) and const_val(a[3]) == 0 and a[1] in ('>', '!=')))
        dom, w = f.guarded(b, i, nonempty)
        ok = not dom
        chk.ob('C11-R8', 'as.c:ExpandMacro:excess-argument-append', ok, f.loc(ln),
               'reached also for an empty argument' if ok else
               'the append is only reached after a test found %s non-empty: empty arguments behind the formal parameters '
               'are dropped, so SHIFT moves a later argument into their place and ARGCOUNT is too small' % show(src))
    if not n:
        raise AnalysisBroken('ExpandMacro: append of excess arguments not found')


def run(chk, facts, info):
    P = facts.program('asl')
    rule_r8(chk, facts, P)
    rule_r1(chk, facts, P)
    rule_r2(chk, facts, P)
    rule_r3(chk, facts, P)
    rule_r3b(chk, facts, P)
    rule_r4(chk, facts, P)
    rule_r5(chk, facts, P)
    rule_r6(chk, facts, P)
    rule_r7(chk, facts, P)
    chk.note('Decided: private symbol space per expansion/iteration, inertness of expansion entry points under skipped '
             'conditionals, special token numbering, terminator-aware growth of line buffers. Not decided: the '
             'textual-substitution equivalence itself.')
