"""C17 — code output is deterministic and independent of reporting options
(structural clauses: non-interference, analysis A5-ii).

R1 every read of a report-only option is either the condition of a region
   that writes no code-affecting state and raises at most warnings, or lies
   in a function whose effects are disjoint from the code-affecting state
R2 the dual-use formatting options (-h, -SPLITBYTE) are read only by the
   listed formatting routines; a consumer that parses formatted text derives
   what it searches for from the same option
R3 clock, environment and working directory are read only at reviewed sites
R4 environment variable, key file and command line feed one decoder with the
   same option table
"""
import re
from core import *
from .common import *
from . import effects as E
from .reset import is_gen

REPORT_OPTS = {'ListMode', 'ListMask', 'MakeUseList', 'MakeCrossList', 'MakeSectionList', 'MakeIncludeList', 'DebugMode',
               'MacProOutput', 'MacroOutput', 'ExtendErrors', 'NumericErrors', 'GNUErrors', 'QuietMode', 'MsgIfRepass',
               'ListRadixBase', 'ErrorPath', 'ShareMode', 'NoICEMask', 'MakeDebug', 'BalanceTrees', 'ListToStdout',
               'ListToNull', 'PageLength', 'PageWidth'}
DUAL_OPTS = {'HexStartCharacter', 'SplitByteCharacter'}

CODE_STATE = {'CodeLen', 'BAsmCode', 'WAsmCode', 'DAsmCode', 'PCs', 'Phases', 'ActPC', 'Repass', 'IfAsm', 'ErrorCount',
              'PCsUsed', 'DontPrint', 'RadixBase', 'OutRadixBase', 'FirstInputTag', 'FirstOutputTag', 'FirstIfSave',
              'SectionStack', 'StructStack', 'MomSectionHandle', 'MomLocHandle', 'CurrTransTable', 'ENDOccured',
              'StartAdr', 'StartAdrPresent', 'asmcode.c:LenSoFar', 'asmcode.c:CodeBufferFill', 'PrgFile',
              'asmpars.c:FirstSymbol', 'asmpars.c:FirstLocSymbol', 'asmmac.c:MacroRoot', 'StructRoot', 'MomCPU',
              'JmpErrors', 'WarnCount', 'FirstDefine', 'asmmac.c:FirstDefine'}
CODE_FIELDS = {'sSymbolEntry.SymWert', 'sSymbolEntry.Defined', 'sSymbolEntry.Changeable', 'sSymbolEntry.Used'}
EMITTERS = {'WrError', 'WrXError', 'WrStrErrorPos', 'WrXErrorPos', 'WrErrorString', 'ChkIO', 'ChkXIO', 'ChkStrIO'}

# functions whose whole purpose is report text; their reads of dual-use options are the documented exemption
FORMATTERS = {'strutil.c:FloatConvert', 'strutil.c:vsprcatf_core', 'asmsub.c:FloatString', 'asmsub.c:StrSym',
              'asmpars.c:ConstStringVal', 'asmlist.c:MakeList', 'intformat.c:GetIntConstIBMPrefix',
              'intformat.c:GetIntConstIntelSuffix'}

_mod_cache = {}


def mod_closure(P, f, stop_emitters=True):
    """Globals and code fields possibly written by f or its callees (emitters excluded)."""
    k = (id(P), id(f))
    if k in _mod_cache:
        return _mod_cache[k]
    gl, fl, errs = set(), set(), set()
    seen = set()
    work = [f]
    cg = P.callgraph()
    while work:
        g = work.pop()
        if g in seen:
            continue
        seen.add(g)
        if g.name in EMITTERS:
            continue
        for (kk, how, ln, n, b, i) in P.writes(g):
            if how in ('=', 'op', 'elem'):
                gl.add(kk)
        for b, i, ln, n in g.nodes():
            if is_assign(n) or is_incdec(n):
                t = strip(n[2])
                while isinstance(t, tuple) and t and t[0] == 'i':
                    t = t[1]
                if isinstance(t, tuple) and t and t[0] == 'm':
                    for cf in CODE_FIELDS:
                        if t[2].startswith(cf) or any(m[0] == 'm' and m[2].startswith(cf) for m in walk(t)):
                            fl.add(cf)
            if n[0] == 'call' and callee_name(n) in ('WriteBytes', 'NewRecord', 'WriteCode'):
                gl.add('PrgFile')
        for t in cg.get(g, ()):
            if t not in seen:
                work.append(t)
    _mod_cache[k] = (gl, fl)
    return gl, fl


def region_effects(P, f, blocks):
    gl, fl = set(), set()
    errors = []
    for b in blocks:
        for ln, ex in f.blocks[b]['elems']:
            for n in walk_own(ex):
                if is_assign(n) or is_incdec(n):
                    r = lv_root(n[2])
                    if r and r[0] in GLOBKINDS and not is_deref_path(r[2]):
                        gl.add(P.gkey(f, r[0], r[1]))
                    t = strip(n[2])
                    if isinstance(t, tuple) and t and t[0] == 'm':
                        for cf in CODE_FIELDS:
                            if t[2].startswith(cf):
                                fl.add(cf)
                if n[0] == 'call':
                    cn = callee_name(n)
                    if cn in EMITTERS:
                        num = nocast(n[2][0]) if n[2] else None
                        v = const_val(num) if num is not None else None
                        if cn.startswith('Wr') and (v is None or v >= 1000):
                            errors.append((ln, show(num) if num is not None else '?'))
                        continue
                    t = P.resolve(f.unit, cn) if cn else None
                    ts = [t] if t is not None else []
                    if cn is None:
                        ts2, how = P.indirect_targets(f, n)
                        ts = list(ts2) if how == 'slot' else []
                    for t in ts:
                        g2, f2 = mod_closure(P, t)
                        gl |= g2
                        fl |= f2
    return gl, fl, errors


DERIVED = set()


def rule_r1b(chk, facts, P):
    """reads of record fields that hold a copy of a report option"""
    ph = asl_phases(facts, P)
    scope = ph['BODY'] | ph['PASS_INIT']
    for f in P.all_funcs():
        if f not in scope:
            continue
        for b, blk in f.blocks.items():
            c = blk.get('cond')
            if c is None or len(blk['succ']) != 2:
                continue
            flds = {m[2] for m in walk(c) if m[0] == 'm' and m[2] in DERIVED}
            if not flds:
                continue
            st, sf = blk['succ']
            rt = f.reach_forward([st]) if st is not None and st >= 0 else set()
            rf = f.reach_forward([sf]) if sf is not None and sf >= 0 else set()
            only = (rt - rf) | (rf - rt)
            gl, fl, errs = region_effects(P, f, only)
            hit = (gl & CODE_STATE) | fl
            for fld in flds:
                chk.ob('C17-R1', '%s:%s:%s' % (f.unit.name, f.name, fld), not hit and not errs, f.loc(blk['term'][1]),
                       'derived option controls a report-only region' if not hit and not errs else
                       'a copy of a report option (%s) controls writes of %s' % (fld, ', '.join(sorted(hit))))
    # any non-condition read of a derived field must be a sink operand
    for f in P.all_funcs():
        if f not in scope:
            continue
        for b, i, ln, n in f.nodes():
            if n[0] == 'm' and n[2] in DERIVED:
                blk = f.blocks[b]
                if 'cond' in blk and i == len(blk['elems']) - 1:
                    continue
                ex = blk['elems'][i][1]
                is_store = any(is_assign(m) and m[1] == '=' and strip(m[2]) == strip(n) for m in walk_own(ex))
                if is_store:
                    continue
                sink = data_sink(P, f, ex, n)
                chk.ob('C17-R1', '%s:%s:%s:data' % (f.unit.name, f.name, n[2]), bool(sink), f.loc(ln),
                       'operand of %s' % sink if sink else 'a copy of a report option is used as data outside a report sink')


def rule_r1(chk, facts, P):
    chk.rule('C17-R1', 'every read of a report-only option (listing, cross reference, debug, message style, quiet, ...) '
             'in the assembler is either the condition of a branch whose exclusively controlled blocks write no '
             'code-affecting state and raise at most warnings, or lies in a function that writes no code-affecting '
             'state at all', min_instances=50)
    n_ = 0
    ph = asl_phases(facts, P)
    scope = ph['BODY'] | ph['PASS_INIT']
    for f in P.all_funcs():
        if f not in scope:
            continue
        reads = [(k, ln, n, b, i) for (k, ln, n, b, i) in P.reads(f) if k.split(':')[-1] in REPORT_OPTS]
        if not reads:
            continue
        fmod = None
        agg = {}
        for (k, ln, n, b, i) in reads:
            opt = k.split(':')[-1]
            key = '%s:%s:%s' % (f.unit.name, f.name, opt)
            blk = f.blocks[b]
            ok, det = None, ''
            if 'cond' in blk and len(blk['succ']) == 2 and i == len(blk['elems']) - 1:
                st, sf = blk['succ']
                rt = f.reach_forward([st]) if st is not None and st >= 0 else set()
                rf = f.reach_forward([sf]) if sf is not None and sf >= 0 else set()
                only = (rt - rf) | (rf - rt)
                gl, fl, errs = region_effects(P, f, only)
                hit = (gl & CODE_STATE) | fl
                if not hit and not errs:
                    ok, det = True, 'controls a report-only region'
                else:
                    det = 'the branch on %s controls %s%s' % (
                        opt, ('writes of ' + ', '.join(sorted(hit))) if hit else '',
                        (' errors ' + ', '.join(e[1] for e in errs)) if errs else '')
            if not ok:
                # plain copy into a record field or local: the copy becomes a derived source
                ex0 = blk['elems'][i][1]
                for m in walk_own(ex0):
                    if is_assign(m) and m[1] == '=' and nocast(m[3]) is not None and any(x is n for x in walk(m[3])):
                        t = strip(m[2])
                        if t[0] == 'm':
                            DERIVED.add(t[2])
                            ok, det = True, 'copied into %s (checked as derived source)' % t[2]
            if not ok:
                # data use: operand of a formatting/report sink call?
                ex = blk['elems'][i][1]
                sink = data_sink(P, f, ex, n)
                if sink:
                    esc = buffer_escapes(P, f, ex, n) if sink in BUFFER_SINKS else None
                    if esc:
                        ok, det = False, ('%s formats with %s into %s, which is then handed to %s together with the caller\'s '
                                          'result: the text becomes part of an expression value' % (sink, opt, esc[0], esc[1]))
                    else:
                        ok, det = True, 'operand of report sink %s' % sink
            if not ok:
                if fmod is None:
                    fmod = mod_closure(P, f)
                hit = (fmod[0] & CODE_STATE) | fmod[1]
                if not hit:
                    ok, det = True, 'function without code-affecting effects'
                else:
                    ok = False
                    det = (det + '; ' if det else '') + '%s is read in %s, which may write %s' % (opt, f.name, ', '.join(sorted(hit))[:120])
            a = agg.setdefault(key, [True, det, f.loc(ln)])
            if not ok and a[0]:
                agg[key] = [False, det, f.loc(ln)]
        for key, (ok, det, loc) in agg.items():
            n_ += 1
            if not ok and key in R1_EXC:
                chk.exception('C17-R1', key, R1_EXC[key])
                ok, det = True, 'listed: ' + R1_EXC[key]
            chk.ob('C17-R1', key, ok, loc, det if ok else
                   'report option influences code-affecting state: ' + det)
    return n_


SINKS = {'printf', 'fprintf', 'sprintf', 'as_snprintf', 'as_snprcatf', 'as_sdprintf', 'as_sdprcatf', 'SysString',
         'HexString', 'DecString', 'StrSym', 'IntLine', 'WrLstLine', 'WrConsoleLine', 'LargeString', 'strmaxcpy',
         'strmaxcat', 'Blanks', 'AddLineInfo', 'AddSectionUsage', 'PrintChunk'}


BUFFER_SINKS = {'sprintf', 'as_snprintf', 'as_snprcatf', 'as_sdprintf', 'as_sdprcatf', 'SysString', 'HexString', 'DecString',
                'StrSym', 'LargeString', 'strmaxcpy', 'strmaxcat'}


def buffer_escapes(P, f, ex, node):
    """The sink formats into a local buffer of f; does that buffer (or a pointer copied from it) reach a call that also
    receives one of f's pointer parameters (an out-parameter: the caller's result)?  Returns (buffer, callee) or None."""
    dest = None
    for m in walk_own(ex):
        if m[0] == 'call' and callee_name(m) in BUFFER_SINKS and any(x is node for a in m[2] for x in walk(a)) and m[2]:
            d = strip(m[2][0])
            if d[0] == 'u' and d[1] == '&':
                d = strip(d[2])
            if d[0] == 'l':
                dest = d
    if dest is None:
        return None
    al = {dest}
    for b, i, ln, m in f.nodes():
        if is_assign(m) and m[1] == '=' and strip(m[2])[0] == 'l' and strip(m[3]) in al:
            al.add(strip(m[2]))
    pparams = {('p', q['name']) for q in f.params if q['type'].get('ptr')}
    for b, i, ln, m in f.nodes():
        if m[0] != 'call' or callee_name(m) in BUFFER_SINKS or callee_name(m) in ('strlen', 'strcmp'):
            continue
        if any(strip(a) in al for a in m[2]) and any(
                any(isinstance(x, (list, tuple)) and len(x) == 2 and x[0] == 'p' and ('p', x[1]) in pparams for x in walk(a)) for a in m[2]):
            return show(dest), callee_name(m) or '?'
    return None


def data_sink(P, f, ex, node):
    """Name of the report sink call whose argument list contains `node`."""
    for m in walk_own(ex):
        if m[0] != 'call':
            continue
        cn = callee_name(m)
        inside = any(x is node for a in m[2] for x in walk(a))
        if not inside:
            continue
        if cn in SINKS:
            return cn
        if cn is None:
            c = nocast(m[1])
            if c[0] in ('g', 'p', 'l') and ('Dissect' in c[1]):
                return c[1]
        t = P.resolve(f.unit, cn) if cn else None
        if t is not None:
            g2, f2 = mod_closure(P, t)
            if not ((g2 & CODE_STATE) | f2):
                return cn
    return None


R1_EXC = {
    'asmlist.c:MakeList:ListMask': 'the listing swaps the line buffer for display and swaps it back (parity checked by C19-R1)',
    'asmlist.c:MakeList:ListToNull': 'same as ListMask: the swap pair of the listing (C19-R1)',
    'asmallg.c:CodeSHARED:ShareMode': 'share format 3 asks IsSymbolChangeable(), which repeats the symbol lookup the '
                                      'statement has already made unconditionally for every format',
}


def rule_r7(chk, facts, P):
    chk.rule('C17-R7', 'AssembleFile(): a Clear*/Reset* call that empties code-affecting state (symbols, macros, #define list, '
             'code pages, ...) between passes or files is not controlled by a report-only option: without that option the '
             'state of the abandoned pass would survive into the next one', min_instances=3)
    from . import effects as E
    ph = asl_phases(facts, P)
    af = ph['AssembleFile']
    n = 0
    conds = []
    for b, blk in af.blocks.items():
        c = blk.get('cond')
        if c is None or len(blk['succ']) != 2:
            continue
        opts = {m[1] for m in walk(c) if isinstance(m, (list, tuple)) and len(m) > 1 and m[0] in GLOBKINDS and m[1] in REPORT_OPTS}
        if not opts:
            continue
        conds.append((sorted(opts), c))
    for b, i, ln, c in af.calls():
        cn = callee_name(c) or ''
        if not (cn.startswith('Clear') or cn.startswith('Reset')):
            continue
        g = P.resolve(af.unit, cn)
        if g is None or g.entry is None:
            continue
        hit = sorted(k for k in E.kill(P, g) if k in CODE_STATE)
        if not hit:
            continue
        n += 1
        # controlled: every path from the function entry to the call takes the same branch of the option test
        ctl = [o for o, c_ in conds if any(
            af.guarded(b, i, lambda l, c_=c_, pol=pol: l is not None and l[0] == pol and l[1] is c_)[0] for pol in ('T', 'F'))]
        ok = not ctl
        chk.ob('C17-R7', 'as.c:AssembleFile:%s@%d' % (cn, sum(1 for b2, i2, l2, c2 in af.calls(cn) if l2 < ln)), ok, af.loc(ln),
               'not controlled by a report option (%s)' % ', '.join(hit) if ok else
               '%s(), which empties %s, is only called under the report option %s: without it the entries of the previous '
               'pass stay active from the first line of the next pass, so the code depends on the option' % (
                   cn, ', '.join(hit), ', '.join(ctl[0])))
    return n


def rule_r6(chk, facts, P):
    chk.rule('C17-R6', 'generated symbol names are independent of the listing format options: (a) every as_snprintf() that '
             'builds a name starting with "__" (temporary symbols) uses only %d and %s conversions, and (b) in the common '
             'formatter the %d conversion does not hand SplitByteCharacter to SysString() (the split argument is a '
             'conditional on the signed-conversion flag that %d sets)', min_instances=5)
    n = 0
    for f in P.all_funcs():
        if is_gen(f.unit.name):
            continue
        for b, i, ln, c in f.calls({'as_snprintf', 'as_snprcatf', 'as_sdprintf'}):
            fmt = [nocast(a) for a in c[2] if nocast(a)[0] == 's']
            if not fmt or not fmt[0][1].startswith('__'):
                continue
            n += 1
            convs = re.findall(r'%[-+0-9.*l]*([a-zA-Z])', fmt[0][1])
            ok = all(x in ('d', 's') for x in convs)
            chk.ob('C17-R6', '%s:%s:name-format:%s' % (f.unit.name, f.name, fmt[0][1]), ok, f.loc(ln),
                   'only %d/%s' if ok else 'the generated name uses a conversion (%s) that -h / -SPLITBYTE / radix options change' % convs)
    vf = facts.func('strutil.c', 'vsprcatf_core')
    sets_signed = False
    for b, i, ln, m in vf.nodes():
        if is_assign(m) and strip(m[2])[0] == 'm' and strip(m[2])[2].endswith('.Signed') and const_val(m[3]) == 1:
            sets_signed = True
    for b, i, ln, c in vf.calls('SysString'):
        n += 1
        last = nocast(c[2][-1])
        ok = sets_signed and last[0] == '?' and mentions(last[1], lambda x: isinstance(x, (list, tuple)) and len(x) > 2 and x[0] == 'm' and x[2].endswith('.Signed')) \
            and const_val(last[2]) == 0
        chk.ob('C17-R6', 'strutil.c:vsprcatf_core:%d-not-split', ok, vf.loc(ln),
               'signed decimal conversions are not split' if ok else
               'every integer conversion of as_snprintf() applies SplitByteCharacter, including the %d that builds '
               '"__back%d"/"__forw%d": with -SPLITBYTE temporary symbols become invalid names')
    if n < 5:
        raise AnalysisBroken('generated-name formats / formatter call not found')


def rule_r2(chk, facts, P):
    chk.rule('C17-R2', 'the dual-use formatting options HexStartCharacter (-h) and SplitByteCharacter (-SPLITBYTE) are '
             'read only by the listed text formatting routines and bit-symbol dissectors; a routine that parses text '
             'produced by the formatter searches for the exponent letter derived from the same option', min_instances=10)
    n = 0
    for f in P.all_funcs():
        opts = {k.split(':')[-1] for (k, ln, nd, b, i) in P.reads(f) if k.split(':')[-1] in DUAL_OPTS}
        for opt in sorted(opts):
            n += 1
            ok = f.qname in FORMATTERS or f.name.startswith('DissectBit') or f.qname in ('as.c:CMD_HexLowerCase', 'as.c:CMD_SplitByte', 'as.c:main')
            if f.qname == 'motpseudo.c:ConvertMotoFloatDec':
                ok = True
            if not ok:
                # every read is a direct operand of a formatting sink
                ok = all(data_sink(P, f, f.blocks[b]['elems'][i][1], nd)
                         for (k, ln, nd, b, i) in P.reads(f) if k.split(':')[-1] == opt)
            chk.ob('C17-R2', '%s:%s:%s' % (f.unit.name, f.name, opt), ok, f.loc(),
                   'listed formatting routine' if ok else
                   '%s is read in %s, which is not a text formatting routine: -h / -SPLITBYTE can change code' % (opt, f.name))
    # consumers of formatted float text
    for f in P.all_funcs():
        fmt_e = False
        for b, i, ln, c in f.calls({'as_snprintf', 'as_snprcatf', 'sprintf'}):
            for a in c[2]:
                a = nocast(a)
                if a[0] == 's' and re.search(r'%[-+0-9.]*[eEgG]', a[1]):
                    fmt_e = True
        if not fmt_e:
            continue
        for b, i, ln, c in f.calls({'strchr', 'strrchr', 'strpbrk'}):
            a = nocast(c[2][1])
            n += 1
            # searching for the exponent letter: must be derived from HexStartCharacter (or both cases)
            if a[0] == 'l':
                for b3, i3, l3, m3 in f.nodes():
                    if m3[0] == 'decl' and m3[1] == a[1] and m3[2] is not None and mentions(m3[2], lambda m: var_is(m, {'HexStartCharacter'})):
                        a = nocast(m3[2])
                    elif is_assign(m3) and strip(m3[2]) == a and mentions(m3[3], lambda m: var_is(m, {'HexStartCharacter'})):
                        a = nocast(m3[3])
            ok = mentions(a, lambda m: var_is(m, {'HexStartCharacter'})) or (a[0] == 's' and 'e' in a[1] and 'E' in a[1]) \
                or (const_val(a) is not None and const_val(a) not in (ord('e'), ord('E')))
            chk.ob('C17-R2', '%s:%s:exponent-search' % (f.unit.name, f.name), ok, f.loc(ln),
                   'exponent letter derived from the formatter\'s case setting' if ok else
                   '%s formats a float with %%e and then searches for a fixed-case exponent letter, but the formatter '
                   'writes e or E depending on -h: with the other setting the exponent is lost and different code is '
                   'produced' % f.name)
    if n < 10:
        raise AnalysisBroken('only %d dual-use option reads found' % n)


TIME_ENV = {'time', 'localtime', 'gmtime', 'gettimeofday', 'getenv', 'getcwd', 'clock', 'rand', 'srand', 'random'}
TIME_ENV_OK = {'nls.c', 'nlmessages.c', 'cmdarg.c', 'bpemu.c', 'console.c'}


def rule_r3(chk, facts, P):
    chk.rule('C17-R3', 'clock, environment, working directory and random numbers are consulted only in the NLS/message '
             'catalogue/command-line/path-emulation modules, in asmsub.c GTime() (assembly time display) and in main()',
             min_instances=8)
    for f in P.all_funcs():
        for b, i, ln, c in f.calls(TIME_ENV):
            ok = f.unit.name in TIME_ENV_OK or f.qname in ('asmsub.c:GTime', 'as.c:main')
            chk.ob('C17-R3', '%s:%s:%s' % (f.unit.name, f.name, callee_name(c)), ok, f.loc(ln),
                   'reviewed site' if ok else
                   '%s() is called in %s: the result depends on when/where the assembler runs' % (callee_name(c), f.qname))
    # GTime's result reaches only the time display
    users = sorted({g.qname for (g, b2, i2, l2, n2, d2) in call_sites(P, facts.func('asmsub.c', 'GTime'))})
    ok = set(users) <= {'as.c:AssembleFile', 'as.c:ProcessFile', 'as.c:main'}
    chk.ob('C17-R3', 'asmsub.c:GTime:callers', ok, 'asmsub.c', 'used by %s' % users if ok else 'GTime() is used by %s' % users)


def rule_r4(chk, facts, P):
    chk.rule('C17-R4', 'cmdarg.c ProcessCMD(): the environment variable, an @key file and the command line are all decoded '
             'by ProcessParam() with the same option table', min_instances=3)
    pc = facts.func('cmdarg.c', 'ProcessCMD')
    tab = ('p', 'pCMDRecs')
    routes = {'environment line': 'DecodeLine', 'key file': 'ProcessFile', 'command line': 'ProcessParam'}
    for what, cn in routes.items():
        cs = list(pc.calls(cn))
        ok = bool(cs) and all(any(nocast(a) == tab for a in c[2]) for b, i, ln, c in cs)
        chk.ob('C17-R4', 'cmdarg.c:ProcessCMD:%s' % what.replace(' ', '-'), ok, pc.loc(),
               'decoded with the caller\'s option table' if ok else '%s is not decoded with the common option table' % what)
    for cn in ('DecodeLine', 'ProcessFile'):
        g = facts.func('cmdarg.c', cn)
        reach = P.closure([g], stop=lambda x: x.unit.name != 'cmdarg.c')
        ok = facts.func('cmdarg.c', 'ProcessParam') in reach
        chk.ob('C17-R4', 'cmdarg.c:%s:uses-ProcessParam' % cn, ok, g.loc(), 'routes to ProcessParam()' if ok else
               '%s has its own option decoding' % cn)


def run(chk, facts, info):
    P = facts.program('asl')
    rule_r1(chk, facts, P)
    rule_r1b(chk, facts, P)
    rule_r2(chk, facts, P)
    rule_r3(chk, facts, P)
    chk.rule('C17-R5', 'in the assembler, every ChkIO()/ChkXIO()/ChkStrIO() call (which turns a non-zero errno into a fatal '
             'error) stands under a failure test of the operation it checks or is preceded on every path by errno = 0: '
             'writing a report file (listing, -P macro output, share file) cannot abort the assembly because of a stale '
             'errno', min_instances=80)
    n5 = errno_rule(chk, facts, 'C17-R5', ['asl'])
    if n5 < 80:
        raise AnalysisBroken('only %d ChkIO call sites found' % n5)
    rule_r4(chk, facts, P)
    rule_r6(chk, facts, P)
    rule_r7(chk, facts, P)
    # code that is built from bytes nobody wrote differs from run to run (C14-R11, claimed here for determinism)
    from . import c14_insert
    c14_insert.run(chk, facts, rule='C17-R8')
    chk.note('Decided: non-interference of report-only options with code-affecting state (per read site), confinement '
             'of the dual-use formatting options, reviewed sites of clock/environment reads, single option decoder. Not '
             'decided: listing/MAP text reproducibility, locale-dependent folding of non-ASCII letters, -A tree shape.')
