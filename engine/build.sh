#!/bin/sh
# Build the fact extractor (offline; files on disk only).
set -e
here=$(cd "$(dirname "$0")" && pwd)
mkdir -p "$here/bin"
if [ "$here/bin/aslfacts" -nt "$here/aslfacts.cc" ]; then exit 0; fi
clang++ $(llvm-config-14 --cxxflags) -O1 -fno-rtti "$here/aslfacts.cc" -o "$here/bin/aslfacts.tmp" \
  /usr/lib/llvm-14/lib/libclang-cpp.so.14 /usr/lib/llvm-14/lib/libLLVM-14.so
mv "$here/bin/aslfacts.tmp" "$here/bin/aslfacts"
