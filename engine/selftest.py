"""Two-way test of the rules: every seeded break under selftest/mutants/<pid>/
must make ./check <pid> exit 1 and name the expected rule instance.

A mutant is a unified diff against /repo (paths relative to the repo root)
whose first lines are comments:
    # expect: <rule id> <instance key substring>
    # what: <one line>
Mutants are applied to a scratch copy outside /repo and /verif, which is
removed afterwards."""
import os, sys, subprocess, shutil, tempfile, json, glob, time
from core import VERIF, REPO


def copy_repo(dst):
    def ign(d, names):
        return [n for n in names if n in ('_build', '.git', 'tests')]
    shutil.copytree(REPO, dst, ignore=ign, symlinks=True)
    # CMakeLists references tests/ for the test driver registration
    t = os.path.join(REPO, 'tests')
    if os.path.isdir(t):
        os.makedirs(os.path.join(dst, 'tests'), exist_ok=True)
        for n in os.listdir(t):
            p = os.path.join(t, n)
            if os.path.isfile(p):
                shutil.copy(p, os.path.join(dst, 'tests', n))


def on_reference_tree():
    """True iff /repo is exactly the commit recorded in selftest/REFERENCE with no tracked file modified."""
    try:
        ref = open(os.path.join(VERIF, 'selftest', 'REFERENCE')).read().split()[0]
        head = subprocess.run(['git', '-C', REPO, 'rev-parse', 'HEAD'], stdout=subprocess.PIPE, stderr=subprocess.DEVNULL,
                              text=True)
        st = subprocess.run(['git', '-C', REPO, 'status', '--porcelain', '--untracked-files=no'], stdout=subprocess.PIPE,
                            stderr=subprocess.DEVNULL, text=True)
        return head.returncode == 0 and st.returncode == 0 and head.stdout.strip() == ref and not st.stdout.strip()
    except Exception:
        return False


def parse_meta(path):
    exp, what = [], ''
    for ln in open(path):
        if ln.startswith('# expect:'):
            parts = ln[len('# expect:'):].split(None, 1)
            exp.append((parts[0], parts[1].strip() if len(parts) > 1 else ''))
        elif ln.startswith('# what:'):
            what = ln[len('# what:'):].strip()
        elif not ln.startswith('#'):
            break
    return exp, what


def run_one(pid, diff):
    exp, what = parse_meta(diff)
    tmp = tempfile.mkdtemp(prefix='aslmut-')
    try:
        dst = os.path.join(tmp, 'repo')
        copy_repo(dst)
        r = subprocess.run(['patch', '-p1', '-s', '-d', dst, '-i', diff], stdout=subprocess.PIPE,
                           stderr=subprocess.STDOUT, text=True)
        if r.returncode != 0:
            return False, 'patch does not apply: ' + r.stdout[-300:]
        env = dict(os.environ)
        env['ASL_REPO'] = dst
        env['ASL_NO_EVIDENCE'] = '1'
        env['ASL_CACHE'] = os.path.join(tmp, 'cache')
        r = subprocess.run([sys.executable, os.path.join(VERIF, 'check'), pid, '--repo', dst, '--no-mutants'],
                           stdout=subprocess.PIPE, stderr=subprocess.STDOUT, text=True, env=env, cwd=VERIF)
        out = r.stdout
        if r.returncode != 1:
            return False, 'exit %d instead of 1: %s' % (r.returncode, out[-400:])
        for rule, key in exp:
            hit = any((rule in ln and key in ln) for ln in out.splitlines() if 'VIOLATION' not in ln)
            if not hit:
                return False, 'violation reported but not for %s %s: %s' % (rule, key, out[-600:])
        return True, what
    finally:
        shutil.rmtree(tmp, ignore_errors=True)


def main(pids, quiet=False, chk=None):
    root = os.path.join(VERIF, 'selftest', 'mutants')
    if not pids:
        pids = sorted(os.listdir(root)) if os.path.isdir(root) else []
    bad = 0
    total = 0
    results = []
    jobs = []
    for pid in pids:
        pid = pid.upper()
        for diff in sorted(glob.glob(os.path.join(root, pid, '*.diff'))):
            jobs.append((pid, diff))
    from concurrent.futures import ThreadPoolExecutor

    def work(job):
        t0 = time.time()
        ok, msg = run_one(*job)
        return job, ok, msg, time.time() - t0
    with ThreadPoolExecutor(max_workers=int(os.environ.get('ASL_SELFTEST_JOBS', '6'))) as ex:
        for (pid, diff), ok, msg, dt in ex.map(work, jobs):
            total += 1
            results.append({'mutant': os.path.relpath(diff, VERIF), 'detected': ok, 'note': msg[:200]})
            print('%s %s %s (%.1fs) %s' % ('DETECTED' if ok else 'MISSED  ', pid, os.path.basename(diff),
                                          dt, '' if ok else msg))
            if not ok:
                bad += 1
    print('selftest: %d mutants, %d missed' % (total, bad))
    if chk is not None:
        # append to the evidence already written by the thorough run
        p = os.path.join(VERIF, 'evidence', chk.pid + '.json')
        try:
            ev = json.load(open(p))
            ev['coverage']['seeded_breaks'] = results
            ev['coverage']['seeded_breaks_detected'] = total - bad
            ev['wall_s'] = round(time.time() - chk.t0, 2)
            json.dump(ev, open(p, 'w'), indent=1)
        except Exception:
            pass
    return 1 if bad else 0
