"""Core library: fact loading, expression utilities, CFG queries, call graph.

Facts come from engine/bin/aslfacts (one JSON per translation unit).  All
verdicts are taken here, in Python, over those facts; nothing in this package
runs asl, a tool or the test suite.
"""
import json, os, re, sys, hashlib, subprocess, shutil, tempfile, time, collections

VERIF = os.path.dirname(os.path.dirname(os.path.abspath(__file__)))
REPO = os.environ.get('ASL_REPO', '/repo')

ASSIGN_OPS = {'=', '+=', '-=', '*=', '/=', '%=', '&=', '|=', '^=', '<<=', '>>='}
VARKINDS = ('g', 'gs', 'ls', 'l', 'p')
GLOBKINDS = ('g', 'gs', 'ls')


class AnalysisBroken(Exception):
    pass


# --------------------------------------------------------------------------
# expression helpers

def strip(e):
    """Remove ref/cf wrappers and trailing line numbers; returns nested tuples."""
    if not isinstance(e, (list, tuple)):
        return e
    if not e:
        return ()
    k = e[0]
    if k in ('ref', 'cf'):
        return strip(e[1])
    if k == 'call':
        return ('call', strip(e[1]), tuple(strip(a) for a in e[2]))
    if k == 'b':
        return ('b', e[1], strip(e[2]), strip(e[3]))
    if k == 'u':
        return ('u', e[1], strip(e[2]))
    if k == 'il':
        return ('il', tuple(strip(a) for a in e[1]))
    if k == 'cast':
        return ('cast', e[1], e[2], e[3], strip(e[4]))
    return tuple(strip(x) for x in e)


def nocast(e):
    """strip() and additionally look through cast nodes."""
    e = strip(e)
    return _nocast(e)


def _nocast(e):
    if not isinstance(e, tuple) or not e:
        return e
    if e[0] == 'cast':
        return _nocast(e[4])
    return tuple(_nocast(x) for x in e)


def line_of(e, default=0):
    if isinstance(e, (list, tuple)) and e:
        k = e[0]
        if k == 'call' and len(e) > 3:
            return e[3]
        if k == 'b' and len(e) > 4:
            return e[4]
        if k == 'u' and len(e) > 3:
            return e[3]
        if k in ('ref', 'cf'):
            return line_of(e[1], default)
    return default


def walk(e):
    """All nodes of an expression tree (looks through ref/cf)."""
    if not isinstance(e, (list, tuple)) or not e:
        return
    yield e
    k = e[0]
    if k == 'decl' and len(e) > 2 and e[2] is not None:
        # "T x = init;" is also the assignment x = init: rules written for assignments see it
        yield ['b', '=', ['l', e[1]], e[2]] + ([e[3]] if len(e) > 3 and isinstance(e[3], int) else [])
    if k == 'call':
        yield from walk(e[1])
        for a in e[2]:
            yield from walk(a)
        return
    if k in ('s', 'c', 'e', 'fl', 'g', 'gs', 'ls', 'l', 'p', 'fn', 'd', 'x', 'z'):
        return
    if k == 'il':
        for a in e[1]:
            yield from walk(a)
        return
    for x in e[1:]:
        if isinstance(x, (list, tuple)):
            yield from walk(x)


def walk_own(e):
    """Nodes evaluated as part of this CFG element (skips ref/cf subtrees)."""
    if not isinstance(e, (list, tuple)) or not e:
        return
    k = e[0]
    if k in ('ref', 'cf'):
        return
    yield e
    if k == 'decl' and len(e) > 2 and e[2] is not None:
        yield ['b', '=', ['l', e[1]], e[2]] + ([e[3]] if len(e) > 3 and isinstance(e[3], int) else [])
    if k == 'call':
        yield from walk_own(e[1])
        for a in e[2]:
            yield from walk_own(a)
        return
    if k in ('s', 'c', 'e', 'fl', 'g', 'gs', 'ls', 'l', 'p', 'fn', 'd', 'x', 'z'):
        return
    if k == 'il':
        for a in e[1]:
            yield from walk_own(a)
        return
    for x in e[1:]:
        if isinstance(x, (list, tuple)):
            yield from walk_own(x)


def is_assign(e):
    return isinstance(e, (list, tuple)) and e and e[0] == 'b' and e[1] in ASSIGN_OPS


def is_incdec(e):
    return isinstance(e, (list, tuple)) and e and e[0] == 'u' and e[1] in ('x++', 'x--', '++x', '--x')


def callee_name(e):
    """Name of a directly called function, else None."""
    if isinstance(e, (list, tuple)) and e and e[0] == 'call':
        c = e[1]
        while isinstance(c, (list, tuple)) and c and c[0] in ('ref', 'cf'):
            c = c[1]
        if isinstance(c, (list, tuple)) and c and c[0] == 'fn':
            return c[1]
    return None


def lv_root(e):
    """Root variable of an lvalue: (kind, name, path) where path lists the
    accessors applied ('m:field', 'i', '*', '->field')."""
    path = []
    while isinstance(e, (list, tuple)) and e:
        k = e[0]
        if k in ('ref', 'cf'):
            e = e[1]
        elif k in VARKINDS:
            return (k, e[1], tuple(reversed(path)))
        elif k == 'm':
            path.append(('->' if e[3] else '.') + e[2])
            e = e[1]
        elif k == 'i':
            path.append('[]')
            e = e[1]
        elif k == 'u' and e[1] == '*':
            path.append('*')
            e = e[2]
        elif k == 'cast':
            e = e[4]
        elif k == 'b' and e[1] in ('+', '-'):
            # pointer arithmetic: follow the pointer side
            path.append('+')
            e = e[2]
        else:
            return None
    return None


def is_deref_path(path):
    """True if the access goes through a pointer held in the root variable."""
    return any(p == '*' or p.startswith('->') for p in path)


def const_val(e):
    e = strip(e)
    if isinstance(e, tuple) and e:
        if e[0] == 'c':
            v = e[1]
            return int(v) if isinstance(v, str) else v
        if e[0] == 'e':
            v = e[2]
            return int(v) if isinstance(v, str) else v
        if e[0] == 'cast':
            return const_val(e[4])
    return None


def show(e, depth=0):
    """Readable rendering of an expression tree."""
    e = strip(e) if depth == 0 else e
    if not isinstance(e, tuple) or not e:
        return str(e)
    k = e[0]
    if k in VARKINDS or k in ('fn', 'd'):
        return e[1]
    if k == 'c':
        return str(e[1])
    if k == 'e':
        return e[1]
    if k == 's':
        return json.dumps(e[1])
    if k == 'fl':
        return str(e[1])
    if k == 'm':
        return show(e[1], 1) + ('->' if e[3] else '.') + e[2].split('.')[-1]
    if k == 'i':
        return show(e[1], 1) + '[' + show(e[2], 1) + ']'
    if k == 'u':
        if e[1].startswith('x'):
            return show(e[2], 1) + e[1][1:]
        return e[1].replace('x', '') + show(e[2], 1)
    if k == 'b':
        return '(' + show(e[2], 1) + ' ' + e[1] + ' ' + show(e[3], 1) + ')'
    if k == '?':
        return '(' + show(e[1], 1) + ' ? ' + show(e[2], 1) + ' : ' + show(e[3], 1) + ')'
    if k == 'call':
        return show(e[1], 1) + '(' + ', '.join(show(a, 1) for a in e[2]) + ')'
    if k == 'cast':
        return '(cast%s)' % e[2] + show(e[4], 1)
    if k == 'decl' or k == 'sdecl':
        return e[1] + (' := ' + show(e[2], 1) if e[2] is not None else '')
    if k == 'ret':
        return 'return ' + (show(e[1], 1) if e[1] is not None else '')
    if k == 'il':
        return '{' + ', '.join(show(a, 1) for a in e[1]) + '}'
    if k == 'sizeof':
        return 'sizeof(..)'
    return str(e)


# --------------------------------------------------------------------------
# condition atoms

NEG = {'==': '!=', '!=': '==', '<': '>=', '>=': '<', '>': '<=', '<=': '>'}
SWAP = {'==': '==', '!=': '!=', '<': '>', '>': '<', '<=': '>=', '>=': '<='}


def atoms(cond, pol):
    """Facts that hold when `cond` evaluates to `pol` (True/False).
    Atoms: ('nz', expr) expr is non-zero/true; ('z', expr); ('cmp', op, l, r).
    Conjunctions are flattened where the polarity allows it."""
    c = nocast(cond)
    out = []
    _atoms(c, pol, out)
    return out


def _atoms(c, pol, out):
    if not isinstance(c, tuple) or not c:
        return
    k = c[0]
    if k == 'u' and c[1] == '!':
        _atoms(c[2], not pol, out)
        return
    if k == 'b' and c[1] == '&&':
        if pol:
            _atoms(c[2], True, out)
            _atoms(c[3], True, out)
        return
    if k == 'b' and c[1] == '||':
        if not pol:
            _atoms(c[2], False, out)
            _atoms(c[3], False, out)
        return
    if k == 'b' and c[1] in NEG:
        op = c[1] if pol else NEG[c[1]]
        l, r = c[2], c[3]
        out.append(('cmp', op, l, r))
        out.append(('cmp', SWAP[op], r, l))
        # comparisons with zero double as truth atoms
        rv, lv = const_val(r), const_val(l)
        if rv == 0:
            if op == '!=':
                out.append(('nz', l))
            elif op == '==':
                out.append(('z', l))
            elif op == '>':
                out.append(('nz', l))
        if lv == 0:
            if op == '!=':
                out.append(('nz', r))
            elif op == '==':
                out.append(('z', r))
            elif op == '<':
                out.append(('nz', r))
        return
    out.append(('nz' if pol else 'z', c))
    # `(x & mask)` etc. are plain truth atoms


# --------------------------------------------------------------------------
# functions and CFGs

class Func:
    __slots__ = ('unit', 'name', 'static', 'file', 'line', 'endline', 'params', 'locals',
                 'blocks', 'entry', 'exit', 'type', '_preds', '_edges', 'raw')

    def __init__(self, unit, raw):
        self.unit = unit
        self.raw = raw
        self.name = raw['name']
        self.static = raw['static']
        self.file = raw['file']
        self.line = raw['line']
        self.endline = raw.get('endline', 0)
        self.params = raw['params']
        self.locals = raw['locals']
        self.type = raw.get('type', '')
        self.blocks = {b['id']: b for b in raw.get('blocks', [])}
        for b in self.blocks.values():
            if b.get('noreturn'):
                # clang links no-return blocks to EXIT; for path queries they end here
                b['succ'] = []
        self.entry = raw.get('entry')
        self.exit = raw.get('exit')
        self._preds = None
        self._edges = None

    @property
    def qname(self):
        return self.unit.name + ':' + self.name

    def loc(self, line=None):
        return '%s:%d' % (self.file, line if line else self.line)

    def edges(self):
        """List of (src, dst, label).  label: None, ('T', cond), ('F', cond),
        ('case', values, switch_cond), ('default', switch_cond, other_case_values)."""
        if self._edges is not None:
            return self._edges
        E = []
        for b in self.blocks.values():
            succ = [s for s in b['succ']]
            term = b.get('term')
            if term and term[0] == 'SwitchStmt':
                cond = b.get('cond')
                allvals = []
                for s in succ:
                    if s is None or s < 0:
                        continue
                    lab = self.blocks[s].get('label')
                    if lab and lab[0] == 'case':
                        allvals.extend(self._case_vals(lab))
                for s in succ:
                    if s is None or s < 0:
                        continue
                    lab = self.blocks[s].get('label')
                    if lab and lab[0] == 'case':
                        E.append((b['id'], s, ('case', tuple(self._case_vals(lab)), cond)))
                    else:
                        E.append((b['id'], s, ('default', cond, tuple(allvals))))
            elif len(succ) == 2 and b.get('cond') is not None:
                for i, s in enumerate(succ):
                    if s is None or s < 0:
                        continue
                    E.append((b['id'], s, ('T' if i == 0 else 'F', b['cond'])))
            else:
                for s in succ:
                    if s is None or s < 0:
                        continue
                    E.append((b['id'], s, None))
        self._edges = E
        return E

    @staticmethod
    def _case_vals(lab):
        lo = const_val(lab[1])
        if len(lab) > 2:
            hi = const_val(lab[2])
            if lo is not None and hi is not None and hi - lo < 4096:
                return list(range(lo, hi + 1))
        return [lo]

    def succs(self):
        d = collections.defaultdict(list)
        for s, t, l in self.edges():
            d[s].append((t, l))
        return d

    def preds(self):
        if self._preds is None:
            d = collections.defaultdict(list)
            for s, t, l in self.edges():
                d[t].append((s, l))
            self._preds = d
        return self._preds

    def elems(self):
        """Yield (block id, index, line, expr) for every CFG element."""
        for bid, b in self.blocks.items():
            for i, (ln, ex) in enumerate(b['elems']):
                yield bid, i, ln, ex

    def nodes(self):
        """Yield (block id, index, line, node) for every node evaluated in the
        function, each exactly once."""
        for bid, i, ln, ex in self.elems():
            for n in walk_own(ex):
                yield bid, i, (line_of(n) or ln), n

    def calls(self, name=None):
        for bid, i, ln, n in self.nodes():
            if n[0] == 'call':
                cn = callee_name(n)
                if name is None or cn == name or (isinstance(name, (set, frozenset, tuple, list)) and cn in name):
                    yield bid, i, ln, n

    # ---- path queries -------------------------------------------------
    def reachable_from_entry(self, edge_ok, stop=None):
        """Blocks reachable from entry using only edges for which edge_ok(src,
        dst, label) is true; stop(bid) true means paths end in that block.
        Returns dict block -> predecessor (for witnesses)."""
        succ = self.succs()
        seen = {self.entry: None}
        work = [self.entry]
        while work:
            b = work.pop()
            if stop is not None and stop(b):
                continue
            for t, l in succ.get(b, ()):
                if t in seen:
                    continue
                if not edge_ok(b, t, l):
                    continue
                seen[t] = b
                work.append(t)
        return seen

    def witness(self, seen, bid):
        path = []
        visited = set()
        while bid is not None and bid not in visited:
            visited.add(bid)
            path.append(bid)
            bid = seen.get(bid)
        path.reverse()
        out = []
        for b in path:
            blk = self.blocks[b]
            ln = blk['elems'][0][0] if blk['elems'] else (blk.get('term') or [0, 0])[1]
            out.append('B%d@%d' % (b, ln))
        return out

    def guarded(self, bid, idx, fact_edge, fact_elem=None, start=None, edge_ok=None):
        """True iff every path from entry to element (bid, idx) crosses an edge
        on which fact_edge(label) holds, or passes an element e for which
        fact_elem(expr) holds before the site.  Returns (ok, witness)."""
        succ = self.succs()
        st = self.entry if start is None else start
        seen = {st: None}
        work = [st]
        first = True
        while work:
            b = work.pop()
            elems = self.blocks[b]['elems']
            lim = idx if b == bid else len(elems)
            est = False
            if fact_elem is not None:
                for i in range(lim):
                    if fact_elem(elems[i][1]):
                        est = True
                        break
            if b == bid and not est:
                return False, self.witness(seen, b)
            if est:
                continue
            for t, l in succ.get(b, ()):
                if t in seen:
                    continue
                if l is not None and fact_edge(l):
                    continue
                if edge_ok is not None and not edge_ok(b, t, l):
                    continue
                seen[t] = b
                work.append(t)
        return True, []

    def loop_body(self, h, s0):
        """Blocks of the natural loop with header h entered through s0."""
        fwd = self.reach_forward([s0], block_stop=lambda b: b == h)
        preds = self.preds()
        tails = [p for p, l in preds.get(h, ()) if p in fwd]
        body = {h}
        work = list(tails)
        while work:
            b = work.pop()
            if b in body or b not in fwd:
                continue
            body.add(b)
            for p, l in preds.get(b, ()):
                if p not in body:
                    work.append(p)
        return body

    def loops(self):
        """[(header block, body entry block)] for while/for/do loops."""
        out = []
        for b in self.blocks.values():
            t = b.get('term')
            if t and t[0] in ('WhileStmt', 'ForStmt', 'DoStmt') and len(b['succ']) == 2:
                s0 = b['succ'][0]
                if s0 is not None and s0 >= 0:
                    out.append((b['id'], s0))
        return out

    def reaching_defs(self, bid, idx, var):
        """Definitions (assign / inc-dec / decl nodes) of local `var` that may
        reach element (bid, idx).  var is a stripped ('l'|'p', name)."""
        def defs_in(ex):
            out = []
            for n in walk_own(ex):
                if (is_assign(n) or is_incdec(n)) and strip(n[2]) == var:
                    out.append(n)
                elif n[0] == 'decl' and var[0] == 'l' and n[1] == var[1] and n[2] is not None:
                    out.append(n)
            return out
        preds = self.preds()
        found = []
        seen = set()
        work = [(bid, idx)]
        while work:
            b, upto = work.pop()
            elems = self.blocks[b]['elems']
            hit = False
            for j in range(min(upto, len(elems)) - 1, -1, -1):
                ds = defs_in(elems[j][1])
                if ds:
                    found.extend(ds)
                    hit = True
                    break
            if hit:
                continue
            for p, l in preds.get(b, ()):
                if p not in seen:
                    seen.add(p)
                    work.append((p, 1 << 30))
        return found

    def reach_forward(self, start_blocks, edge_ok=None, block_stop=None):
        succ = self.succs()
        seen = set(start_blocks)
        work = list(start_blocks)
        while work:
            b = work.pop()
            if block_stop is not None and block_stop(b):
                continue
            for t, l in succ.get(b, ()):
                if t in seen:
                    continue
                if edge_ok is not None and not edge_ok(b, t, l):
                    continue
                seen.add(t)
                work.append(t)
        return seen

    def must_pass(self, bid, idx, through_elem, edge_ok=None):
        """Every path from just after element (bid, idx) to the function exit
        contains an element for which through_elem(expr) is true.
        Returns (ok, witness_blocks)."""
        blk = self.blocks[bid]
        for i in range(idx + 1, len(blk['elems'])):
            if through_elem(blk['elems'][i][1]):
                return True, []
        succ = self.succs()
        seen = {}
        work = []
        for t, l in succ.get(bid, ()):
            if edge_ok is None or edge_ok(bid, t, l):
                if t not in seen:
                    seen[t] = bid
                    work.append(t)
        while work:
            b = work.pop()
            if b == self.exit:
                return False, self.witness(seen, b)
            if any(through_elem(ex) for ln, ex in self.blocks[b]['elems']):
                continue
            for t, l in succ.get(b, ()):
                if t in seen:
                    continue
                if edge_ok is not None and not edge_ok(b, t, l):
                    continue
                seen[t] = b
                work.append(t)
        return True, []

    def last_writers(self, bid, idx, classify):
        """May-analysis: the set of labels classify(expr) (not None) of the
        elements that can be the most recent labelled element on some path
        from entry to just before (bid, idx); 'entry' if none on some path."""
        succ = self.succs()
        out = {}
        inn = {self.entry: {'entry'}}
        work = [self.entry]
        n = 0
        while work:
            b = work.pop()
            n += 1
            if n > 20000:
                raise AnalysisBroken('last_writers did not converge in ' + self.qname)
            st = set(inn.get(b, ()))
            for ln, ex in self.blocks[b]['elems']:
                k = classify(ex)
                if k is not None:
                    st = {k}
            if out.get(b) == st:
                continue
            out[b] = st
            for t, l in succ.get(b, ()):
                old = inn.get(t, set())
                new = old | st
                if new != old or t not in out:
                    inn[t] = new
                    work.append(t)
        st = set(inn.get(bid, ()))
        for j in range(idx):
            k = classify(self.blocks[bid]['elems'][j][1])
            if k is not None:
                st = {k}
        return st

    def dominated_by_elem(self, bid, idx, pred_elem):
        """Every path from entry to (bid, idx) contains an element satisfying
        pred_elem before reaching the site."""
        ok, w = self.guarded(bid, idx, lambda l: False, pred_elem)
        return ok, w


def edge_has_atom(label, want):
    """want(atom) -> bool; label is an edge label from Func.edges()."""
    if label is None:
        return False
    k = label[0]
    if k in ('T', 'F'):
        for a in atoms(label[1], k == 'T'):
            if want(a):
                return True
        return False
    if k == 'case':
        sc = nocast(label[2])
        for v in label[1]:
            if want(('cmp', '==', sc, ('c', v))) :
                return True
        if len(label[1]) == 1 and label[1][0] is not None and label[1][0] != 0:
            if want(('nz', sc)):
                return True
        return False
    if k == 'default':
        sc = nocast(label[1])
        for v in label[2]:
            if want(('cmp', '!=', sc, ('c', v))):
                return True
        if 0 in label[2] and want(('nz', sc)):
            return True
        return False
    return False


class Unit:
    def __init__(self, raw):
        self.name = raw['unit']
        self.raw = raw
        self.funcs = {}
        for f in raw['funcs']:
            fn = Func(self, f)
            # a header-defined inline may appear once per unit; keep first
            self.funcs.setdefault(fn.name, fn)
        self.globals = {}
        for g in raw['globals']:
            key = g['name'] if g['kind'] != 'ls' else g['func'] + '::' + g['name']
            old = self.globals.get(key)
            if old is None or (g.get('def') and not old.get('def')) or ('init' in g and 'init' not in old):
                self.globals[key] = g
        self.enums = raw['enums']
        self.records = raw['records']
        self.protos = {p['name']: p for p in raw['protos']}


class Facts:
    """All units of the tree, plus per-executable grouping."""

    def __init__(self, factdir, exes):
        self.dir = factdir
        self.exes = exes            # exe name -> list of unit file names
        self._units = {}

    def unit(self, name):
        u = self._units.get(name)
        if u is None:
            p = os.path.join(self.dir, name + '.json')
            if not os.path.exists(p):
                raise AnalysisBroken('no facts for unit %s' % name)
            with open(p) as f:
                u = Unit(json.load(f))
            self._units[name] = u
        return u

    def all_unit_names(self):
        return sorted(n[:-5] for n in os.listdir(self.dir) if n.endswith('.c.json'))

    def units(self, names=None):
        for n in (names if names is not None else self.all_unit_names()):
            yield self.unit(n)

    def func(self, unit, name):
        f = self.unit(unit).funcs.get(name)
        if f is None:
            raise AnalysisBroken('anchor function %s:%s not found' % (unit, name))
        return f

    def program(self, exe):
        if exe not in self.exes:
            raise AnalysisBroken('executable %s not in build graph' % exe)
        return Program(self, exe, self.exes[exe])


class Program:
    """Whole-program view for one executable: function resolution and the
    resolved call graph incl. registry slots (analysis A1)."""

    def __init__(self, facts, exe, unit_names):
        self.facts = facts
        self.exe = exe
        self.unit_names = list(unit_names)
        self.units = [facts.unit(n) for n in unit_names]
        self.gfuncs = {}
        for u in self.units:
            for f in u.funcs.values():
                if not f.static:
                    self.gfuncs.setdefault(f.name, f)
        self._cg = None
        self._slots = None
        self._prune_noreturn()

    def _prune_noreturn(self):
        """Infer functions that never return (every path ends in exit() or
        another such function) and cut the CFGs after calls to them."""
        known = set()
        changed = True
        rounds = 0
        while changed and rounds < 6:
            changed = False
            rounds += 1
            for f in self.all_funcs():
                if f in known or f.entry is None:
                    continue
                if known:
                    for bid, b in f.blocks.items():
                        for i, (ln, ex) in enumerate(b['elems']):
                            hit = False
                            for n in walk_own(ex):
                                if n[0] == 'call':
                                    cn = callee_name(n)
                                    if cn is None:
                                        ts, how = self.indirect_targets(f, n)
                                        if how == 'slot' and ts and all(t in known for t in ts):
                                            hit = True
                                            break
                                        continue
                                    t = self.resolve(f.unit, cn) if cn else None
                                    if t is not None and t in known:
                                        hit = True
                                        break
                            if hit and (b['succ'] or i + 1 < len(b['elems'])):
                                b['elems'] = b['elems'][:i + 1]
                                b['succ'] = []
                                b.pop('cond', None)
                                b['noreturn'] = True
                                f._edges = None
                                f._preds = None
                                break
                seen = f.reach_forward([f.entry])
                if f.exit not in seen:
                    known.add(f)
                    changed = True
        self.noreturn = known

    def resolve(self, unit, name):
        f = unit.funcs.get(name)
        if f is not None:
            return f
        return self.gfuncs.get(name)

    def all_funcs(self):
        for u in self.units:
            for f in u.funcs.values():
                yield f

    # ---- slots: where function addresses are stored ---------------------
    def fkey(self, f):
        return f.qname if f.static else f.name

    def _flow_keys(self, u, f, e):
        """Value-flow sources of expression e: list of Func or slot-key str."""
        e = nocast(e)
        out = []
        if not isinstance(e, tuple) or not e:
            return out
        k = e[0]
        if k == 'fn':
            t = self.resolve(u, e[1])
            if t is not None:
                out.append(t)
        elif k == 'p' and f is not None:
            names = [p['name'] for p in f.params]
            if e[1] in names:
                out.append('arg:%s:%d' % (self.fkey(f), names.index(e[1])))
        elif k in ('g', 'gs'):
            out.append('g:' + e[1])
        elif k == 'ls' and f is not None:
            out.append('local:%s:%s' % (f.qname, e[1]))
        elif k == 'l' and f is not None:
            out.append('local:%s:%s' % (f.qname, e[1]))
        elif k == 'm':
            out.append('f:' + e[2])
        elif k == 'i':
            out.extend(self._flow_keys(u, f, e[1]))
        elif k == '?':
            out.extend(self._flow_keys(u, f, e[2]))
            out.extend(self._flow_keys(u, f, e[3]))
        elif k == 'u' and e[1] in ('*', '&'):
            out.extend(self._flow_keys(u, f, e[2]))
        elif k == 'b' and e[1] == ',':
            out.extend(self._flow_keys(u, f, e[3]))
        return out

    def _init_flows(self, u, init, key, flows):
        """Distribute a static initialiser over record fields."""
        init = init if isinstance(init, (list, tuple)) else None
        if not init:
            return
        while init and init[0] in ('ref', 'cf'):
            init = init[1]
        if init[0] == 'il':
            rec = init[2] if len(init) > 2 else None
            fields = u.records.get(rec) if rec else None
            for idx, el in enumerate(init[1]):
                if fields is not None and idx < len(fields):
                    self._init_flows(u, el, 'f:%s.%s' % (rec, fields[idx]['name']), flows)
                else:
                    self._init_flows(u, el, key, flows)
            return
        for src in self._flow_keys(u, None, init):
            flows.append((src, key))

    def slots(self):
        """slot key -> set of Func that may be stored there (fixpoint over the
        value-flow of function addresses).  Keys: 'g:NAME' global pointer,
        'f:Record.field' struct field, 'arg:FUNC:i' i-th parameter of FUNC,
        'local:UNIT:FUNC:NAME' local pointer variable."""
        if self._slots is not None:
            return self._slots
        flows = []   # (src Func|key, dst key)
        for u in self.units:
            for g in u.globals.values():
                if 'init' in g and g['init'] is not None:
                    self._init_flows(u, g['init'], 'g:' + g['name'], flows)
            for f in u.funcs.values():
                for bid, i, ln, n in f.nodes():
                    if is_assign(n) and n[1] == '=':
                        dst = self._flow_keys(u, f, n[2])
                        dst = [d for d in dst if isinstance(d, str)]
                        if not dst:
                            continue
                        for src in self._flow_keys(u, f, n[3]):
                            for d in dst:
                                flows.append((src, d))
                    elif n[0] == 'call':
                        cn = callee_name(n)
                        t = self.resolve(u, cn) if cn else None
                        if t is None:
                            if cn is None:
                                continue
                            tk = cn
                        else:
                            tk = self.fkey(t)
                        for ai, a in enumerate(n[2]):
                            for src in self._flow_keys(u, f, a):
                                flows.append((src, 'arg:%s:%d' % (tk, ai)))
                    elif n[0] in ('decl', 'sdecl') and n[2] is not None:
                        d = 'local:%s:%s' % (f.qname, n[1])
                        ini = n[2]
                        if isinstance(ini, (list, tuple)) and ini and ini[0] == 'il':
                            self._init_flows(u, ini, d, flows)
                        else:
                            for src in self._flow_keys(u, f, ini):
                                flows.append((src, d))
        S = collections.defaultdict(set)
        succ = collections.defaultdict(set)
        for src, dst in flows:
            if isinstance(src, str):
                succ[src].add(dst)
            else:
                S[dst].add(src)
        work = list(S.keys())
        while work:
            k = work.pop()
            for d in succ.get(k, ()):
                before = len(S[d])
                S[d] |= S[k]
                if len(S[d]) != before:
                    work.append(d)
        self._slots = S
        return S

    def addr_taken(self):
        s = set()
        for k, v in self.slots().items():
            s |= v
        return s

    def indirect_targets(self, f, call):
        """Possible targets of an indirect call node inside function f."""
        S = self.slots()
        keys = [k for k in self._flow_keys(f.unit, f, call[1]) if isinstance(k, str)]
        res = set()
        hit = False
        for k in keys:
            if k in S:
                res |= S[k]
                hit = True
        if hit:
            return res, 'slot'
        if keys:
            return set(), 'slot-empty'
        nargs = len(call[2])
        cand = {t for t in self.addr_taken() if len(t.params) == nargs}
        return cand, 'type'

    def callgraph(self):
        """dict Func -> set(Func) (resolved, over-approximating)."""
        if self._cg is not None:
            return self._cg
        cg = {}
        self.unresolved = []
        self.indirect_stats = collections.Counter()
        for f in self.all_funcs():
            out = set()
            for bid, i, ln, n in f.nodes():
                if n[0] != 'call':
                    continue
                cn = callee_name(n)
                if cn is not None:
                    t = self.resolve(f.unit, cn)
                    if t is not None:
                        out.add(t)
                else:
                    ts, how = self.indirect_targets(f, n)
                    self.indirect_stats[how] += 1
                    out |= ts
            cg[f] = out
        self._cg = cg
        return cg

    def closure(self, roots, stop=None):
        cg = self.callgraph()
        seen = set()
        work = list(roots)
        while work:
            f = work.pop()
            if f in seen:
                continue
            if stop is not None and stop(f):
                continue
            seen.add(f)
            work.extend(cg.get(f, ()))
        return seen

    def callers(self):
        cg = self.callgraph()
        rev = collections.defaultdict(set)
        for f, ts in cg.items():
            for t in ts:
                rev[t].add(f)
        return rev

    # ---- global variable accesses ---------------------------------------
    def gkey(self, f, kind, name):
        """Program-wide key of a variable with static storage duration."""
        if kind == 'g':
            return name
        if kind == 'gs':
            return f.unit.name + ':' + name
        if kind == 'ls':
            return f.unit.name + ':' + f.name + '::' + name
        return None

    def writes(self, f):
        """Yield (gkey, how, line, node) for writes to static-storage variables
        in f.  how: '=' whole, 'op' read-modify-write, 'elem' part of the object
        (field/array element), 'ptr' through the pointer held in the variable,
        'addr' address escapes to a callee."""
        for bid, i, ln, n in f.nodes():
            tgt = None
            if is_assign(n):
                tgt = n[2]
                op = n[1]
            elif is_incdec(n):
                tgt = n[2]
                op = '++'
            if tgt is not None:
                r = lv_root(tgt)
                if r and r[0] in GLOBKINDS:
                    k = self.gkey(f, r[0], r[1])
                    gi0 = self.ginfo(f, r[0], r[1]) if r[2] == ('*',) else None
                    if gi0 is not None and 'arr' in gi0['type']:
                        how = 'elem'      # *Array = x stores the first element
                    elif is_deref_path(r[2]):
                        how = 'ptr'
                    elif r[2]:
                        how = 'elem'
                    else:
                        how = '=' if op == '=' else 'op'
                    yield k, how, ln, n, bid, i
            if n[0] == 'call':
                for a in n[2]:
                    a2 = strip(a)
                    if isinstance(a2, tuple) and a2 and a2[0] == 'u' and a2[1] == '&':
                        r = lv_root(a2[2])
                        if r and r[0] in GLOBKINDS and not is_deref_path(r[2]):
                            yield self.gkey(f, r[0], r[1]), 'addr', ln, n, bid, i
                    else:
                        # arrays decay: passing a global array lets the callee write it
                        r = lv_root(a2) if isinstance(a2, tuple) else None
                        if r and r[0] in GLOBKINDS and not is_deref_path(r[2]):
                            gi = self.ginfo(f, r[0], r[1])
                            if gi is not None and 'arr' in gi['type'] and len([p for p in r[2] if p == '[]']) < len(gi['type']['arr']):
                                yield self.gkey(f, r[0], r[1]), 'addr', ln, n, bid, i

    def write_index(self):
        """gkey -> [(f, how, line, node, bid, idx)] over the whole program."""
        if getattr(self, '_widx', None) is None:
            d = collections.defaultdict(list)
            for f in self.all_funcs():
                for k, how, ln, n, bid, i in self.writes(f):
                    d[k].append((f, how, ln, n, bid, i))
            self._widx = d
        return self._widx

    def field_write_index(self):
        """'Rec.field' -> [(f, op, line, node, bid, idx)] for every store whose
        outermost accessor is that field (any base object)."""
        if getattr(self, '_fwidx', None) is None:
            d = collections.defaultdict(list)
            for f in self.all_funcs():
                for bid, i, ln, n in f.nodes():
                    tgt = None
                    if is_assign(n):
                        tgt, op = n[2], n[1]
                    elif is_incdec(n):
                        tgt, op = n[2], '++'
                    if tgt is None:
                        continue
                    t = strip(tgt)
                    while isinstance(t, tuple) and t and t[0] == 'i':
                        t = t[1]
                    if isinstance(t, tuple) and t and t[0] == 'm':
                        d[t[2]].append((f, op, ln, n, bid, i))
            self._fwidx = d
        return self._fwidx

    def field_inits(self, field):
        """Values given to 'Rec.field' in static/local initialiser lists."""
        if getattr(self, '_finit', None) is None:
            d = collections.defaultdict(list)
            def rec(u, init, where):
                if not isinstance(init, (list, tuple)) or not init:
                    return
                while init[0] in ('ref', 'cf'):
                    init = init[1]
                if init[0] == 'il':
                    r = init[2] if len(init) > 2 else None
                    fields = u.records.get(r) if r else None
                    for idx, el in enumerate(init[1]):
                        if fields is not None and idx < len(fields):
                            d['%s.%s' % (r, fields[idx]['name'])].append((where, el))
                        rec(u, el, where)
            for u in self.units:
                for g in u.globals.values():
                    if g.get('init') is not None:
                        rec(u, g['init'], u.name + ':' + g['name'])
                for f in u.funcs.values():
                    for bid, i, ln, n in f.nodes():
                        if n[0] in ('decl', 'sdecl') and n[2] is not None:
                            rec(u, n[2], f.qname + ':' + n[1])
            self._finit = d
        return self._finit.get(field, [])

    def ginfo(self, f, kind, name):
        if kind == 'ls':
            return f.unit.globals.get(f.name + '::' + name)
        g = f.unit.globals.get(name)
        return g

    def reads(self, f):
        """Yield (gkey, line, node) for every reference to a static-storage
        variable in f that is not a pure store target."""
        for bid, i, ln, ex in f.elems():
            yield from self._reads(f, ex, ln, bid, i)

    def _reads(self, f, ex, ln, bid, i):
        pure_targets = set()
        for n in walk_own(ex):
            if is_assign(n) and n[1] == '=':
                t = n[2]
                while isinstance(t, (list, tuple)) and t and t[0] in ('ref', 'cf'):
                    t = t[1]
                if isinstance(t, (list, tuple)) and t and t[0] in GLOBKINDS:
                    pure_targets.add(id(t))
        for n in walk_own(ex):
            if n[0] in GLOBKINDS and id(n) not in pure_targets:
                yield self.gkey(f, n[0], n[1]), (line_of(n) or ln), n, bid, i


def slot_key(lhs):
    if not isinstance(lhs, tuple) or not lhs:
        return None
    k = lhs[0]
    if k in ('g', 'gs'):
        return 'g:' + lhs[1]
    if k == 'm':
        return 'f:' + lhs[2]
    if k == 'i':
        return slot_key(lhs[1])
    if k == 'u' and lhs[1] == '*':
        return slot_key(lhs[2])
    return None


# --------------------------------------------------------------------------
# building the facts from /repo's working tree

def tree_hash(repo):
    h = hashlib.sha256()
    names = []
    for n in sorted(os.listdir(repo)):
        if n.endswith(('.c', '.h', '.res', '.txt', '.in', '.cmake')) or n == 'CMakeLists.txt':
            names.append(n)
    for n in names:
        p = os.path.join(repo, n)
        if os.path.isfile(p):
            h.update(n.encode())
            with open(p, 'rb') as f:
                h.update(f.read())
    cm = os.path.join(repo, 'cmake')
    if os.path.isdir(cm):
        for n in sorted(os.listdir(cm)):
            p = os.path.join(cm, n)
            if os.path.isfile(p):
                h.update(n.encode())
                with open(p, 'rb') as f:
                    h.update(f.read())
    tool = os.path.join(VERIF, 'engine', 'bin', 'aslfacts')
    with open(tool, 'rb') as f:
        h.update(f.read())
    return h.hexdigest()[:24]


RES_TARGETS = ['ioerrs_res', 'cmdarg_res', 'tools_res', 'as_res', 'das_res', 'plist_res',
               'alink_res', 'pbind_res', 'p2hex_res', 'p2bin_res']


def parse_exes(build_ninja):
    """Executable -> list of unit basenames, from the link edges."""
    exes = {}
    objlibs = {}
    txt = open(build_ninja).read()
    for m in re.finditer(r'^build (\S+): C_EXECUTABLE_LINKER__(\S+?)_\S* (.*?)$', txt, re.M):
        exe = m.group(2)
        deps = m.group(3).split('|')[0].split()
        units = []
        for d in deps:
            mm = re.match(r'CMakeFiles/[^/]+\.dir/(.+)\.c\.o$', d)
            if mm:
                units.append(os.path.basename(mm.group(1)) + '.c')
        exes[exe] = units
    return exes


def build_facts(repo=REPO, verbose=False):
    """Returns (Facts, info).  Uses a content-addressed cache in /verif/.cache."""
    tool = os.path.join(VERIF, 'engine', 'bin', 'aslfacts')
    if not os.path.exists(tool):
        r = subprocess.run([os.path.join(VERIF, 'engine', 'build.sh')])
        if r.returncode != 0 or not os.path.exists(tool):
            raise AnalysisBroken('fact extractor not built (run engine/build.sh)')
    key = tree_hash(repo)
    cache_root = os.environ.get('ASL_CACHE') or os.path.join(VERIF, '.cache')
    os.makedirs(cache_root, exist_ok=True)
    cdir = os.path.join(cache_root, key)
    info_p = os.path.join(cdir, 'info.json')
    if not os.path.exists(info_p):
        t0 = time.time()
        scratch = tempfile.mkdtemp(prefix='aslverif-')
        try:
            b = os.path.join(scratch, 'b')
            r = subprocess.run(['cmake', '-G', 'Ninja', '-S', repo, '-B', b,
                                '-DCMAKE_EXPORT_COMPILE_COMMANDS=ON'],
                               stdout=subprocess.PIPE, stderr=subprocess.STDOUT, text=True)
            if r.returncode != 0:
                raise AnalysisBroken('cmake configure failed:\n' + r.stdout[-2000:])
            r = subprocess.run(['ninja', '-C', b] + RES_TARGETS,
                               stdout=subprocess.PIPE, stderr=subprocess.STDOUT, text=True)
            if r.returncode != 0:
                raise AnalysisBroken('resource generation failed:\n' + r.stdout[-2000:])
            db = json.load(open(os.path.join(b, 'compile_commands.json')))
            files = sorted({d['file'] for d in db})
            exes = parse_exes(os.path.join(b, 'build.ninja'))
            out = os.path.join(scratch, 'facts')
            os.makedirs(out)
            # one process per group of files, 16 at a time, one output per unit
            groups = [files[i::16] for i in range(16)]
            procs = []
            for g in groups:
                if not g:
                    continue
                procs.append(subprocess.Popen([tool, '--out', out, '--repo', repo, '-p', b] + g,
                                              stdout=subprocess.PIPE, stderr=subprocess.STDOUT, text=True))
            errs = []
            for p in procs:
                o, _ = p.communicate()
                if p.returncode != 0:
                    errs.append(o[-3000:])
            if errs:
                raise AnalysisBroken('fact extraction failed:\n' + '\n'.join(errs))
            got = [n for n in os.listdir(out) if n.endswith('.json')]
            if len(got) != len(files):
                raise AnalysisBroken('units parsed %d != units in compile database %d' % (len(got), len(files)))
            # generated headers the witness TU needs
            inc = os.path.join(out, 'include')
            os.makedirs(inc)
            for n in os.listdir(b):
                if n.endswith(('.h', '.rsc')):
                    shutil.copy(os.path.join(b, n), os.path.join(inc, n))
            info = {'units': len(files), 'exes': exes, 'extract_s': round(time.time() - t0, 2),
                    'files': [os.path.basename(f) for f in files]}
            json.dump(info, open(os.path.join(out, 'info.json'), 'w'))
            tmpc = cdir + '.tmp%d' % os.getpid()
            shutil.rmtree(tmpc, ignore_errors=True)
            shutil.copytree(out, tmpc)
            try:
                os.rename(tmpc, cdir)
            except OSError:
                shutil.rmtree(tmpc, ignore_errors=True)
        finally:
            shutil.rmtree(scratch, ignore_errors=True)
        # prune old cache entries (keep the 3 most recent)
        ents = sorted((os.path.getmtime(os.path.join(cache_root, d)), d) for d in os.listdir(cache_root)
                      if os.path.isdir(os.path.join(cache_root, d)) and '.tmp' not in d)
        for mt, d in ents[:-4]:
            if time.time() - mt > 3600:
                shutil.rmtree(os.path.join(cache_root, d), ignore_errors=True)
    info = json.load(open(info_p))
    return Facts(cdir, info['exes']), info
