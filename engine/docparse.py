"""Tables of the manual (doc/*.md), parsed at run time: a doc edit is part of
the analysed input."""
import os, re
from core import REPO, AnalysisBroken


def md_tables(path):
    """Yield (title, header cells, rows) for every pipe table in a markdown file."""
    lines = open(path, encoding='utf-8', errors='replace').read().splitlines()
    title = ''
    i = 0
    while i < len(lines):
        ln = lines[i]
        m = re.match(r'#+\s*(.*)', ln)
        if m:
            title = m.group(1)
        if ln.lstrip().startswith('|') and i + 1 < len(lines) and re.match(r'\s*\|[\s:\-|]+\|\s*$', lines[i + 1]):
            hdr = split_row(ln)
            rows = []
            j = i + 2
            while j < len(lines) and lines[j].lstrip().startswith('|'):
                rows.append(split_row(lines[j]))
                j += 1
            yield title, hdr, rows
            i = j
            continue
        i += 1


def split_row(ln):
    ln = ln.strip()
    if ln.startswith('|'):
        ln = ln[1:]
    if ln.endswith('|') and not ln.endswith('\\|'):
        ln = ln[:-1]
    cells = re.split(r'(?<!\\)\|', ln)
    return [clean(c) for c in cells]


def clean(c):
    c = re.sub(r'<!--.*?-->', '', c)
    c = c.strip()
    c = c.replace('\\|', '|').replace('\\<', '<').replace('\\>', '>').replace('\\*', '*').replace('\\#', '#')
    if c.startswith('`') and c.endswith('`') and len(c) >= 2:
        c = c[1:-1]
    return c.strip()


def table(docfile, title_pat):
    p = os.path.join(REPO, 'doc', docfile)
    if not os.path.exists(p):
        raise AnalysisBroken('manual file doc/%s missing' % docfile)
    for title, hdr, rows in md_tables(p):
        if re.search(title_pat, title):
            return hdr, rows
    raise AnalysisBroken('table %r not found in doc/%s' % (title_pat, docfile))
