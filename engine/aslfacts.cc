// aslfacts — libTooling fact extractor for the asl-releases verification rules.
//
// For one translation unit it writes a JSON file with
//   - every function body as a clang::CFG whose elements are compact
//     expression trees (resolved declarations, folded integer constants,
//     enumerators by name and value, integral narrowing casts with widths),
//   - every variable with static storage duration incl. its initialiser tree,
//   - enumerators, record layouts and local variable types/sizes.
// It emits facts only; every verdict is taken by the Python rules.
//
// usage: aslfacts --out <dir> -p <builddir> file.c [file.c ...]

#include "clang/AST/ASTConsumer.h"
#include "clang/AST/ASTContext.h"
#include "clang/AST/RecursiveASTVisitor.h"
#include "clang/Analysis/CFG.h"
#include "clang/Frontend/CompilerInstance.h"
#include "clang/Frontend/FrontendActions.h"
#include "clang/Tooling/CommonOptionsParser.h"
#include "clang/Tooling/Tooling.h"
#include "llvm/Support/CommandLine.h"
#include "llvm/Support/JSON.h"
#include "llvm/Support/raw_ostream.h"
#include "llvm/Support/FileSystem.h"
#include "llvm/Support/Path.h"
#include <set>
#include <functional>

using namespace clang;
using namespace clang::tooling;
namespace json = llvm::json;

static llvm::cl::OptionCategory Cat("aslfacts options");
static llvm::cl::opt<std::string> OutDir("out", llvm::cl::desc("output directory"),
                                         llvm::cl::Required, llvm::cl::cat(Cat));
static llvm::cl::opt<std::string> RepoRoot("repo", llvm::cl::desc("repository root"),
                                           llvm::cl::init("/repo"), llvm::cl::cat(Cat));

namespace {

struct Dumper {
  ASTContext &Ctx;
  const SourceManager &SM;
  std::string Root;
  explicit Dumper(ASTContext &C) : Ctx(C), SM(C.getSourceManager()), Root(RepoRoot) {
    if (!Root.empty() && Root.back() != '/') Root += '/';
  }

  unsigned line(SourceLocation L) const {
    if (L.isInvalid()) return 0;
    return SM.getExpansionLineNumber(L);
  }
  std::string file(SourceLocation L) const {
    if (L.isInvalid()) return "";
    PresumedLoc P = SM.getPresumedLoc(SM.getExpansionLoc(L));
    if (P.isInvalid()) return "";
    std::string F = P.getFilename();
    if (F.compare(0, Root.size(), Root) == 0) F = F.substr(Root.size());
    return F;
  }
  bool inRepoOrBuild(SourceLocation L) const {
    if (L.isInvalid()) return false;
    return !SM.isInSystemHeader(SM.getExpansionLoc(L));
  }

  static std::string safe(llvm::StringRef S) {
    // make arbitrary bytes valid UTF-8 for JSON
    std::string R;
    for (unsigned char c : S) {
      if (c < 0x80) R += (char)c;
      else { R += (char)(0xC0 | (c >> 6)); R += (char)(0x80 | (c & 0x3F)); }
    }
    return R;
  }

  std::string recName(const RecordDecl *RD) const {
    if (!RD) return "?";
    if (RD->getIdentifier()) return RD->getName().str();
    if (const TypedefNameDecl *T = RD->getTypedefNameForAnonDecl()) return T->getName().str();
    // anonymous nested: use parent
    if (const auto *P = dyn_cast_or_null<RecordDecl>(RD->getParent()))
      return recName(P) + "::<anon>";
    return "<anon>";
  }

  int64_t bitsOf(QualType T) const {
    if (T->isBooleanType()) return 1;
    if (const auto *ET = T->getAs<EnumType>()) T = ET->getDecl()->getIntegerType();
    if (T.isNull() || !T->isIntegerType()) return 0;
    int64_t W = (int64_t)Ctx.getTypeSize(T);
    return T->isSignedIntegerType() ? -W : W;
  }

  json::Value typeInfo(QualType T) const {
    json::Object O;
    O["t"] = safe(T.getAsString());
    if (!T->isIncompleteType() && !T->isFunctionType() && !T->isDependentType())
      O["size"] = (int64_t)Ctx.getTypeSizeInChars(T).getQuantity();
    if (const auto *AT = Ctx.getAsConstantArrayType(T)) {
      json::Array Dims;
      QualType Cur = T;
      while (const auto *A = Ctx.getAsConstantArrayType(Cur)) {
        Dims.push_back((int64_t)A->getSize().getZExtValue());
        Cur = A->getElementType();
      }
      O["arr"] = std::move(Dims);
      (void)AT;
    }
    int64_t B = bitsOf(T);
    if (B) O["bits"] = B;
    if (T->isPointerType()) O["ptr"] = true;
    return std::move(O);
  }

  json::Value apint(const llvm::APSInt &V) const {
    if (V.isSigned() || V.getActiveBits() < 64) return json::Value((int64_t)V.getExtValue());
    // unsigned 64-bit with top bit: emit as string to keep exactness
    llvm::SmallString<32> S;
    V.toString(S, 10);
    return json::Value(std::string(S.str()));
  }

  json::Value X(const Stmt *S) {
    if (!S) return nullptr;
    if (const auto *E = dyn_cast<Expr>(S)) return XE(E);
    if (const auto *DS = dyn_cast<DeclStmt>(S)) {
      json::Array A;
      for (const Decl *D : DS->decls()) {
        if (const auto *VD = dyn_cast<VarDecl>(D)) {
          json::Array One;
          One.push_back(VD->isStaticLocal() ? "sdecl" : "decl");
          One.push_back(VD->getName().str());
          One.push_back(VD->hasInit() ? X(VD->getInit()) : json::Value(nullptr));
          A.push_back(std::move(One));
        }
      }
      if (A.size() == 1) return std::move(A[0]);
      json::Array W; W.push_back("decls"); W.push_back(std::move(A));
      return std::move(W);
    }
    if (const auto *RS = dyn_cast<ReturnStmt>(S)) {
      json::Array A; A.push_back("ret");
      A.push_back(RS->getRetValue() ? X(RS->getRetValue()) : json::Value(nullptr));
      return std::move(A);
    }
    json::Array A; A.push_back("stmt"); A.push_back(S->getStmtClassName());
    return std::move(A);
  }

  json::Value declRef(const ValueDecl *D) {
    json::Array A;
    if (const auto *EC = dyn_cast<EnumConstantDecl>(D)) {
      A.push_back("e"); A.push_back(EC->getName().str()); A.push_back(apint(EC->getInitVal()));
    } else if (const auto *FD = dyn_cast<FunctionDecl>(D)) {
      A.push_back("fn"); A.push_back(FD->getName().str());
    } else if (const auto *VD = dyn_cast<VarDecl>(D)) {
      if (isa<ParmVarDecl>(VD)) A.push_back("p");
      else if (VD->isStaticLocal()) A.push_back("ls");
      else if (VD->hasGlobalStorage())
        A.push_back(VD->getFormalLinkage() == InternalLinkage ? "gs" : "g");
      else A.push_back("l");
      A.push_back(VD->getName().str());
    } else {
      A.push_back("d"); A.push_back(D->getNameAsString());
    }
    return std::move(A);
  }

  std::set<const Stmt *> Emitted; // statements that are CFG elements of the current function
  const Stmt *CurEl = nullptr;     // element being dumped

  json::Value XE(const Expr *E) {
    if (!E) return nullptr;
    if (E != CurEl && Emitted.count(E)) {
      // evaluated as an own CFG element earlier on the path: keep the tree for
      // pattern matching, but mark it so that event collectors skip it
      const Stmt *Save = CurEl; CurEl = E;
      json::Array W; W.push_back("ref"); W.push_back(XE1(E));
      CurEl = Save;
      return std::move(W);
    }
    return XE1(E);
  }

  json::Value XE1(const Expr *E) {
    if (const auto *PE = dyn_cast<ParenExpr>(E)) return XE(PE->getSubExpr());
    if (const auto *FE = dyn_cast<FullExpr>(E)) return XE(FE->getSubExpr());
    // enumerator (possibly under implicit casts)
    {
      const Expr *B = E->IgnoreParenImpCasts();
      if (const auto *DR = dyn_cast<DeclRefExpr>(B))
        if (isa<EnumConstantDecl>(DR->getDecl())) return declRef(DR->getDecl());
    }
    // constant folding of integral expressions
    if (!isa<InitListExpr>(E) && !isa<StringLiteral>(E) && !E->isValueDependent() &&
        E->getType()->isIntegralOrEnumerationType() && !isa<CallExpr>(E)) {
      Expr::EvalResult R;
      if (E->EvaluateAsInt(R, Ctx, Expr::SE_NoSideEffects)) {
        json::Array A; A.push_back("c"); A.push_back(apint(R.Val.getInt()));
        return std::move(A);
      }
    }
    if (const auto *DR = dyn_cast<DeclRefExpr>(E)) return declRef(DR->getDecl());
    if (const auto *IL = dyn_cast<IntegerLiteral>(E)) {
      json::Array A; A.push_back("c");
      A.push_back(apint(llvm::APSInt(IL->getValue(), !IL->getType()->isSignedIntegerType())));
      return std::move(A);
    }
    if (const auto *FL = dyn_cast<FloatingLiteral>(E)) {
      json::Array A; A.push_back("fl"); A.push_back(FL->getValueAsApproximateDouble());
      return std::move(A);
    }
    if (const auto *SL = dyn_cast<StringLiteral>(E)) {
      json::Array A; A.push_back("s");
      A.push_back(SL->getCharByteWidth() == 1 ? safe(SL->getBytes()) : std::string("<wide>"));
      return std::move(A);
    }
    if (const auto *ME = dyn_cast<MemberExpr>(E)) {
      json::Array A; A.push_back("m"); A.push_back(XE(ME->getBase()));
      std::string F = ME->getMemberDecl()->getNameAsString();
      if (const auto *FD = dyn_cast<FieldDecl>(ME->getMemberDecl()))
        F = recName(FD->getParent()) + "." + F;
      A.push_back(F);
      A.push_back(ME->isArrow() ? 1 : 0);
      return std::move(A);
    }
    if (const auto *AS = dyn_cast<ArraySubscriptExpr>(E)) {
      json::Array A; A.push_back("i"); A.push_back(XE(AS->getBase())); A.push_back(XE(AS->getIdx()));
      return std::move(A);
    }
    if (const auto *UO = dyn_cast<UnaryOperator>(E)) {
      json::Array A; A.push_back("u");
      std::string Op = UnaryOperator::getOpcodeStr(UO->getOpcode()).str();
      if (UO->isPostfix()) Op = "x" + Op; else if (UO->isIncrementDecrementOp()) Op = Op + "x";
      A.push_back(Op); A.push_back(XE(UO->getSubExpr()));
      if (UO->isIncrementDecrementOp()) A.push_back((int64_t)line(UO->getOperatorLoc()));
      return std::move(A);
    }
    if (const auto *BO = dyn_cast<BinaryOperator>(E)) {
      json::Array A; A.push_back("b");
      {
        std::string Op = BO->getOpcodeStr().str();
        bool Flt = false;
        if (BO->getOpcode() == BO_Div) Flt = BO->getType()->isFloatingType();
        else if (BO->getOpcode() == BO_DivAssign) {
          if (const auto *CAO = dyn_cast<CompoundAssignOperator>(BO))
            Flt = CAO->getComputationResultType()->isFloatingType();
        }
        if (Flt) Op = (BO->getOpcode() == BO_Div) ? "/f" : "/f=";
        A.push_back(Op);
      }
      A.push_back(XE(BO->getLHS())); A.push_back(XE(BO->getRHS()));
      if (BO->isAssignmentOp()) A.push_back((int64_t)line(BO->getOperatorLoc()));
      if (BO->isLogicalOp()) {
        json::Array W; W.push_back("cf"); W.push_back(std::move(A));
        return std::move(W);
      }
      return std::move(A);
    }
    if (const auto *CO = dyn_cast<ConditionalOperator>(E)) {
      json::Array A; A.push_back("?"); A.push_back(XE(CO->getCond()));
      A.push_back(XE(CO->getTrueExpr())); A.push_back(XE(CO->getFalseExpr()));
      json::Array W; W.push_back("cf"); W.push_back(std::move(A));
      return std::move(W);
    }
    if (const auto *CE = dyn_cast<CallExpr>(E)) {
      json::Array A; A.push_back("call");
      A.push_back(XE(CE->getCallee()));
      json::Array Args;
      for (const Expr *Arg : CE->arguments()) Args.push_back(XE(Arg));
      A.push_back(std::move(Args));
      A.push_back((int64_t)line(CE->getBeginLoc()));
      return std::move(A);
    }
    if (const auto *CA = dyn_cast<CastExpr>(E)) {
      QualType D = CA->getType(), Sx = CA->getSubExpr()->getType();
      bool Explicit = isa<ExplicitCastExpr>(CA);
      switch (CA->getCastKind()) {
      case CK_IntegralCast: {
        int64_t db = bitsOf(D), sb = bitsOf(Sx);
        int64_t dw = db < 0 ? -db : db, sw = sb < 0 ? -sb : sb;
        if (Explicit || (dw && sw && dw < sw)) {
          json::Array A; A.push_back("cast"); A.push_back(Explicit ? "e" : "i");
          A.push_back(db); A.push_back(sb); A.push_back(XE(CA->getSubExpr()));
          return std::move(A);
        }
        return XE(CA->getSubExpr());
      }
      case CK_FloatingToIntegral: {
        json::Array A; A.push_back("cast"); A.push_back(Explicit ? "ef2i" : "if2i");
        A.push_back(bitsOf(D)); A.push_back((int64_t)0); A.push_back(XE(CA->getSubExpr()));
        return std::move(A);
      }
      default:
        return XE(CA->getSubExpr());
      }
    }
    if (const auto *IL = dyn_cast<InitListExpr>(E)) {
      const InitListExpr *Sem = IL->isSemanticForm() ? IL : (IL->getSemanticForm() ? IL->getSemanticForm() : IL);
      json::Array A; A.push_back("il");
      json::Array Els;
      for (const Expr *I : Sem->inits()) Els.push_back(XE(I));
      A.push_back(std::move(Els));
      if (const auto *RT = Sem->getType()->getAs<RecordType>()) A.push_back(recName(RT->getDecl()));
      else A.push_back(nullptr);
      if (Sem->hasArrayFiller()) A.push_back("filler");
      return std::move(A);
    }
    if (isa<ImplicitValueInitExpr>(E)) { json::Array A; A.push_back("z"); return std::move(A); }
    if (const auto *CL = dyn_cast<CompoundLiteralExpr>(E)) return XE(CL->getInitializer());
    if (const auto *UE = dyn_cast<UnaryExprOrTypeTraitExpr>(E)) {
      json::Array A; A.push_back("sizeof"); A.push_back(UE->isArgumentType() ? json::Value(safe(UE->getArgumentType().getAsString())) : XE(UE->getArgumentExpr()));
      return std::move(A);
    }
    if (const auto *SE = dyn_cast<StmtExpr>(E)) { (void)SE; json::Array A; A.push_back("stmtexpr"); return std::move(A); }
    if (const auto *VA = dyn_cast<VAArgExpr>(E)) { json::Array A; A.push_back("va_arg"); A.push_back(XE(VA->getSubExpr())); return std::move(A); }
    if (const auto *DI = dyn_cast<DesignatedInitExpr>(E)) return XE(DI->getInit());
    if (const auto *PE = dyn_cast<PredefinedExpr>(E)) { (void)PE; json::Array A; A.push_back("s"); A.push_back("<func>"); return std::move(A); }
    json::Array A; A.push_back("x"); A.push_back(E->getStmtClassName());
    return std::move(A);
  }

  struct LocalCollector : RecursiveASTVisitor<LocalCollector> {
    Dumper &D; json::Object &Locals; json::Array &Statics; std::string Fn;
    LocalCollector(Dumper &D, json::Object &L, json::Array &S, std::string Fn) : D(D), Locals(L), Statics(S), Fn(std::move(Fn)) {}
    bool VisitVarDecl(VarDecl *VD) {
      if (isa<ParmVarDecl>(VD)) return true;
      if (VD->isStaticLocal()) {
        json::Object G;
        G["name"] = VD->getName().str();
        G["kind"] = "ls";
        G["func"] = Fn;
        G["type"] = D.typeInfo(VD->getType());
        G["file"] = D.file(VD->getLocation());
        G["line"] = (int64_t)D.line(VD->getLocation());
        G["def"] = true;
        G["const"] = VD->getType().isConstQualified() || (D.Ctx.getAsArrayType(VD->getType()) && D.Ctx.getBaseElementType(VD->getType()).isConstQualified());
        if (VD->hasInit()) G["init"] = D.X(VD->getInit());
        Statics.push_back(std::move(G));
      } else if (VD->isLocalVarDecl()) {
        Locals[VD->getName().str()] = D.typeInfo(VD->getType());
      }
      return true;
    }
  };

  json::Value dumpFunction(const FunctionDecl *FD, json::Array &Statics) {
    json::Object F;
    F["name"] = FD->getName().str();
    F["static"] = FD->getFormalLinkage() == InternalLinkage;
    F["file"] = file(FD->getLocation());
    F["line"] = (int64_t)line(FD->getLocation());
    F["endline"] = (int64_t)line(FD->getBody()->getEndLoc());
    F["type"] = safe(FD->getType().getAsString());
    json::Array Ps;
    for (const ParmVarDecl *P : FD->parameters()) {
      json::Object PO; PO["name"] = P->getName().str(); PO["type"] = typeInfo(P->getType());
      if (P->getOriginalType() != P->getType()) PO["otype"] = typeInfo(P->getOriginalType());
      Ps.push_back(std::move(PO));
    }
    F["params"] = std::move(Ps);
    json::Object Locals;
    LocalCollector LC(*this, Locals, Statics, FD->getName().str());
    LC.TraverseStmt(FD->getBody());
    F["locals"] = std::move(Locals);

    CFG::BuildOptions BO;
    BO.PruneTriviallyFalseEdges = true;
    BO.AddImplicitDtors = false;
    BO.AddInitializers = false;
    std::unique_ptr<CFG> G = CFG::buildCFG(FD, FD->getBody(), &Ctx, BO);
    if (!G) { F["cfg_failed"] = true; return std::move(F); }
    F["entry"] = (int64_t)G->getEntry().getBlockID();
    F["exit"] = (int64_t)G->getExit().getBlockID();
    json::Array Blocks;
    Emitted.clear();
    for (const CFGBlock *B : *G)
      for (const CFGElement &El : *B)
        if (auto CS = El.getAs<CFGStmt>()) Emitted.insert(CS->getStmt());
    for (const CFGBlock *B : *G) {
      json::Object BJ;
      BJ["id"] = (int64_t)B->getBlockID();
      json::Array Elems;
      const Stmt *Last = nullptr;
      for (const CFGElement &El : *B) {
        if (auto CS = El.getAs<CFGStmt>()) {
          const Stmt *St = CS->getStmt();
          Last = St;
          CurEl = St;
          json::Array One; One.push_back((int64_t)line(St->getBeginLoc())); One.push_back(X(St));
          CurEl = nullptr;
          Elems.push_back(std::move(One));
        }
      }
      BJ["elems"] = std::move(Elems);
      if (const Stmt *T = B->getTerminatorStmt()) {
        json::Array TJ;
        std::string K = T->getStmtClassName();
        if (const auto *BOp = dyn_cast<BinaryOperator>(T)) K = BOp->getOpcodeStr().str();
        TJ.push_back(K);
        TJ.push_back((int64_t)line(T->getBeginLoc()));
        BJ["term"] = std::move(TJ);
        if (B->succ_size() >= 2) {
          const Expr *C = B->getLastCondition();
          if (!C) C = dyn_cast_or_null<Expr>(B->getTerminatorCondition());
          (void)Last;
          CurEl = C;
          BJ["cond"] = C ? XE(C) : json::Value(nullptr);
          CurEl = nullptr;
        }
      }
      if (const Stmt *L = B->getLabel()) {
        json::Array LJ;
        if (const auto *CS = dyn_cast<CaseStmt>(L)) {
          LJ.push_back("case");
          LJ.push_back(XE(CS->getLHS()));
          if (CS->getRHS()) LJ.push_back(XE(CS->getRHS()));
        } else if (isa<DefaultStmt>(L)) LJ.push_back("default");
        else if (const auto *LS = dyn_cast<LabelStmt>(L)) { LJ.push_back("label"); LJ.push_back(LS->getName()); }
        else LJ.push_back(L->getStmtClassName());
        BJ["label"] = std::move(LJ);
      }
      json::Array Succ;
      for (auto I = B->succ_begin(); I != B->succ_end(); ++I) {
        if (const CFGBlock *R = I->getReachableBlock()) Succ.push_back((int64_t)R->getBlockID());
        else if (const CFGBlock *U = I->getPossiblyUnreachableBlock()) Succ.push_back(-(int64_t)U->getBlockID() - 1);
        else Succ.push_back(nullptr);
      }
      BJ["succ"] = std::move(Succ);
      if (B->hasNoReturnElement()) BJ["noreturn"] = true;
      Blocks.push_back(std::move(BJ));
    }
    F["blocks"] = std::move(Blocks);
    return std::move(F);
  }

  void run(llvm::StringRef MainFile) {
    json::Object Unit;
    std::string Base = llvm::sys::path::filename(MainFile).str();
    Unit["unit"] = Base;
    json::Array Funcs, Globals, Protos;
    json::Object Enums, Records;
    const TranslationUnitDecl *TU = Ctx.getTranslationUnitDecl();
    std::function<void(const DeclContext *)> walk = [&](const DeclContext *DC) {
      for (const Decl *D : DC->decls()) {
        if (!inRepoOrBuild(D->getLocation())) continue;
        if (const auto *FD = dyn_cast<FunctionDecl>(D)) {
          if (FD->doesThisDeclarationHaveABody()) Funcs.push_back(dumpFunction(FD, Globals));
          else {
            json::Object P; P["name"] = FD->getName().str(); P["type"] = safe(FD->getType().getAsString());
            P["file"] = file(FD->getLocation());
            if (FD->isNoReturn()) P["noreturn"] = true;
            Protos.push_back(std::move(P));
          }
        } else if (const auto *VD = dyn_cast<VarDecl>(D)) {
          json::Object G;
          G["name"] = VD->getName().str();
          G["kind"] = VD->getFormalLinkage() == InternalLinkage ? "gs" : "g";
          G["type"] = typeInfo(VD->getType());
          G["file"] = file(VD->getLocation());
          G["line"] = (int64_t)line(VD->getLocation());
          G["def"] = VD->isThisDeclarationADefinition() != VarDecl::DeclarationOnly;
          G["const"] = VD->getType().isConstQualified() || (Ctx.getAsArrayType(VD->getType()) && Ctx.getBaseElementType(VD->getType()).isConstQualified());
          if (VD->hasInit()) G["init"] = X(VD->getInit());
          Globals.push_back(std::move(G));
        } else if (const auto *ED = dyn_cast<EnumDecl>(D)) {
          for (const EnumConstantDecl *EC : ED->enumerators())
            Enums[EC->getName().str()] = apint(EC->getInitVal());
        } else if (const auto *RD = dyn_cast<RecordDecl>(D)) {
          if (RD->isCompleteDefinition()) {
            json::Array Fs;
            for (const FieldDecl *F : RD->fields()) {
              json::Object FO; FO["name"] = F->getNameAsString(); FO["type"] = typeInfo(F->getType());
              Fs.push_back(std::move(FO));
            }
            Records[recName(RD)] = std::move(Fs);
          }
        }
        if (const auto *TD = dyn_cast<TypedefNameDecl>(D)) {
          // typedef'd anonymous records/enums are visited through their TagDecl
          (void)TD;
        }
      }
    };
    walk(TU);
    Unit["funcs"] = std::move(Funcs);
    Unit["globals"] = std::move(Globals);
    Unit["protos"] = std::move(Protos);
    Unit["enums"] = std::move(Enums);
    Unit["records"] = std::move(Records);
    std::error_code EC;
    std::string Path = OutDir + "/" + Base + ".json";
    llvm::raw_fd_ostream OS(Path + ".tmp", EC);
    if (EC) { llvm::errs() << "cannot write " << Path << "\n"; exit(2); }
    OS << json::Value(std::move(Unit));
    OS.close();
    llvm::sys::fs::rename(Path + ".tmp", Path);
  }
};

class Consumer : public ASTConsumer {
  std::string Main;
public:
  explicit Consumer(std::string M) : Main(std::move(M)) {}
  void HandleTranslationUnit(ASTContext &Ctx) override {
    if (Ctx.getDiagnostics().hasErrorOccurred()) {
      llvm::errs() << "aslfacts: parse errors in " << Main << "\n";
      exit(2);
    }
    Dumper D(Ctx);
    D.run(Main);
  }
};

class Action : public ASTFrontendAction {
public:
  std::unique_ptr<ASTConsumer> CreateASTConsumer(CompilerInstance &, llvm::StringRef File) override {
    return std::make_unique<Consumer>(File.str());
  }
};

} // namespace

int main(int argc, const char **argv) {
  auto Exp = CommonOptionsParser::create(argc, argv, Cat);
  if (!Exp) { llvm::errs() << llvm::toString(Exp.takeError()) << "\n"; return 2; }
  CommonOptionsParser &OP = Exp.get();
  ClangTool Tool(OP.getCompilations(), OP.getSourcePathList());
  Tool.appendArgumentsAdjuster([](const CommandLineArguments &Args, llvm::StringRef) {
    CommandLineArguments R;
    for (size_t i = 0; i < Args.size(); ++i) {
      const std::string &A = Args[i];
      if (A.rfind("-W", 0) == 0) continue;
      if (A.rfind("-fdiagnostics", 0) == 0) continue;
      if (A == "-O3" || A == "-O2" || A == "-Og" || A == "-g3") continue;
      R.push_back(A);
    }
    R.push_back("-w");
    R.push_back("-UNDEBUG");
    R.push_back("-resource-dir=/usr/lib/llvm-14/lib/clang/14.0.6");
    return R;
  });
  return Tool.run(newFrontendActionFactory<Action>().get()) ? 2 : 0;
}
