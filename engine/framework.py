"""Check driver plumbing: obligations, known findings, evidence, exit protocol."""
import json, os, sys, time, re, collections
from core import VERIF, REPO, AnalysisBroken

KNOWN = os.path.join(VERIF, 'known_findings.txt')


class Finding:
    def __init__(self, kind, prop, rule, instance, text):
        self.kind, self.prop, self.rule, self.instance, self.text = kind, prop, rule, instance, text


def load_known():
    out = []
    if not os.path.exists(KNOWN):
        return out
    for ln in open(KNOWN):
        ln = ln.strip()
        if not ln or ln.startswith('#'):
            continue
        m = re.match(r'(finding|fixed):\s+property=(\S+)\s+rule=(\S+)\s+instance=(\S+)\s*(.*)$', ln)
        if not m:
            m2 = re.match(r'fixed:\s+property=(\S+)\s+(\S+)\s+(.*)$', ln)
            if m2:
                out.append(Finding('fixed', m2.group(1), '', '', m2.group(3)))
                continue
            raise AnalysisBroken('known_findings.txt: cannot parse line: ' + ln)
        out.append(Finding(*m.groups()))
    return out


class Check:
    """Collects obligations for one property."""

    def __init__(self, pid, tier='quick'):
        self.pid = pid
        self.tier = tier
        self.t0 = time.time()
        self.obligations = []      # dicts: rule, key, ok, loc, detail
        self.rule_doc = {}         # rule -> text
        self.rule_min = {}         # rule -> hand-confirmed minimum instance count
        self.notes = []
        self.extra = {}
        self.samples = []
        self.assumptions = []
        self.exceptions_used = []

    def rule(self, rid, text, min_instances=1):
        self.rule_doc[rid] = text
        self.rule_min[rid] = min_instances

    def ob(self, rule, key, ok, loc='', detail='', witness=None):
        """Record one obligation.  key is the semantic instance key."""
        if rule not in self.rule_doc:
            raise AnalysisBroken('obligation for undeclared rule ' + rule)
        self.obligations.append({'rule': rule, 'key': key, 'ok': bool(ok), 'loc': loc,
                                 'detail': detail, 'witness': witness})

    def exception(self, rule, key, reason):
        self.exceptions_used.append({'rule': rule, 'key': key, 'reason': reason})

    def note(self, s):
        self.notes.append(s)

    def finish(self):
        """Apply the exit protocol.  Returns the process exit code."""
        pid = self.pid
        known = [k for k in load_known() if k.prop == pid and k.kind == 'finding']
        counts = collections.Counter(o['rule'] for o in self.obligations)
        short = ['rule %s matched %d instances, fewer than the %d confirmed by hand' % (r, counts.get(r, 0), mn)
                 for r, mn in self.rule_min.items() if counts.get(r, 0) < mn]
        # several sites may share one semantic key: the instance holds only if all of them do
        first = {}
        for o in self.obligations:
            k = (o['rule'], o['key'])
            if k in first:
                o['dup'] = True
                if not o['ok'] and first[k]['ok']:
                    first[k]['ok'] = False
                    first[k]['loc'], first[k]['detail'], first[k]['witness'] = o['loc'], o['detail'], o['witness']
            else:
                first[k] = o
        viol, knownhits = [], []
        for o in self.obligations:
            if o['ok'] or o.get('dup'):
                continue
            hit = None
            for k in known:
                if k.rule == o['rule'] and k.instance == o['key']:
                    hit = k
                    break
            if hit:
                knownhits.append((o, hit))
            else:
                viol.append(o)
        if short and not viol:
            # nothing concrete to report and part of the analysis lost its anchors
            raise AnalysisBroken('; '.join(short))
        for m in short:
            # a violation with its own witness stands; the starved rule is reported alongside
            print('note: analysis incomplete: ' + m)
        noev = bool(os.environ.get('ASL_NO_EVIDENCE'))
        wdir = os.path.join(VERIF, 'out', 'witness-scratch' if noev else 'witness')
        os.makedirs(wdir, exist_ok=True)
        for o, k in knownhits:
            print('KNOWN-FINDING: property=%s rule=%s instance=%s %s' % (pid, o['rule'], o['key'], k.text))
        stale = [k for k in known if not any(k is h for _, h in knownhits)]
        for k in stale:
            print('note: listed finding no longer reproduced: rule=%s instance=%s' % (k.rule, k.instance))
        for n, o in enumerate(viol):
            wp = os.path.join(wdir, '%s-%d.json' % (pid, n))
            json.dump({'property': pid, 'rule': o['rule'], 'rule_text': self.rule_doc[o['rule']],
                       'instance': o['key'], 'loc': o['loc'], 'detail': o['detail'],
                       'witness_path': o['witness']}, open(wp, 'w'), indent=1)
            print('%s: %s [%s] %s' % (o['loc'], o['rule'], o['key'], o['detail']))
            print('VIOLATION property=%s replay=%s' % (pid, wp))
        if not noev:
            self.write_evidence(len(viol), knownhits)
        per = collections.Counter()
        for o in self.obligations:
            per[o['rule']] += 1
        print('%s: %d obligations over %d rules, %d violated, %d known findings, %.1fs' %
              (pid, len(self.obligations), len(per), len(viol), len(knownhits), time.time() - self.t0))
        return 1 if viol else 0

    def write_evidence(self, nviol, knownhits):
        per = collections.OrderedDict()
        for r in self.rule_doc:
            obs = [o for o in self.obligations if o['rule'] == r]
            per[r] = {'rule': self.rule_doc[r], 'instances': len(obs),
                      'held': sum(1 for o in obs if o['ok']),
                      'confirmed_minimum': self.rule_min[r]}
        samples = []
        byrule = collections.defaultdict(list)
        for o in self.obligations:
            byrule[o['rule']].append(o)
        for r, obs in byrule.items():
            for o in obs[:3]:
                samples.append({'rule': r, 'instance': o['key'], 'loc': o['loc'], 'held': o['ok'],
                                'detail': o['detail'][:300]})
            for o in obs:
                if not o['ok']:
                    samples.append({'rule': r, 'instance': o['key'], 'loc': o['loc'], 'held': False,
                                    'detail': o['detail'][:300]})
        ev = {
            'property_id': self.pid,
            'tier': self.tier,
            'seed': int(os.environ.get('VERIF_SEED', '0') or 0),
            'level': 'other',
            'wall_s': round(time.time() - self.t0, 2),
            'violations': nviol,
            'coverage': {
                'explanation': ('Static analysis of /repo\'s working tree (clang 14 AST + CFG facts, '
                                'rules in engine/rules). Obligations are necessary structural conditions '
                                'of the property, decided on every path of the code, not on sampled runs. '
                                + ' '.join(self.notes)),
                'obligations': len(self.obligations),
                'discharged': sum(1 for o in self.obligations if o['ok']),
                'known_findings': [{'rule': o['rule'], 'instance': o['key']} for o, _ in knownhits],
                'rules': per,
                'exceptions_used': self.exceptions_used,
                'samples': samples[:80],
                'exhaustive': True,
                'checker_cmd': './check %s --tier %s' % (self.pid, self.tier),
                'trusted_base': ['clang 14 front end and CFG builder', 'CMake compile database',
                                 'oracle tables under /verif/oracles', 'exception tables in the rule modules'],
            },
            'assumptions': self.assumptions,
        }
        ev['coverage'].update(self.extra)
        os.makedirs(os.path.join(VERIF, 'evidence'), exist_ok=True)
        p = os.path.join(VERIF, 'evidence', self.pid + '.json')
        json.dump(ev, open(p + '.tmp', 'w'), indent=1)
        os.replace(p + '.tmp', p)
