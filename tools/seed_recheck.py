#!/usr/bin/env python3
"""Re-runs every claimed check against every stored seeded break (scratch
copies, /repo untouched) and records in seeded/<name>/meta.json which checks
report a violation.  Usage: tools/seed_recheck.py [name ...]
SEED_RECHECK_FAST=1 runs only the seed's own property and the checks that reported it before."""
import sys, os, json, subprocess, shutil, tempfile, glob
sys.path.insert(0, '/verif/engine')
import selftest
from concurrent.futures import ThreadPoolExecutor

names = sys.argv[1:] or sorted(os.path.basename(os.path.dirname(p)) for p in glob.glob('/verif/seeded/*/meta.json'))
man = json.load(open('/verif/MANIFEST.json'))
ids = [c['property_id'] for c in man['checks']]


def one(name):
    d = os.path.join('/verif/seeded', name)
    meta = json.load(open(os.path.join(d, 'meta.json')))
    tmp = tempfile.mkdtemp(prefix='aslseed-')
    try:
        rp = os.path.join(tmp, 'repo')
        selftest.copy_repo(rp)
        r = subprocess.run(['patch', '-p1', '-s', '-d', rp, '-i', os.path.join(d, 'patch.diff')], stdout=subprocess.PIPE, stderr=subprocess.STDOUT, text=True)
        if r.returncode != 0:
            meta['recheck'] = {'patch_applies': False, 'note': r.stdout[-200:]}
        else:
            env = dict(os.environ, ASL_REPO=rp, ASL_NO_EVIDENCE='1', ASL_CACHE=os.path.join(tmp, 'cache'))
            res = {}
            own = meta.get('property', name[:3])
            order = [own] + [i for i in ids if i != own]
            if os.environ.get('SEED_RECHECK_FAST'):
                # own property plus the checks that reported the seed before
                prev = set(meta.get('caught_by') or []) | set((meta.get('confirmed', {}).get('checks') or {}).keys() if False else [])
                order = [own] + sorted(i for i in prev if i != own and i in ids)
            for i in order:
                rr = subprocess.run([sys.executable, '/verif/check', i, '--repo', rp, '--no-mutants'], stdout=subprocess.PIPE, stderr=subprocess.STDOUT, text=True, env=env, cwd='/verif')
                lines = [l for l in rr.stdout.splitlines() if ('%s-R' % i) in l and 'VIOLATION' not in l][:3]
                res[i] = {'exit': rr.returncode, 'reports': [l[:300] for l in lines]}
            meta['recheck'] = {'patch_applies': True, 'checks': {k: v for k, v in res.items() if v['exit'] != 0}}
            meta['caught_by'] = sorted(k for k, v in res.items() if v['exit'] == 1)
            meta['analysis_broken_in'] = sorted(k for k, v in res.items() if v['exit'] == 2)
        json.dump(meta, open(os.path.join(d, 'meta.json'), 'w'), indent=1)
        return name, meta.get('caught_by'), meta.get('analysis_broken_in')
    finally:
        shutil.rmtree(tmp, ignore_errors=True)


with ThreadPoolExecutor(max_workers=int(os.environ.get('SEED_RECHECK_JOBS', '3'))) as ex:
    for name, cb, ab in ex.map(one, names):
        print(name, 'caught_by', cb, 'broken', ab, flush=True)
