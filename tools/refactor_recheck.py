#!/usr/bin/env python3
"""tools/refactor_recheck.py [name ...]
Applies every stored behaviour-preserving refactoring (refactors/<name>/patch.diff)
to a scratch copy of /repo and runs all claimed checks on it.  Every check must
exit 0.  Patches that no longer apply (later fixes in the same lines) are skipped
and reported."""
import sys, os, json, subprocess, shutil, tempfile, glob
sys.path.insert(0, '/verif/engine')
import selftest
from concurrent.futures import ThreadPoolExecutor

names = sys.argv[1:] or sorted(os.path.basename(os.path.dirname(p)) for p in glob.glob('/verif/refactors/*/patch.diff'))
ids = [c['property_id'] for c in json.load(open('/verif/MANIFEST.json'))['checks']]
if os.environ.get('REFACTOR_IDS'):
    ids = [i for i in ids if i in os.environ['REFACTOR_IDS'].split(',')]
bad = 0


def one(name):
    global bad
    lines = []

    def print(*a):
        lines.append(' '.join(str(x) for x in a))
    tmp = tempfile.mkdtemp(prefix='aslrf-')
    try:
        rp = os.path.join(tmp, 'repo')
        selftest.copy_repo(rp)
        r = subprocess.run(['patch', '-p1', '-s', '-d', rp, '-i', '/verif/refactors/%s/patch.diff' % name], stdout=subprocess.PIPE, stderr=subprocess.STDOUT, text=True)
        if r.returncode != 0:
            print(name, 'SKIPPED: patch no longer applies')
            return lines
        env = dict(os.environ, ASL_REPO=rp, ASL_NO_EVIDENCE='1', ASL_CACHE=os.path.join(tmp, 'cache'))

        def run(i):
            rr = subprocess.run([sys.executable, '/verif/check', i, '--repo', rp, '--no-mutants'], stdout=subprocess.PIPE, stderr=subprocess.STDOUT, text=True, env=env, cwd='/verif')
            return i, rr.returncode, [l for l in rr.stdout.splitlines() if ('%s-R' % i) in l and 'KNOWN-FINDING' not in l or 'ANALYSIS-BROKEN' in l][:3]
        out = [run(ids[0])]
        with ThreadPoolExecutor(max_workers=6) as ex:
            out += list(ex.map(run, ids[1:]))
        fails = [(i, rc, ls) for i, rc, ls in out if rc != 0]
        print(name, 'OK' if not fails else 'FALSE ALARM / LOST ANCHOR')
        for i, rc, ls in fails:
            bad += 1
            print('  ', i, 'exit', rc)
            for l in ls:
                print('      ', l[:250])
    finally:
        shutil.rmtree(tmp, ignore_errors=True)
    return lines


import builtins
with ThreadPoolExecutor(max_workers=int(os.environ.get('REFACTOR_JOBS', '3'))) as pool:
    for ls in pool.map(one, names):
        for l in ls:
            builtins.print(l, flush=True)

sys.exit(1 if bad else 0)
