#!/bin/sh
# tools/mkseedmut.sh <seed name> <pid> <rule> <instance key> <what>
# Stores a confirmed independent seed as a selftest mutant of property <pid>.
set -e
sfx=$(echo "$1" | sed 's/^C[0-9][0-9]-//')
mkdir -p /verif/selftest/mutants/$2
{ echo "# expect: $3 $4"; echo "# what: $5"; cat /verif/seeded/$1/patch.diff; } > /verif/selftest/mutants/$2/seed-$sfx.diff
echo "wrote selftest/mutants/$2/seed-$sfx.diff"
