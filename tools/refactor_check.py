#!/usr/bin/env python3
"""tools/refactor_check.py <worktree> <name>
Takes a behaviour-preserving refactoring written by an independent agent
(<worktree>/seed_out/patch.diff, notes.md), confirms that the refactored tree
passes the 201 tests, stores it under /verif/refactors/<name>/ and runs every
claimed check on a scratch copy with the patch applied.  Any exit code other
than 0 is a robustness defect of the checks (false alarm or lost anchor)."""
import sys, os, subprocess, json, shutil, tempfile, re
sys.path.insert(0, '/verif/engine')
import selftest
from concurrent.futures import ThreadPoolExecutor

wt, name = sys.argv[1], sys.argv[2]
so = os.path.join(wt, 'seed_out')
dst = os.path.join('/verif/refactors', name)
os.makedirs(dst, exist_ok=True)
for f in ('patch.diff', 'notes.md'):
    if os.path.exists(os.path.join(so, f)):
        shutil.copy(os.path.join(so, f), os.path.join(dst, f))
res = {}
if os.path.isdir(os.path.join(wt, '_build')):
    r = subprocess.run(['cmake', '--build', os.path.join(wt, '_build')], stdout=subprocess.PIPE, stderr=subprocess.STDOUT, text=True)
    res['build_ok'] = r.returncode == 0
    r = subprocess.run(['ctest', '--test-dir', os.path.join(wt, '_build'), '-j16', '--timeout', '900'], stdout=subprocess.PIPE, stderr=subprocess.STDOUT, text=True)
    m = re.search(r'(\d+)% tests passed, (\d+) tests failed out of (\d+)', r.stdout)
    res['tests'] = m.group(0) if m else r.stdout[-200:]
tmp = tempfile.mkdtemp(prefix='aslrf-')
try:
    rp = os.path.join(tmp, 'repo')
    selftest.copy_repo(rp)
    r = subprocess.run(['patch', '-p1', '-s', '-d', rp, '-i', os.path.join(dst, 'patch.diff')], stdout=subprocess.PIPE, stderr=subprocess.STDOUT, text=True)
    res['patch_applies'] = r.returncode == 0
    if r.returncode != 0:
        res['patch_note'] = r.stdout[-300:]
    man = json.load(open('/verif/MANIFEST.json'))
    ids = [c['property_id'] for c in man['checks']]
    env = dict(os.environ, ASL_REPO=rp, ASL_NO_EVIDENCE='1', ASL_CACHE=os.path.join(tmp, 'cache'))

    def run(i):
        r = subprocess.run([sys.executable, '/verif/check', i, '--repo', rp, '--no-mutants'], stdout=subprocess.PIPE, stderr=subprocess.STDOUT, text=True, env=env, cwd='/verif')
        lines = [l for l in r.stdout.splitlines() if (('%s-R' % i) in l or 'ANALYSIS-BROKEN' in l or 'Error' in l) and 'VIOLATION' not in l and 'KNOWN-FINDING' not in l][:6]
        return i, r.returncode, lines
    out = [run(ids[0])]
    with ThreadPoolExecutor(max_workers=6) as ex:
        out += list(ex.map(run, ids[1:]))
    res['checks'] = {i: {'exit': rc, 'reports': [l[:400] for l in lines]} for i, rc, lines in out}
finally:
    shutil.rmtree(tmp, ignore_errors=True)
json.dump(res, open(os.path.join(dst, 'result.json'), 'w'), indent=1)
print(name, {k: v for k, v in res.items() if k != 'checks'})
bad = {i: c for i, c in res.get('checks', {}).items() if c['exit'] != 0}
for i, c in sorted(bad.items()):
    print(' ', i, 'exit', c['exit'])
    for l in c['reports']:
        print('     ', l[:300])
print('false alarms / lost anchors:', sorted(bad) or 'none')
