#!/usr/bin/env python3
"""Regenerates MANIFEST.json from the table below (claimed checks) and
properties.jsonl (everything not claimed is listed under not_applicable)."""
import json, os

HERE = os.path.dirname(os.path.dirname(os.path.abspath(__file__)))

CLAIMS = {
    'C03': dict(
        technique='custom static analysis over clang AST/CFG facts: guarded-by queries, non-zero/bounds prover, taint to sinks',
        text=('Decides, on every path of the code and for every input, four necessary conditions of crash freedom: '
              'each non-constant integer division has a provably non-zero divisor; construct-stack heads are never '
              'dereferenced without a null test; integers from user expressions, code files or argc reach fixed-size '
              'array subscripts and copy lengths only after bounding tests; the structure pseudo segment is never '
              'entered without an open structure. Structural, not behavioural: hangs, heap lifetime and code '
              'generators\' private buffers are not decided.'),
        note=('Trusted: clang 14 front end/CFG, compile database from CMake, listed exceptions (5 divisions, 3 '
              'relational buffer bounds) each with a stated reason; assumes malloc succeeds.'),
        ref='5 (C03), 4 (A3, A6)'),
}

CLAIMS['C05'] = dict(
    technique='custom static analysis: binding rule on out-parameters, dominance/reachability in a configuration-specialised CFG, constant-writer check',
    text=('Decides structural necessary conditions of P2BIN\'s image: the -f filter is applied to the CPU id that '
          'ReadRecordHeader() returned; divisors non-zero; the pre-fill dominates every record copy; the overlap warning '
          'is control-dependent exactly on AddChunk()\'s overlap result; the lane divisor only takes 1/2/4; every '
          'measured input of the pre-fill is computed under every option configuration. Byte-level window/lane/address '
          'arithmetic is not decided.'),
    note='Trusted: clang 14 front end/CFG, CMake compile database, generated message-number headers.',
    ref='5 (C05)')
CLAIMS['C06'] = dict(
    technique='custom static analysis: per-format specialised reaching definitions on the CFG, table agreement, clang format checker',
    text=('Decides: for each of the 10 hex formats every checksum handed to an output call is started by a plain '
          'assignment within the same line/record iteration; every header id a code generator can set has a family '
          'descriptor with a concrete default format; printf-family calls have a conversion per argument; divisors are '
          'non-zero. Textual validity and decoded contents of the hex output are not decided.'),
    note='Trusted: clang 14 front end/CFG and -Wformat checker; enumerators of the hex formats as the finite variant set.',
    ref='5 (C06), 4 (A10)')
CLAIMS['C07'] = dict(
    technique='custom static analysis: reader/writer conformance on CFG paths (iteration-local dominance), binding rules',
    text=('Decides: PBIND writes each field it read with the same width from the same unmodified variable, every field '
          'read for a kept record is written, the payload loop writes what it read; WriteRecordHeader()\'s short-form '
          'condition equals what ReadRecordHeader() reconstructs; PLIST prints the variables bound to the record header '
          'and field reads and accumulates totals with += under the record\'s segment; format/argument agreement. '
          'Per-record listing values are not decided.'),
    note='Trusted: clang 14 front end/CFG and -Wformat checker.',
    ref='5 (C07), 4 (A8)')

CLAIMS['C08'] = dict(
    technique='table agreement against the manual parsed at run time, guarded-by queries on the CFG, dead-store lint',
    text=('Decides: the operator table equals the manual\'s (symbols incl. aliases, arity, operand types, rank order '
          'isomorphism) and the function table likewise (names, argument count and types); every row dispatches to the '
          'like-named handler; each documented domain limit has an error guard with exactly the documented bound; the '
          'integer division operators exclude 0 and MIN/-1; no operator/function body ignores a computed result; string '
          'positions are bounded before use. Numerical results and literal syntax are not decided.'),
    note='Trusted: clang 14 front end/CFG; the manual (doc/assembler-usage.md) as oracle for the tables; the table of documented domains in rules/c08.py transcribed from the manual.',
    ref='5 (C08), 4 (A2, A3)')

CLAIMS['C12'] = dict(
    technique='state-machine extraction by CFG specialisation per construct state, guarded-by queries, loop-index lint',
    text=('Decides: the (state, event) relation extracted from the conditional-assembly handlers equals the documented '
          'protocol (legal events make exactly the documented transition, every misplaced event reaches an error call, '
          'every IF* pushes on all paths); the construct stack head is null-guarded; IfAsm is only narrowed by inner '
          'constructs; label definition, macro/struct expansion and instruction decoding are guarded by IfAsm while the '
          'conditional dispatcher is not; argument loops step once per iteration; every construct stack has an '
          'end-of-pass balance check. Truth of individual conditions is not decided.'),
    note='Trusted: clang 14 front end/CFG; the protocol table in rules/c12.py transcribed from the manual\'s description of IF/SWITCH constructs.',
    ref='5 (C12), 4 (A12, A3)')

CLAIMS['C02'] = dict(
    technique='who-may-write shape rules over the phase-partitioned call graph, must-pass/guarded-by queries, type-width facts, exit-code table agreement with the manual',
    text=('Decides: only the diagnostic emitter increments the error/warning counters, once per diagnostic, selected by '
          'the warning flag that -Werror can only turn into error; counters are zeroed only at pass start and are at '
          'least as wide as the -maxerrors limit; removal of the code file, the global error flag and the exit status '
          'hang off the single predicate ErrorCount != 0; exit codes are the documented ones and exit(3) is preceded by '
          'the clean-up that removes the outputs; ERROR/WARNING/FATAL route through the emitter. Message text and -E '
          'routing are not decided.'),
    note='Trusted: clang 14 front end/CFG; return-code list of doc/assembler-usage.md; three listed exceptions (-Y JmpErrors, two internal-consistency exits).',
    ref='5 (C02), 4 (A4, A3)')

CLAIMS['C01'] = dict(
    technique='effect analysis (MOD/must-KILL with callee summaries over the phase-partitioned call graph), who-may-write shape rules, must-pass queries',
    text=('Decides necessary conditions of the fixpoint: the repass flag is cleared only at pass start and set everywhere '
          'else, and controls the pass loop; every placeholder fabricated for an unknown symbol forces a repass (or an '
          'error once symbols must be defined); values of existing symbol entries are written only through the change '
          'detector; every core variable and every registered per-target variable (ASSUME registers, ON/OFF flags, CPU '
          'arguments) that a pass may write is re-initialised per pass or belongs to a listed, supported class. '
          'Termination and that encoded operands equal final symbol values are not decided; the padding/label '
          'non-convergence is a listed known finding.'),
    note='Trusted: clang 14 front end/CFG; the classification table of core globals in rules/reset.py (each class with a supporting check); assumes the default CPU exists.',
    ref='5 (C01), 4 (A5, A4, A3), appendix A')
CLAIMS['C18'] = dict(
    technique='effect analysis (MOD/must-KILL), table exhaustiveness over all CPU switch functions',
    text=('Decides reset completeness: every core variable written while a file is assembled is re-initialised per '
          'file/pass or cleared at file end (or is in a listed class); each of the code generators\' CPU switch '
          'functions sets the whole target interface that SetCPUCore() does not reset centrally, including start '
          'address, granularity and limit of every segment it declares; registered per-target state is reset. Equality '
          'of outputs for concrete file pairs and unregistered private generator statics are not decided.'),
    note='Trusted: clang 14 front end/CFG; classification table in rules/reset.py.',
    ref='5 (C18), 4 (A5, A2)')

CLAIMS['C10'] = dict(
    technique='who-may-write shape rules, pairing (push/pop) and dominance queries on the CFG, reset completeness',
    text=('Decides: counters, phase offsets/stacks and the active segment are written only by the core bookkeeping '
          'modules; PHASE saves and pushes on the active segment\'s stack before replacing the offset and DEPHASE '
          'restores/pops from the same stack; the state SAVE stores is what RESTORE reads back; labels are defined from '
          'the phased counter; ALIGN\'s divisor is non-zero; the bookkeeping state is reset per pass; WriteCode checks '
          'the segment limit before advancing and advances on every emitting path. Counter arithmetic for concrete '
          'statement sequences is not decided.'),
    note='Trusted: clang 14 front end/CFG.',
    ref='5 (C10)')
CLAIMS['C13'] = dict(
    technique='guarded-by/dominance queries with value flow through copies and callers, pairing on paths',
    text=('Decides: names are case-folded before every keyed search/insert in the symbol, macro and structure trees and '
          'the FORWARD/PUBLIC/GLOBAL lists; the macro-local lookup precedes the section/global one at every resolution '
          'site; the EQU/SET redefinition errors are raised exactly under the documented tests and reject the '
          'definition; global-scope escapes are balanced on all paths. Section-tree resolution results and '
          'temporary-symbol binding are not decided.'),
    note='Trusted: clang 14 front end/CFG.',
    ref='5 (C13)')

CLAIMS['C04'] = dict(
    technique='reader/writer conformance against the manual\'s record schema, must-pass/dominance queries on the CFG, dimension (bytes vs address units) checking',
    text=('Decides: the record header writer emits type, CPU family, segment, granularity, 4-byte start, 2-byte length '
          'in the order and widths of the manual\'s schema and the readers take them in the same order; segment numbers '
          'equal the manual\'s table; in WriteBytes the 65535-byte limit test precedes every store, every stored line is '
          'added to the record length once, the byte swap is undone; every seek/tell/close on the code file follows a '
          'flush; byte and address-unit quantities are combined only through the granularity; only asmcode.c writes the '
          'file; buffer copies are bounded. That the union of records equals the program\'s bytes for every length and '
          'interleaving is not decided.'),
    note='Trusted: clang 14 front end/CFG; doc/file-formats.md as schema oracle; the dimension table in rules/c04.py.',
    ref='5 (C04), 4 (A8, A3)')

CLAIMS['C19'] = dict(
    technique='binding rules on call arguments, ordering (dominance / must-pass) on the CFG, correlated-condition pairing',
    text=('Decides: the listing undoes its byte swap of the line buffer on every path; the use-list/debug bookkeeping '
          'records the physical load address (ProgCounter), the line\'s length, line, file and segment and runs before '
          'the counter is advanced; every processed line is listed; symbol table and debug info are produced after the '
          'last pass (debug info only for error-free runs). Rendered listing/MAP/share text is not decided.'),
    note='Trusted: clang 14 front end/CFG.',
    ref='5 (C19)')
CLAIMS['C20'] = dict(
    technique='slot exhaustiveness per constructor (must-pass), save/restore pairing between constructors and their installed callbacks, ordering queries',
    text=('Decides: every input-tag constructor fills the processor, clean-up and position-reporter slots on all paths; '
          'every line processor updates the current line (file lines by the number of physical lines read); what a '
          'tag\'s restorer copies back into the position state was saved from that same state by the constructor; the '
          'EXPECT lookup precedes the emitter and suppresses announced messages, ENDEXPECT reports every leftover; the '
          'position reporter walks the whole tag chain. Positions printed for concrete nestings are not decided.'),
    note='Trusted: clang 14 front end/CFG.',
    ref='5 (C20)')

CLAIMS['C16'] = dict(
    technique='deviant-behaviour (contradiction) rule on comparison style per function, dominance queries',
    text=('Decides the letter-case and line-end clauses: within every code-generator function a given operand text is '
          'compared with keyword literals in one style only (case-insensitive, or exact after up-casing); the mnemonic '
          'is up-cased before every lookup of the line decoder; ReadLnCont() strips the CR of a CR-LF line end before '
          'it tests for a continuation backslash. Blanks, comments, label colon and INCLUDE/macro wrapping are not '
          'decided.'),
    note='Trusted: clang 14 front end/CFG. The comparison-style rule is relative: it cannot see a function that compares a text exactly throughout.',
    ref='5 (C16)')
CLAIMS['C17'] = dict(
    technique='non-interference by effect analysis per read site (MOD of exclusively controlled regions, report sinks), who-may-call rules',
    text=('Decides: every read of a report-only option inside a pass is the condition of a region that writes no '
          'code-affecting state and raises at most warnings, a copy into a derived option, or an operand of a report '
          'sink; the dual-use options -h/-SPLITBYTE are confined to formatting routines and consumers of formatted '
          'float text search case-agnostically; clock/environment/cwd are read only at reviewed sites; environment, key '
          'file and argv feed one decoder with one table. Listing/MAP text reproducibility and locale effects are not '
          'decided.'),
    note='Trusted: clang 14 front end/CFG; the lists of report options, code-affecting state and report sinks in rules/c17.py; three listed exceptions.',
    ref='5 (C17), 4 (A5-ii)')

CLAIMS['C14'] = dict(
    technique='table agreement of registered opcode constants with embedded ISA references, well-formedness lints on resolved expressions (fold thresholds, mask vs range check, distance windows)',
    text=('Decides for 6502, 8080/8085, Z80 (fixed set), MSP430, PIC16C8x, AVR and 4004/4040: 300 table-driven opcode '
          'constants equal the manufacturers\' instruction-set summaries; sign-extension/wrap thresholds are well formed; '
          'a range-checked operand is never masked narrower than the accepted range; distance errors are guarded by '
          'two\'s-complement windows. Fields composed in handler code and per-mode operand encodings are not decided.'),
    note='Trusted: clang 14 front end/CFG; oracles/isa/*.tbl written from the manufacturers\' instruction-set summaries (independent of the tree).',
    ref='5 (C14), 4 (A2, A11)')
CLAIMS['C15'] = dict(
    technique='cross-table agreement between the assembler\'s registration tables and the disassembler\'s opcode tables; fold-threshold lint',
    text=('Decides for 6800/6802 and 4004/4040: every opcode the assembler can emit from its tables is decoded by the '
          'disassembler with one of the assembler\'s mnemonics for that opcode and the matching operand class (regular '
          'mode offsets of the ISA); sign-extension thresholds are well formed (displacement $80); relative targets are '
          'address + 2 + displacement. The 87C800 disassembler (code-driven), control-flow tracing and label synthesis '
          'are not decided.'),
    note='Trusted: clang 14 front end; the regular 6800/4004 mode-offset encoding stated in rules/c15.py.',
    ref='5 (C15)')

CLAIMS['C09'] = dict(
    technique='agreement of (emitter, range-check type, element width) triples per switch arm, guarded-by queries',
    text=('Decides the width clauses: in the Motorola-style DC decoder each operand size selects the emitter and the '
          'range-check type of that width, GetWSize() reports the emitter\'s byte count, the Intel-style layout '
          'functions pair RangeCheck(IntN) with PutN; every integer emitter call is guarded by that range check (or '
          'the first-pass/questionable flags) and by the buffer growth; padding only through InsertPadding(). IEEE '
          'rounding, byte order, CHARSET and DUP values are numerical/behavioural and not decided (an independently '
          'seeded half-precision rounding change is NOT detected; see DESIGN section 7).'),
    note='Trusted: clang 14 front end/CFG; the width table in rules/c09.py (8/16/24/32/64 bits).',
    ref='5 (C09)')
CLAIMS['C11'] = dict(
    technique='pairing/typestate on CFG paths, guarded-by queries, token-table agreement, capacity-test lint',
    text=('Decides the scoping and guarding clauses: every expansion processor opens one private symbol space at the '
          'first body line of each iteration unless GLOBALSYMBOLS (closing the previous one) and its restorer closes the '
          'last; every expansion entry point is inert while conditional assembly is off; special-parameter tokens are a '
          'block above the argument tokens and identical where bodies are stored and expanded; on-demand growth of '
          'NUL-terminated line buffers counts the terminator. The textual-substitution equivalence itself is not '
          'decided.'),
    note='Trusted: clang 14 front end/CFG.',
    ref='5 (C11)')

# rules added after the second round of independently seeded changes (DESIGN.md section 7)
ADDENDA = {
    'C01': ' Also: logical (EProgCounter) and physical (ProgCounter) addresses are never compared across (the BSR anti-oscillation state).'
           ' A value narrowed into a Boolean (8 bits) is already a truth value (repass decision flags).',
    'C03': ' Also: input-tag clean-up procedures tolerate their second call after EXITM; the name validators reject the empty '
           'string (constant propagation); the IRPN group count is accepted only when positive; every ChkIO() call in the '
           'tools stands under a failure test or after errno = 0; a pointer the function itself tests for NULL is never '
           'dereferenced unguarded. fread() copy loops end on a short read; no CFG cycle of the disassemblers is free of '
           'effects (a jump back to its own label); a record field the program itself fills with NULL for some record kinds '
           'is dereferenced only behind a NULL test or the same record-kind test, with the list cursor advanced once per '
           'record kind that appended an element (alink); an index that starts at 0 never runs to "<= count" over an array '
           'that three other loops treat as counted. A loop whose exit variable moves only by "+= step" does not add zero '
           '(interval analysis; undecided loops are listed, not claimed); results of tool functions that can return NULL '
           'are tested before use; integers from the code file are bounded before they are added to a pointer; in-place '
           'insertion into a buffer of unknown size only behind a capacity comparison; a length derived from a function '
           'argument is not narrowed before it was bounded. Data statements ask for room in the code buffer before their '
           'argument loop stores into it, bulk fills compare with the buffer\'s current size, buffer sizes are computed '
           'in the wide integer type; a failed read of a record header does not return to the caller; values that own a '
           'string buffer are copied, never assigned as structures (and a duplicated symbol entry gets a fresh string); '
           'the line buffer is grown before #define expansion lengthens it; relative seeks by file values go forward; a '
           'growing index into a fixed local array is compared with its size; alink patches the record buffer only at '
           'checked offsets. Every cycle of the call graph bounds its depth (depth counter with limit, cleared flag, '
           'descent of a data structure, or a listed reason): nesting in one source line cannot exhaust the stack; '
           'stores of a chained addressing mode into the fixed extension-word array lie behind a bound test, and in general '
           'a store at a subscript that the surrounding loop steps up lies behind a comparison of that counter; the last '
           'character of a string (s[strlen(s) - 1]) is addressed only where the string is known not to be empty.',
    'C04': ' Also: line bytes are written straight to the file only after the write-behind buffer was flushed.'
           ' A segment is marked used before its counter advances, also for lines that emit nothing.',
    'C05': ' Also: the measuring pass updates start/stop/granularity only for records the copy selects; the target offset of '
           'a record depends on the same lane parameters as the byte-lane filter; dimension check of address/byte arithmetic.'
           " The pre-fill buffer's last store before the fill loop is the fill value."
           ' The list behind the overlap warning lives for the whole run and AddChunk() compares summed and merged length '
           'for every union it forms.',
    'C06': ' Also: per-record Boolean state is assigned before it is read in every record and format; the measuring pass '
           'applies the same CPU/segment selection as the conversion; dimension check.',
    'C07': ' Also: the tools\' granularity table (used for short headers) equals the code generators\' Grans[SegCode] per '
           'header id; fread/fwrite result convention; ChkIO() only under a failure test or after errno = 0.',
    'C08': ' Also: every operator handler applies the C operator of its symbol to (left, right); logical operators use truth '
           'values only; a letter is a number-system marker exactly when it is no digit of the current RADIX (linear normal '
           'form of the comparison), and every handler that recognises a marker letter next to the digits reaches '
           '"return True" only through that comparison. Conversion flag bits that are produced combined are consumed '
           'independently.',
    'C09': ' Also: no carry/borrow/length adjustment of a fill or length counter is overwritten before it can be observed '
           '(lost update) in the data-definition modules.'
           ' The range check of a data value is skipped only under FirstPassUnknown|Questionable; string characters reach the emitters as unsigned bytes.'
           ' Translated strings are handled by length, never by C-string functions; the half-precision rounding decision reads all cut-off bits.'
           ' A cached program counter is not used after a call that can advance the counter.'
           ' Carry and borrow between word count and position inside the word come in pairs; the packing position of '
           'string characters restarts for every string argument. A static that takes over a per-call parameter is not '
           'assigned under a one-time initialisation guard.',
    'C10': ' Also: STRUCT set-up touches only the struct pseudo segment; rounding of the program counter is done in the '
           'unsigned address type; ORG and PHASE hold an address operand in the address type; logical and physical addresses '
           'are not mixed; RESTORE actions are independent of each other. A cached program counter is not used after a '
           'call that can advance the counter. Carry and borrow between word count and position inside the word come in pairs.',
    'C11': ' Also: default values are never applied because of the argument text; the argument list and its counter move '
           'together and every formal parameter is substituted; terminator-aware growth of line buffers. A loop body is '
           'queued only for a positive iteration count; body processors clear the first-line flag their restorer tests. '
           'Arguments behind the formal parameters are appended whatever their text.',
    'C13': ' Also: nothing but definitions (and look-ups of the name being defined) happens inside a global-scope escape; '
           'section/forward chain searches stop at the first match.'
           ' Stored user-defined names are compared exactly (case folding only through the CaseSensitive-guarded up-casing).'
           ' PUSHV and POPV walk the stack list by the same ordering. The section qualifier of a PUBLIC/GLOBAL/FORWARD name is set per name.',
    'C14': ' Also: no generator consumes shared scratch that only other targets assign; 4004 JCN/ISZ take the page from the '
           'address behind the instruction; masks cover range-checked values.'
           ' 6502 branch distances are held in 16 bits (wrap at 64K). Overflow tests on displacement adjustments compare '
           'the operands the adjustment actually used; AVR wrap masks are derived from the word-address limit. 65xx: '
           'zero-page shortening only without a size prefix. A byte put in front of encoded code moves the code up first.',
    'C15': ' Also: assembler and disassembler use the same page reference for 4004 JCN/ISZ. The disassembler prints labels, '
           'ORG and hex literals in the syntax the matching assembler accepts; address wrap uses a 2^n-1 mask and the '
           'next-address slots are read only where they were written. The image loaders append a record to a chunk only '
           'where its address equals the chunk end. Rows of one instruction in the decoder tables agree in the control-flow column.',
    'C16': ' Also: a generator\'s per-line carrier state is copied only behind the non-empty-statement test. No string '
           'literal continues behind an embedded NUL and a divider set with the blank has the tab; the CR of a CR-LF pair '
           'is looked for in the collected line, not only in the last chunk read. No expression is evaluated while the '
           'labels local to a macro expansion are switched off. "First blank or tab" compares the two positions.',
    'C17': ' Also: ChkIO() on report outputs stands under a failure test or after errno = 0, so that a report option cannot '
           'abort the assembly through a stale errno.'
           ' Formatted text that is handed back to the caller as a value does not depend on a report option; generated symbol names use only %d/%s and %d ignores -SPLITBYTE.'
           ' Clears of code-affecting state between passes are not controlled by a report option.'
           ' Code is not built from buffer bytes nobody wrote (front insertion moves the code up).',
    'C18': ' Also: no generator consumes shared scratch only other targets assign; the target\'s SwitchFrom runs inside the '
           'end-of-pass phase before the error accounting is closed.'
           ' ParseCPUArgs() splits a private copy of the -cpu argument list; lists classified as emptied per pass have a must-kill check.'
           ' Per-line carrier state of a generator (prefix pending for the next instruction) is reset when the target is initialised.',
    'C19': ' Also: WriteBytes() undoes its byte swap on every path (the listing is produced afterwards).'
           ' The debug (MAP/NoICE) writers use a fixed radix. The include-file line mapping is pushed and popped in pairs.'
           ' The Clear*/Reset* functions called between passes empty their lists on every path.',
    'C20': ' Also: ReadLnCont() advances the returned line count once per physical line, terminated or not; restorer/constructor '
           'pairing of the position state. The iteration number of loop positions is normalised in one direction.',
    'C02': ' -Werror promotion is tested inside the emitter on every path to the warning count.'
           ' The -E log is closed between source files only under a test of ErrorPath; -maxerrors is compared with the error count only.',
}
ADDENDA8 = {
    'C02': ' Every increment of JmpErrors (subtracted from the error count under -Y) is followed on every path by the counting emitter.',
    'C09': ' Where a (word count, position in word) pair is normalised by division, quotient and remainder are taken of the same dividend.',
    'C10': ' Where a (word count, position in word) pair is normalised by division, quotient and remainder are taken of the same dividend. The pseudo-instruction libraries read the logical counter only.',
    'C13': ' The key of the named PUSHV/POPV stack list is folded like symbol names (in the function or by every caller); '
           'a local pointer that is initialised with NULL and later tested receives a non-NULL value somewhere (predecessor pointers of list searches).',
    'C20': ' Every capacity GetErrorPos() requests for the position text includes a byte for the terminator.',
    'C03': ' The position callbacks (*_GetPos) use bounded copies only; the IRPN count has an upper bound.',
    'C08': ' No function that receives the pointer of a counted string value hands it to a routine that stops at a NUL character.',
    'C12': ' Every line skipper that counts nested bodies recognises their start through MacroStart() or names at least its keywords.',
}
for _k, _v in ADDENDA.items():
    CLAIMS[_k]['text'] = CLAIMS[_k]['text'] + _v
for _k, _v in ADDENDA8.items():
    CLAIMS[_k]['text'] = CLAIMS[_k]['text'] + _v

NA_REASONS = {}


def main():
    props = [json.loads(l) for l in open(os.path.join(HERE, 'properties.jsonl'))]
    m = {
        'version': 1,
        'setup_cmd': 'engine/build.sh',
        'hooks': {
            'guard': 'ASL_VERIF',
            'enable': 'none needed: the checks parse /repo\'s working tree with clang; no hook code exists in /repo',
            'baseline_off_cmd': 'cmake -G Ninja -S /repo -B /repo/_build && cmake --build /repo/_build && ctest --test-dir /repo/_build -j8 --timeout 900',
            'source_commits': [],
            'add_only': True,
        },
        'engines': [{
            'name': 'aslfacts',
            'path': 'engine/aslfacts.cc',
            'serves_properties': sorted(CLAIMS),
            'kind_free_text': 'libTooling fact extractor (AST + CFG facts per translation unit, ~4 s for 171 units); '
                              'Python rules in engine/rules decide; ./check is the driver',
        }],
        'checks': [],
        'not_applicable': [],
        'notes': 'Static analysis only: no check runs asl, a tool or the test suite. Exit 0/1/2 (2 = analysis broken: '
                 'missing anchor, parse failure, or a rule matching fewer instances than confirmed by hand).',
    }
    for p in props:
        pid = p['id']
        if pid in CLAIMS:
            c = CLAIMS[pid]
            m['checks'].append({
                'property_id': pid,
                'quick_cmd': './check %s --tier quick' % pid,
                'thorough_cmd': './check %s --tier thorough' % pid,
                'evidence_file': 'evidence/%s.json' % pid,
                'replay_cmd_template': './check %s --explain {path}' % pid,
                'engine': 'aslfacts',
                'level_claimed': {'category': 'other', 'text': c['text'], 'design_ref': c['ref']},
                'level_note': c['note'],
                'technique': c['technique'],
            })
        else:
            m['not_applicable'].append({
                'property_id': pid,
                'reason': NA_REASONS.get(pid, 'static rules for this property are designed (DESIGN.md section 5) but '
                                              'not yet implemented in this tree; not claimed'),
            })
    json.dump(m, open(os.path.join(HERE, 'MANIFEST.json'), 'w'), indent=1)
    print('claimed:', sorted(CLAIMS))


if __name__ == '__main__':
    main()
