#!/bin/sh
# tools/mkrevert.sh <repo commit> <pid> <name> <rule> <instance key> <what>
# Stores the reverse of a /repo fix commit as a seeded break for the selftest.
set -e
mkdir -p /verif/selftest/mutants/$2
{ echo "# expect: $4 $5"; echo "# what: $6"; git -C /repo diff $1 $1~1; } > /verif/selftest/mutants/$2/$3.diff
