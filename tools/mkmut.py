#!/usr/bin/env python3
"""tools/mkmut.py <pid> <name> <rule> <key> <what> <file> <old> <new> [<file> <old> <new> ...]
Creates selftest/mutants/<pid>/<name>.diff replacing the unique occurrence of
<old> by <new> in /repo/<file> (the repo itself is not touched)."""
import sys, os, difflib
pid, name, rule, key, what = sys.argv[1:6]
rest = sys.argv[6:]
out = ['# expect: %s %s\n' % (rule, key), '# what: %s\n' % what]
bypath = {}
for k in range(0, len(rest), 3):
    path, old, new = rest[k:k + 3]
    src = bypath.get(path) or open('/repo/' + path).read()
    old = old.encode().decode('unicode_escape'); new = new.encode().decode('unicode_escape')
    if src.count(old) != 1:
        sys.exit('%s: %d occurrences of %r' % (path, src.count(old), old))
    bypath[path] = src.replace(old, new)
for path, dst in bypath.items():
    src = open('/repo/' + path).read()
    out.extend(difflib.unified_diff(src.splitlines(True), dst.splitlines(True), 'a/' + path, 'b/' + path))
d = '/verif/selftest/mutants/%s' % pid
os.makedirs(d, exist_ok=True)
open('%s/%s.diff' % (d, name), 'w').writelines(out)
print('wrote', name)
