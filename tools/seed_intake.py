#!/usr/bin/env python3
"""tools/seed_intake.py <pid> <worktree> [<name>]
Confirms an independently written seeded break and stores it as
/verif/seeded/<name>/ (patch.diff, demo.sh, meta.json with what was run).
 1. the worktree (change applied, built) passes the 201 tests
 2. demo.sh exits 1 on the changed build and 0 on /repo/_build (unchanged)
 3. the patch applies to /repo's HEAD (scratch copy) and every claimed check is run on it
"""
import sys, os, subprocess, json, shutil, tempfile, re
sys.path.insert(0, '/verif/engine')
pid, wt = sys.argv[1], sys.argv[2]
name = sys.argv[3] if len(sys.argv) > 3 else pid
so = os.path.join(wt, 'seed_out')
dst = os.path.join('/verif/seeded', name)
os.makedirs(dst, exist_ok=True)
for f in ('patch.diff', 'demo.sh', 'meta.json'):
    shutil.copy(os.path.join(so, f), os.path.join(dst, f))
for f in os.listdir(so):
    if f not in ('patch.diff', 'demo.sh', 'meta.json') and os.path.isfile(os.path.join(so, f)) and os.path.getsize(os.path.join(so, f)) < 200000:
        shutil.copy(os.path.join(so, f), os.path.join(dst, f))
os.chmod(os.path.join(dst, 'demo.sh'), 0o755)
res = {}
r = subprocess.run(['cmake', '--build', os.path.join(wt, '_build')], stdout=subprocess.PIPE, stderr=subprocess.STDOUT, text=True)
res['changed_build_ok'] = r.returncode == 0
r = subprocess.run(['ctest', '--test-dir', os.path.join(wt, '_build'), '-j16', '--timeout', '900'], stdout=subprocess.PIPE, stderr=subprocess.STDOUT, text=True)
m = re.search(r'(\d+)% tests passed, (\d+) tests failed out of (\d+)', r.stdout)
res['changed_tests'] = m.group(0) if m else r.stdout[-200:]
r1 = subprocess.run([os.path.join(dst, 'demo.sh'), os.path.join(wt, '_build')], stdout=subprocess.PIPE, stderr=subprocess.STDOUT, text=True)
r0 = subprocess.run([os.path.join(dst, 'demo.sh'), '/repo/_build'], stdout=subprocess.PIPE, stderr=subprocess.STDOUT, text=True)
res['demo_changed_exit'] = r1.returncode
res['demo_changed_out'] = r1.stdout[-300:]
res['demo_unchanged_exit'] = r0.returncode
res['demo_unchanged_out'] = r0.stdout[-300:]
# run the property's check (and all other claimed checks) on a scratch copy with the patch
import selftest
tmp = tempfile.mkdtemp(prefix='aslseed-')
try:
    rp = os.path.join(tmp, 'repo')
    selftest.copy_repo(rp)
    r = subprocess.run(['patch', '-p1', '-s', '-d', rp, '-i', os.path.join(dst, 'patch.diff')], stdout=subprocess.PIPE, stderr=subprocess.STDOUT, text=True)
    res['patch_applies'] = r.returncode == 0
    checks = {}
    man = json.load(open('/verif/MANIFEST.json'))
    ids = [c['property_id'] for c in man['checks']]
    env = dict(os.environ, ASL_REPO=rp, ASL_NO_EVIDENCE='1', ASL_CACHE=os.path.join(tmp, 'cache'))
    from concurrent.futures import ThreadPoolExecutor
    def run(i):
        r = subprocess.run([sys.executable, '/verif/check', i, '--repo', rp, '--no-mutants'], stdout=subprocess.PIPE, stderr=subprocess.STDOUT, text=True, env=env, cwd='/verif')
        lines = [l for l in r.stdout.splitlines() if ('C%s-R' % i[1:]) in l and 'VIOLATION' not in l][:4]
        return i, r.returncode, lines
    # warm the cache with the property's own check first
    out = [run(pid)] if pid in ids else []
    with ThreadPoolExecutor(max_workers=6) as ex:
        out += list(ex.map(run, [i for i in ids if i != pid]))
    for i, rc, lines in out:
        checks[i] = {'exit': rc, 'reports': [l[:400] for l in lines]}
    res['checks'] = checks
finally:
    shutil.rmtree(tmp, ignore_errors=True)
meta = json.load(open(os.path.join(dst, 'meta.json')))
meta['confirmed'] = res
meta['caught_by'] = sorted(i for i, c in res.get('checks', {}).items() if c['exit'] == 1)
json.dump(meta, open(os.path.join(dst, 'meta.json'), 'w'), indent=1)
print(json.dumps({k: v for k, v in res.items() if k != 'checks'}, indent=1))
for i, c in sorted(res.get('checks', {}).items()):
    print(i, c['exit'], (c['reports'][0][:200] if c['reports'] else ''))
