	cpu 68000
	padding on
s	struct
f1	ds.b 1
f2	ds.w 1
s	endstruct
	org $1000
v	s
	dc.w s_f2, v_f2, s_len
