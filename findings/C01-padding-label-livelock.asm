	cpu 68000
	dc.l lab
	dc.b 1
lab:	nop
